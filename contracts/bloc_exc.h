/* bloc_exc.h -- the exception classes BLOC code throws or catches, and their hierarchy.
 * The hierarchy is written by hand from blocc/exception.h and the C++ standard ([std.exceptions], [re.badexp]); it is an assumption
 * listed in the evidence, not something a run re-derives. */
#ifndef BLOC_EXC_H
#define BLOC_EXC_H
char _ZTIN4bloc12RuntimeErrorE, _ZTIN4bloc10ParseErrorE, _ZTIN4bloc5ErrorE;
char _ZTISt9exception, _ZTISt12out_of_range, _ZTISt16invalid_argument, _ZTISt11logic_error, _ZTISt9bad_alloc,
     _ZTISt12length_error, _ZTISt8bad_cast, _ZTISt13runtime_error, _ZTISt11regex_error;
#define G2C_EXC_RuntimeError (&_ZTIN4bloc12RuntimeErrorE)
#define G2C_EXC_ParseError   (&_ZTIN4bloc10ParseErrorE)
#define G2C_EXC_Error        (&_ZTIN4bloc5ErrorE)
#define G2C_EXC_exception    (&_ZTISt9exception)
#define G2C_EXC_out_of_range (&_ZTISt12out_of_range)
#define G2C_EXC_invalid_argument (&_ZTISt16invalid_argument)
#define G2C_EXC_logic_error  (&_ZTISt11logic_error)
#define G2C_EXC_bad_alloc    (&_ZTISt9bad_alloc)
#define G2C_EXC_length_error (&_ZTISt12length_error)
#define G2C_EXC_bad_cast     (&_ZTISt8bad_cast)
#define G2C_EXC_runtime_error (&_ZTISt13runtime_error)
#define G2C_EXC_regex_error  (&_ZTISt11regex_error)

/* is the dynamic type `t` the class `c` or derived from it */
static _Bool __g2c_exc_isa(const void *t, const void *c)
{
  if (t == c) return 1;
  if (c == G2C_EXC_exception)
    return t == G2C_EXC_RuntimeError || t == G2C_EXC_ParseError || t == G2C_EXC_Error || t == G2C_EXC_out_of_range ||
           t == G2C_EXC_invalid_argument || t == G2C_EXC_logic_error || t == G2C_EXC_bad_alloc || t == G2C_EXC_length_error ||
           t == G2C_EXC_bad_cast || t == G2C_EXC_runtime_error || t == G2C_EXC_regex_error;
  if (c == G2C_EXC_Error)
    return t == G2C_EXC_RuntimeError || t == G2C_EXC_ParseError;
  if (c == G2C_EXC_runtime_error)
    return t == G2C_EXC_regex_error;
  if (c == G2C_EXC_logic_error)
    return t == G2C_EXC_out_of_range || t == G2C_EXC_invalid_argument || t == G2C_EXC_length_error;
  return 0;
}
#define EXC_IS_RUNTIME (__exc && __exc_type == G2C_EXC_RuntimeError)
#endif
