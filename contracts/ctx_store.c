/* contract of bloc::Context::storeVariable (C05, C08, C01): assignment and argument binding copy.
 * A value that is owned storage (a variable, a constant, a container element) is CLONED into the variable and comes
 * out untouched; a temporary is MOVED in and left null.  A locked symbol, or a type change the safety flag forbids, is
 * refused with a RuntimeError and changes nothing.  The variable's value is owned storage afterwards. */
#define HAVE_STD_STRING
#define CONTAINERS_MODEL
#define CONTAINERS_STRINGS_ONLY
#include "prelude.h"
#include "containers.h"
struct Context__MemorySlot g_slot; struct Symbol g_sym; unsigned g_id;
unsigned g_check_ret; int g_upgrade_n, g_clone_n; struct Value *g_clone_src;
struct Context__MemorySlot *_ZNSt6vectorIN4bloc7Context10MemorySlotESaIS2_EEixEm(void *this, unsigned long n)
{ (void)this; __CPROVER_assert(n == g_id, "the slot of the symbol"); return &g_slot; }
/* Symbol::SafetyCheck Symbol::check_safety(const Type&) const noexcept: SAFE_KO (0), SAFE_EQU (1) or SAFE_UPG (2) */
unsigned _ZNK4bloc6Symbol12check_safetyERKNS_4TypeE(const struct Symbol *this, const struct Type *t) { (void)this; (void)t; return g_check_ret; }
void _ZN4bloc6Symbol7upgradeERKNS_4TypeE(struct Symbol *this, const struct Type *t) { g_upgrade_n++; this->_base_Type._major = t->_major; this->_base_Type._minor = t->_minor; this->_base_Type._level = t->_level; }
void _ZN4bloc6Symbol7upgradeERKNS_9TupleDecl4DeclEh(struct Symbol *this, const void *d, unsigned char level) { (void)d; g_upgrade_n++; this->_base_Type._major = ROWTYPE; this->_base_Type._level = level; }
struct TupleDecl__Decl g_tuple_decl;
const struct TupleDecl__Decl *VCALL_Tuple_tuple_decl(const void *t) { (void)t; return &g_tuple_decl; }
/* Value Value::clone() const: proved in job value_clone; here the same effect on the fields a clause reads, recorded */
struct Value _ZNK4bloc5Value5cloneEv(struct Value *this)
{ struct Value c; g_clone_n++; g_clone_src = this; c._flags = this->_flags & F_NOTNULL; c._type._major = this->_type._major; c._type._minor = this->_type._minor; c._type._level = this->_type._level;
  c._value.i = this->_value.i; if (!V_ISNULL(this) && (V_LEVEL(this) > 0 || V_MAJOR(this) >= LITERAL)) c._value.p = __CPROVER_allocate(64, 0); return c; }

#define SLOTV (&g_slot.value)
#define SAME_TYPE(a, b) (V_MAJOR(a) == V_MAJOR(b) && V_MINOR(a) == V_MINOR(b) && V_LEVEL(a) == V_LEVEL(b))
#define E_UNCHANGED (e->_flags == __CPROVER_old(e->_flags) && e->_value.i == __CPROVER_old(e->_value.i) && V_MAJOR(e) == __CPROVER_old(V_MAJOR(e)) && V_MINOR(e) == __CPROVER_old(V_MINOR(e)) && V_LEVEL(e) == __CPROVER_old(V_LEVEL(e)))
#define SLOT_UNCHANGED (SLOTV->_flags == __CPROVER_old(SLOTV->_flags) && SLOTV->_value.i == __CPROVER_old(SLOTV->_value.i) && V_MAJOR(SLOTV) == __CPROVER_old(V_MAJOR(SLOTV)) && V_LEVEL(SLOTV) == __CPROVER_old(V_LEVEL(SLOTV)) && V_MINOR(SLOTV) == __CPROVER_old(V_MINOR(SLOTV)))
struct Value *_ZN4bloc7Context13storeVariableEjONS_5ValueE(struct Context *this, unsigned id, struct Value *e)
__CPROVER_requires(IS_FRESH(this, sizeof(*this)) && IS_FRESH(e, sizeof(*e)))
__CPROVER_requires(INPUT_STATE(g_id, g_check_ret, VALUE_FIELDS(&g_slot.value), g_sym._safety, g_sym._locked))
__CPROVER_requires(SET_EQ(g_slot.symbol, &g_sym) && id == g_id && g_check_ret <= 2 && VALID_TAG(e) && VALID_TAG(SLOTV) && V_LVALUE(SLOTV))
/* a payload kind owns a payload object; forall pointers are not stored through this path */
__CPROVER_requires(((V_LEVEL(e) > 0 || V_MAJOR(e) >= LITERAL) && !V_ISNULL(e)) ==> IS_FRESH(e->_value.p, 64))
__CPROVER_requires(!V_IS(e, POINTER) && !V_IS(SLOTV, POINTER))
__CPROVER_requires(__exc == 0 && __caught_n == 0 && g_upgrade_n == 0 && g_clone_n == 0 && GLOBALS_PINNED)
__CPROVER_assigns(__CPROVER_object_whole(e))
PROP(C01) __CPROVER_ensures(ONLY_RUNTIME_ERROR)
/* refused: a locked symbol, or a forbidden type change; then nothing has changed */
PROP(C05, C08) __CPROVER_ensures(g_sym._locked ==> (THROWN_RT(EXC_RT_CONST_VIOLATION_S) && SLOT_UNCHANGED && E_UNCHANGED))
PROP(C05, C08) __CPROVER_ensures(!OK ==> (SLOT_UNCHANGED && E_UNCHANGED && g_upgrade_n == 0))
PROP(C05, C08) __CPROVER_ensures((!g_sym._locked && (__CPROVER_old(SAME_TYPE(SLOTV, e)) || !g_sym._safety || g_check_ret != 0)) ==> OK)
/* stored: the variable has the value's type and nullness and is owned storage; the call returns the variable */
PROP(C05, C08) __CPROVER_ensures(OK ==> (RET == SLOTV && V_LVALUE(SLOTV) && V_MAJOR(SLOTV) == __CPROVER_old(V_MAJOR(e)) && V_LEVEL(SLOTV) == __CPROVER_old(V_LEVEL(e)) && V_ISNULL(SLOTV) == __CPROVER_old(V_ISNULL(e))))
/* C02: the symbol's type (what the next compilation sees) is the type of the value now stored -- upgraded exactly when the type changed */
PROP(C02) __CPROVER_ensures((OK && !__CPROVER_old(SAME_TYPE(SLOTV, e))) ==> (g_upgrade_n == 1 && g_sym._base_Type._major == V_MAJOR(SLOTV) && g_sym._base_Type._level == V_LEVEL(SLOTV) && (__CPROVER_old(V_MAJOR(e)) != ROWTYPE ==> g_sym._base_Type._minor == V_MINOR(SLOTV))))
PROP(C02) __CPROVER_ensures((OK && __CPROVER_old(SAME_TYPE(SLOTV, e))) ==> g_upgrade_n == 0)
/* C02: a type-protected symbol ('$' variable, loop iterator) refuses a value its constraint does not allow (check_safety says SAFE_KO) */
PROP(C02) __CPROVER_ensures((!g_sym._locked && !__CPROVER_old(SAME_TYPE(SLOTV, e)) && g_sym._safety && g_check_ret == 0) ==> (THROWN_RT(EXC_RT_TYPE_MISMATCH_S) && SLOT_UNCHANGED))
/* an owned value is copied: it comes out untouched and the variable holds a clone of it (none if it IS the variable) */
PROP(C05, C08) __CPROVER_ensures((OK && __CPROVER_old(V_LVALUE(e))) ==> (E_UNCHANGED && g_clone_n == 1 && g_clone_src == e && (__CPROVER_old(!V_ISNULL(e) && (V_LEVEL(e) > 0 || V_MAJOR(e) >= LITERAL)) ==> SLOTV->_value.p != e->_value.p)))
/* a temporary is moved: the variable takes its payload, the temporary is left null */
PROP(C05, C08) __CPROVER_ensures((OK && !__CPROVER_old(V_LVALUE(e))) ==> (g_clone_n == 0 && SLOTV->_value.i == __CPROVER_old(e->_value.i) && e->_flags == 0))
;

#include FNS_C
