/* generic contract of one precedence level of the expression parser, ParseExpression::<level>()  (term, sum, bitshift,
 * bitlogic, relation, logic) (C01): whatever the tokens and whatever the types of the operands, the level returns an
 * expression tree or throws a ParseError -- nothing else escapes --, and on every way out each operand it obtained from
 * the level below is destroyed AT MOST ONCE (no double delete on the error paths: the left operand is checked with
 * deleteOnFailure == false because the handler of the level deletes it).
 * Instantiated by -DPARSE_FN=<mangled> -DSUB_FN=<mangled of the level below>.  The level below, the parser and the
 * compiled type of an operand are stubs (operands are heap objects so that a second delete is detected); the token loop
 * is bounded by the stub of Parser::pop (at most POP_MAX tokens): BOUNDED. */
int g_new_op_n;
#define G2C_NEW_HOOK(n) g_new_op_n++;
#define OWN_DELETE_STUB
#define HAVE_STD_STRING
#define CONTAINERS_MODEL
#define CONTAINERS_STRINGS_ONLY
#include "prelude.h"
#include "containers.h"
#include "parser_api.h"
const char *_ZN4bloc8Operator6OPVALSE[32];   /* operator spellings: compared with the token text, whose spelling is not modelled -- any answer */
_Bool _ZSteqIcSt11char_traitsIcESaIcEEbRKNSt7__cxx1112basic_stringIT_T0_T1_EEPKS5_(const struct std_string *a, const char *p) { (void)a; (void)p; return __g2c_nondet_bool(); }
int g_sub_n, g_sub_throws_at, g_delete_n;
/* Expression * ParseExpression::<level below>(): a new operand node, or a ParseError */
struct Expression *SUB_FN(struct ParseExpression *this)
{
  (void)this; __CPROVER_assume(g_sub_n < 4);   /* BOUND */
  if (g_sub_n == g_sub_throws_at) { g_sub_n++; __cxa_throw(g_parse_error_obj, G2C_EXC_ParseError, 0); return 0; }
  g_sub_n++; return __CPROVER_allocate(sizeof(struct Expression), 0);
}
/* delete e (virtual destructor): the object must be alive -- a second delete of the same node is undefined behaviour */
void VCALL_Expression_1(struct Expression *e)
{ __CPROVER_assert(__CPROVER_r_ok(e, 1), "delete of an expression node that is alive (no double delete)"); g_delete_n++; __CPROVER_deallocate(e); }
/* const Type& Expression::type(Context&) of an operand: any type at all; typeName / unparse only word messages */
struct Type g_any_type[8]; int g_anytype_n;
const struct Type *VCALL_Expression_type(struct Expression *e, struct Context *ctx)
{ (void)ctx; __CPROVER_assert(__CPROVER_r_ok(e, 1), "type() of a live expression node"); __CPROVER_assume(g_anytype_n < 8); struct Type *t = &g_any_type[g_anytype_n++]; t->_major = __g2c_nondet_int() & 15; __CPROVER_assume(t->_major <= IMAGINARY); t->_level = __g2c_nondet_int() & 3; t->_minor = 0; return t; }
struct std_string _ZNK4bloc4Type8typeNameB5cxx11Ev(const struct Type *t) { struct std_string s; (void)t; SZ(&s) = __g2c_nondet_ulong(); return s; }
struct std_string VCALL_Expression_unparse(const struct Expression *e, struct Context *ctx) { struct std_string s; (void)e; (void)ctx; SZ(&s) = __g2c_nondet_ulong(); return s; }
struct std_string VCALL_Expression_typeName(const struct Expression *e, struct Context *ctx) { struct std_string s; (void)e; (void)ctx; SZ(&s) = __g2c_nondet_ulong(); return s; }
void _ZN4bloc6Parser4pushERKSt10shared_ptrINS_5TokenEE(struct Parser *p, const struct TokenPtr *t) { (void)p; (void)t; }
void _ZNSt10shared_ptrIN4bloc5TokenEEC1Ev(struct TokenPtr *this) { TOK_OF(this) = 0; }

struct Expression *PARSE_FN(struct ParseExpression *this)
__CPROVER_requires(IS_FRESH(this, sizeof(*this)))
__CPROVER_requires(INPUT_STATE(g_sub_throws_at, g_tok[0].code, g_tok[1].code, g_tok[2].code, g_tok[3].code, g_tok[4].code, g_tok[5].code))
__CPROVER_requires(__exc == 0 && __caught_n == 0 && g_sub_n == 0 && g_delete_n == 0 && g_pop_n == 0 && g_anytype_n == 0 && g_new_op_n == 0 && GLOBALS_PINNED)
__CPROVER_assigns()
PROP(C01) __CPROVER_ensures(OK || (__exc == 1 && __exc_type == G2C_EXC_ParseError))
PROP(C01) __CPROVER_ensures(OK ==> (RET != 0 && g_sub_n >= 1))
/* nothing obtained is destroyed more often than it was obtained (the per-node check is the assertion of the delete stub) */
PROP(C01) __CPROVER_ensures(g_delete_n <= g_sub_n + g_new_op_n)
;

#include FNS_C
