/* contracts of bloc::Context::saveReturned, bloc::RETURNStatement::doit and bloc::Context::unstackControl
 * (C08 return-value hand-over, C17 / C05 ownership, C06 / C07 loop records).
 *  saveReturned: a value returned earlier and not collected is destroyed exactly once; the new holder is a CLONE of an
 *    owned value (which comes out untouched) or takes the payload of a temporary (left null); the holder itself is a
 *    temporary the receiver may consume.
 *  RETURN: the expression is evaluated once and saved, then the return condition is raised; a bare RETURN saves nothing.
 *  unstackControl: the loop on top of the control stack is finalised exactly once, with its own record, and then popped. */
int g_del_n; void *g_del_obj; void *g_prev;
#define G2C_DELETE_HOOK(p) if ((p) != 0) { g_del_n++; g_del_obj = (void *)(p); }
#include "prelude.h"
int g_clone_n, g_clear_n; _Bool g_prev_notnull; const struct Value *g_clone_src; const void *g_clear_obj;
void _ZN4bloc5Value6_clearEv(struct Value *this) { g_clear_n++; g_clear_obj = this; this->_flags &= ~F_NOTNULL; }
struct Value _ZNK4bloc5Value5cloneEv(struct Value *this)
{ struct Value c; g_clone_n++; g_clone_src = this; c._flags = this->_flags & F_NOTNULL; c._type._major = this->_type._major; c._type._minor = this->_type._minor; c._type._level = this->_type._level; c._value.i = this->_value.i ^ 0x5555; return c; }
#define R (this->_returned)
#define V_UNCHANGED(v) ((v)->_flags == __CPROVER_old((v)->_flags) && (v)->_value.i == __CPROVER_old((v)->_value.i) && V_MAJOR(v) == __CPROVER_old(V_MAJOR(v)) && V_LEVEL(v) == __CPROVER_old(V_LEVEL(v)) && V_MINOR(v) == __CPROVER_old(V_MINOR(v)))

#ifdef JOB_SAVE
void _ZN4bloc7Context12saveReturnedERNS_5ValueE(struct Context *this, struct Value *ret)
__CPROVER_requires(IS_FRESH(this, sizeof(*this)) && IS_FRESH(ret, sizeof(*ret)) && VALID_TAG(ret))
__CPROVER_requires(INPUT_STATE(g_prev_notnull))
__CPROVER_requires(this->_returned != 0 ==> IS_FRESH(this->_returned, sizeof(struct Value)))
__CPROVER_requires(this->_returned != 0 ==> VALID_TAG(this->_returned))
__CPROVER_requires(this->_returned != 0 ==> g_prev_notnull == !V_ISNULL(this->_returned))
__CPROVER_requires(SET_EQ(g_prev, this->_returned) && __exc == 0 && __caught_n == 0 && g_del_n == 0 && g_clone_n == 0 && g_clear_n == 0 && GLOBALS_PINNED)
__CPROVER_assigns(__CPROVER_object_whole(this), __CPROVER_object_whole(ret))
PROP(C01, C08) __CPROVER_ensures(OK)
/* a value returned earlier and never collected is destroyed exactly once (payload first, when it has one) */
PROP(C17) __CPROVER_ensures(g_prev != 0 ==> (g_del_n == 1 && g_del_obj == g_prev && g_clear_n == (g_prev_notnull ? 1 : 0)))
PROP(C17) __CPROVER_ensures(g_prev == 0 ==> (g_del_n == 0 && g_clear_n == 0))
/* the new holder is a new object with the value's type and nullness, a temporary for whoever collects it */
PROP(C08) __CPROVER_ensures(R != 0 && (void *)R != g_prev && R != ret && V_MAJOR(R) == __CPROVER_old(V_MAJOR(ret)) && V_LEVEL(R) == __CPROVER_old(V_LEVEL(ret)) && V_MINOR(R) == __CPROVER_old(V_MINOR(ret)) && V_ISNULL(R) == __CPROVER_old(V_ISNULL(ret)) && !V_LVALUE(R))
/* an owned value is cloned and comes out untouched; a temporary gives its payload away and is left null */
PROP(C05, C08, C15) __CPROVER_ensures(__CPROVER_old(V_LVALUE(ret)) ==> (g_clone_n == 1 && g_clone_src == ret && V_UNCHANGED(ret) && R->_value.i == (__CPROVER_old(ret->_value.i) ^ 0x5555)))
PROP(C05, C08, C17) __CPROVER_ensures(!__CPROVER_old(V_LVALUE(ret)) ==> (g_clone_n == 0 && R->_value.i == __CPROVER_old(ret->_value.i) && V_ISNULL(ret)))
;
#endif
#ifdef JOB_RETURN
int g_save_n; const void *g_save_arg, *g_save_ctx;
void _ZN4bloc7Context12saveReturnedERNS_5ValueE(struct Context *this, struct Value *ret) { g_save_n++; g_save_arg = ret; g_save_ctx = this; }
const struct Statement *_ZNK4bloc15RETURNStatement4doitERNS_7ContextE(struct RETURNStatement *this, struct Context *ctx)
__CPROVER_requires(IS_FRESH(this, sizeof(*this)) && IS_FRESH(ctx, sizeof(*ctx)) && IS_FRESH(ctx->_root, sizeof(struct Context)))
__CPROVER_requires(this->_exp != 0 ==> IS_FRESH(this->_exp, sizeof(struct Expression)))
__CPROVER_requires(__exc == 0 && __caught_n == 0 && g_eval_n == 0 && g_save_n == 0 && GLOBALS_PINNED)
EVAL_ASSIGNS
PROP(C01, C07) __CPROVER_ensures(ONLY_RUNTIME_ERROR)
/* with an expression: evaluated once, its value saved once in this context; an error saves nothing and raises no condition */
PROP(C08) __CPROVER_ensures(this->_exp != 0 ==> (g_eval_n <= 1 && (g_eval_n == 1 ==> (g_eval_node[0] == this->_exp && g_save_n == 1 && g_save_arg == (const void *)g_eval_ret[0] && g_save_ctx == (const void *)ctx))))
PROP(C08) __CPROVER_ensures(this->_exp == 0 ==> (g_eval_n == 0 && g_save_n == 0))
PROP(C07, C08) __CPROVER_ensures(!OK ==> (g_save_n == 0 && ctx->_returnCondition == __CPROVER_old(ctx->_returnCondition)))
/* then the return condition is raised and the next statement handed back */
PROP(C08) __CPROVER_ensures(OK ==> (RET == this->_base_Statement._next && ctx->_returnCondition))
;
#endif

#include FNS_C
