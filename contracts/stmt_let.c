/* contract of bloc::LETStatement::doit (C05, C09, C17, C02): assignment.
 *  - an ordinary variable: the assignment is VariableExpression::store, once (copy semantics: ctx_store.c);
 *  - a FORALL iterator (the variable holds a pointer to a table element): the ELEMENT is updated in place.  The table
 *    stays uniform (a value of another type is a TYPE_MISMATCH that changes nothing), a read-only iterator refuses
 *    (CONST_VIOLATION, the expression is not even evaluated); a temporary is moved in, an owned value is cloned and
 *    comes out untouched; either way the element is owned storage afterwards (it is the table's, not a temporary that
 *    a later read may consume), and assigning an element to itself changes nothing. */
#define HAVE_STD_STRING
#define CONTAINERS_MODEL
#define CONTAINERS_STRINGS_ONLY
#include "prelude.h"
#include "containers.h"
struct Context__MemorySlot g_slot; struct Symbol g_sym; unsigned g_id; struct Value g_elem;
int g_store_n, g_clone_n; const void *g_store_exp, *g_store_ctx1, *g_store_ctx2; const struct Value *g_clone_src;
struct Symbol *_ZN4bloc7Context9getSymbolEj(struct Context *this, unsigned id) { (void)this; __CPROVER_assert(id == g_id, "getSymbol: the assigned variable"); return &g_sym; }
struct Context__MemorySlot *_ZNSt6vectorIN4bloc7Context10MemorySlotESaIS2_EEixEm(void *this, unsigned long n) { (void)this; __CPROVER_assert(n == g_id, "the slot of the assigned variable"); return &g_slot; }
/* Value& VariableExpression::store(Context& ctx, Context& from, Expression* exp) const: evaluates exp in `from` and binds it (Context::storeVariable) */
struct Value *_ZNK4bloc18VariableExpression5storeERNS_7ContextES2_PNS_10ExpressionE(const struct VariableExpression *this, struct Context *ctx, struct Context *from, struct Expression *e)
{ (void)this; g_store_n++; g_store_ctx1 = ctx; g_store_ctx2 = from; g_store_exp = e; if (__g2c_nondet_bool()) { __cxa_throw(__CPROVER_allocate(sizeof(struct RuntimeError), 0), G2C_EXC_RuntimeError, 0); return 0; } return &g_slot.value; }
/* Value Value::clone() const (value_clone.c) */
struct Value _ZNK4bloc5Value5cloneEv(struct Value *this)
{ struct Value c; g_clone_n++; g_clone_src = this; c._flags = this->_flags & F_NOTNULL; c._type._major = this->_type._major; c._type._minor = this->_type._minor; c._type._level = this->_type._level; c._value.i = this->_value.i ^ 0x5555; return c; }

#define NEXT (this->_base_Statement._next)
#define VAL A1
#define ITER (&g_slot.value)
#define IS_ITER (V_MAJOR(ITER) == POINTER)
#define ELEM_UNCHANGED (g_elem._flags == __CPROVER_old(g_elem._flags) && g_elem._value.i == __CPROVER_old(g_elem._value.i) && V_MAJOR(&g_elem) == __CPROVER_old(V_MAJOR(&g_elem)) && V_LEVEL(&g_elem) == __CPROVER_old(V_LEVEL(&g_elem)) && V_MINOR(&g_elem) == __CPROVER_old(V_MINOR(&g_elem)))
/* the value has the type the element had (VAL is the snapshot taken at the evaluation; the element is read in the pre-state) */
#define VAL_HAS_ELEM_TYPE (V_MAJOR(VAL) == __CPROVER_old(V_MAJOR(&g_elem)) && V_MINOR(VAL) == __CPROVER_old(V_MINOR(&g_elem)) && V_LEVEL(VAL) == __CPROVER_old(V_LEVEL(&g_elem)))
#define ELEM_TYPE_KEPT (V_MAJOR(&g_elem) == __CPROVER_old(V_MAJOR(&g_elem)) && V_LEVEL(&g_elem) == __CPROVER_old(V_LEVEL(&g_elem)) && V_MINOR(&g_elem) == __CPROVER_old(V_MINOR(&g_elem)))
const struct Statement *_ZNK4bloc12LETStatement4doitERNS_7ContextE(struct LETStatement *this, struct Context *ctx)
__CPROVER_requires(IS_FRESH(this, sizeof(*this)) && IS_FRESH(ctx, sizeof(*ctx)) && IS_FRESH(this->_exp, sizeof(struct Expression)))
__CPROVER_requires(INPUT_STATE(g_id, VALUE_FIELDS(&g_slot.value), VALUE_FIELDS(&g_elem), g_sym._locked, g_sym._safety))
__CPROVER_requires(this->_var._id == g_id && VALID_TAG(ITER) && VALID_TAG(&g_elem) && V_MAJOR(&g_elem) != POINTER && *(unsigned char *)&g_sym._locked <= 1 && *(unsigned char *)&g_sym._safety <= 1)
/* a running iterator is a non-null scalar pointer to an element of the table; elements are owned storage */
__CPROVER_requires(IS_ITER ==> (V_LEVEL(ITER) == 0 && !V_ISNULL(ITER) && V_LVALUE(&g_elem)))
__CPROVER_requires(IS_ITER ==> SET_EQ(g_slot.value._value.p, &g_elem))
__CPROVER_requires(__exc == 0 && g_eval_n == 0 && __caught_n == 0 && g_store_n == 0 && g_clone_n == 0 && GLOBALS_PINNED)
EVAL_ASSIGNS
ENS_ONLY_RT
/* ---- ordinary variable ---- */
PROP(C05) __CPROVER_ensures(!__CPROVER_old(IS_ITER) ==> (g_store_n == 1 && g_store_exp == (const void *)this->_exp && g_store_ctx1 == (const void *)ctx && g_store_ctx2 == (const void *)ctx && g_eval_n == 0 && ELEM_UNCHANGED && (OK ==> RET == NEXT)))
/* ---- iterator ---- */
PROP(C05) __CPROVER_ensures(__CPROVER_old(IS_ITER) ==> (g_store_n == 0 && g_eval_n <= 1 && (g_eval_n == 1 ==> g_eval_node[0] == this->_exp)))
/* a read-only iterator: refused before anything is evaluated */
PROP(C05, C09) __CPROVER_ensures((__CPROVER_old(IS_ITER) && g_sym._locked) ==> (THROWN_RT(EXC_RT_CONST_VIOLATION_S) && g_eval_n == 0 && ELEM_UNCHANGED))
/* the table stays uniform: another type is refused and changes nothing */
PROP(C09, C02) __CPROVER_ensures((__CPROVER_old(IS_ITER) && g_eval_n == 1 && !VAL_HAS_ELEM_TYPE) ==> (THROWN_RT(EXC_RT_TYPE_MISMATCH_S) && ELEM_UNCHANGED))
PROP(C09, C02) __CPROVER_ensures(__CPROVER_old(IS_ITER) ==> ELEM_TYPE_KEPT)
PROP(C05, C09) __CPROVER_ensures(!OK ==> ELEM_UNCHANGED)
/* accepted: the element takes the value and is the table's own storage; the iterator still points to it */
PROP(C05, C09, C17) __CPROVER_ensures((__CPROVER_old(IS_ITER) && !g_sym._locked && g_eval_n == 1 && VAL_HAS_ELEM_TYPE) ==> (OK && RET == NEXT && V_LVALUE(&g_elem) && ITER->_value.p == (void *)&g_elem && IS_ITER))
/* a temporary is moved in (its payload becomes the element's, it is left null); an owned value is cloned and comes out untouched */
PROP(C05, C17) __CPROVER_ensures((OK && __CPROVER_old(IS_ITER) && g_eval_n == 1 && !V_LVALUE(VAL)) ==> (g_clone_n == 0 && g_elem._value.i == VAL->_value.i && V_ISNULL(&g_elem) == V_ISNULL(VAL) && V_ISNULL(O1) && !V_LVALUE(O1)))
PROP(C05, C17) __CPROVER_ensures((OK && __CPROVER_old(IS_ITER) && g_eval_n == 1 && V_LVALUE(VAL) && O1 != &g_elem) ==> (g_clone_n == 1 && g_clone_src == O1 && g_elem._value.i == (VAL->_value.i ^ 0x5555) && V_ISNULL(&g_elem) == V_ISNULL(VAL)))
ENS_FRAME1
;

#include FNS_C
