/* contract of bloc::MemberSETExpression::value  --  tuple.set@N(item) (C01, C05, C09): a tuple keeps its structure.
 * The item at the (constant) position is replaced; its type stays the declared one: the same type is stored as it is,
 * integer <-> decimal convert, an untyped null becomes a null of the declared type, anything else is a type mismatch
 * that changes nothing; a position beyond the tuple, a null receiver, a receiver that is no tuple are errors.  The
 * argument comes out unchanged when it is owned storage.
 * Model: the tuple's items are std::vector<Value> in the abstract container model (one ghost item g_tab_elem standing
 * for the item at the position), its declaration a ghost length and the declared type of that position. */
#define PAYLOAD_LITERAL
#define PAYLOAD_TUPLE
#define HAVE_STD_STRING
#define CONTAINERS_MODEL
/* tuple invariant (Tuple::Tuple): as many items as declared types */
extern unsigned long g_decl_len;
#define RECEIVER_TUPLE_INV(t) (((unsigned long *)&(t)->v)[1] == g_decl_len)
#include "prelude.h"
#include "containers.h"
struct TupleDecl__Decl g_decl; unsigned long g_decl_len; struct Type g_decl_item; unsigned long g_decl_idx;
const struct TupleDecl__Decl *VCALL_Tuple_tuple_decl(const struct Tuple *t) { (void)t; return &g_decl; }
unsigned long _ZNKSt6vectorIN4bloc4TypeESaIS1_EE4sizeEv(const void *this) { (void)this; return g_decl_len; }
const struct Type *_ZNKSt6vectorIN4bloc4TypeESaIS1_EEixEm(const void *this, unsigned long n)
{ (void)this; __CPROVER_assert(n < g_decl_len, "std::vector<Type>::operator[]: index within size() (undefined behaviour otherwise)"); g_decl_idx = n; return &g_decl_item; }
/* std::string std::to_string(unsigned) : only used to word an error */
struct std_string _ZNSt7__cxx119to_stringEj(unsigned v) { struct std_string s; (void)v; SZ(&s) = __g2c_nondet_ulong(); return s; }
struct std_string _ZNK4bloc4Type8typeNameB5cxx11Ev(const struct Type *t) { struct std_string s; (void)t; SZ(&s) = __g2c_nondet_ulong(); return s; }

#define RCV A1
#define ARG A2
#define IDX (this->_index)
#define IS_TUPLE(v) (V_IS(v, ROWTYPE) && !V_ISNULL(v))
#define ITEM (&g_tab_elem)
#define ITEM_UNCHANGED (g_tab_elem._flags == __CPROVER_old(g_tab_elem._flags) && g_tab_elem._value.i == __CPROVER_old(g_tab_elem._value.i) && V_MAJOR(ITEM) == __CPROVER_old(V_MAJOR(ITEM)) && V_LEVEL(ITEM) == __CPROVER_old(V_LEVEL(ITEM)))
#define ITEM_AS_DECLARED (V_MAJOR(ITEM) == g_decl_item._major && V_LEVEL(ITEM) == g_decl_item._level && V_MINOR(ITEM) == g_decl_item._minor)
#define SAME_AS_DECL(v) (V_MAJOR(v) == g_decl_item._major && V_LEVEL(v) == g_decl_item._level && V_MINOR(v) == g_decl_item._minor)
struct Value *_ZNK4bloc19MemberSETExpression5valueERNS_7ContextE(struct MemberSETExpression *this, struct Context *ctx)
__CPROVER_requires(IS_FRESH(this, sizeof(*this)) && IS_FRESH(ctx, sizeof(*ctx)) && IS_FRESH(this->_base_MemberExpression._exp, sizeof(struct Expression)))
__CPROVER_requires(INPUT_STATE(g_nargs, VALUE_FIELDS(&g_tab_elem), g_decl_len, g_decl_item._major, g_decl_item._minor, g_decl_item._level))
/* node invariant: the only constructor passes BTM_SET to MemberExpression */
__CPROVER_requires(this->_base_MemberExpression._builtin == 7)   /* BTM_SET */
__CPROVER_requires(g_nargs == 1 && ARGS_PINNED && __exc == 0 && g_eval_n == 0 && __caught_n == 0 && GLOBALS_PINNED)
/* tuple invariant (Tuple::Tuple): as many items as declared types, each item of its declared type; items are scalars, never pointers */
__CPROVER_requires(VALID_TAG(ITEM) && ITEM_AS_DECLARED && g_decl_item._level == 0 && g_decl_item._major <= IMAGINARY && g_decl_item._major != POINTER && g_decl_item._major != NO_TYPE && g_decl_item._major != ROWTYPE && g_decl_len <= 0xfffffffful)
EVAL_ASSIGNS
ENS_ONLY_RT
/* receiver first; a null receiver is an index error before the argument is looked at */
PROP(C09) __CPROVER_ensures((g_eval_n >= 1 && V_ISNULL(RCV)) ==> (THROWN_RT(EXC_RT_INDEX_RANGE_S) && g_eval_n == 1 && ITEM_UNCHANGED))
/* a position beyond the tuple is an index error and changes nothing */
PROP(C09) __CPROVER_ensures((g_eval_n == 2 && IS_TUPLE(RCV) && V_LEVEL(ARG) == 0 && (unsigned long)IDX >= g_decl_len) ==> (THROWN_RT(EXC_RT_INDEX_RANGE_S) && ITEM_UNCHANGED))
/* whatever happens the item keeps its declared type: the tuple keeps its structure */
PROP(C09, C02) __CPROVER_ensures(g_eval_n >= 1 ==> (ITEM_AS_DECLARED && VALID_TAG(ITEM)))
/* accepted: same type, integer <-> decimal, or an untyped null; the receiver is returned */
PROP(C09) __CPROVER_ensures((g_eval_n == 2 && IS_TUPLE(RCV) && V_LEVEL(ARG) == 0 && (unsigned long)IDX < g_decl_len && SAME_AS_DECL(ARG)) ==> (OK && RET == O1 && V_ISNULL(ITEM) == V_ISNULL(ARG)))
PROP(C09) __CPROVER_ensures((g_eval_n == 2 && IS_TUPLE(RCV) && (unsigned long)IDX < g_decl_len && V_IS(ARG, NO_TYPE)) ==> (OK && RET == O1 && V_ISNULL(ITEM)))
/* a null of the other numeric type is a null item (never a crash) */
PROP(C09, C01) __CPROVER_ensures((g_eval_n == 2 && IS_TUPLE(RCV) && (unsigned long)IDX < g_decl_len && V_ISNULL(ARG) && ((g_decl_item._major == INTEGER && V_IS(ARG, NUMERIC)) || (g_decl_item._major == NUMERIC && V_IS(ARG, INTEGER)))) ==> (OK && V_ISNULL(ITEM)))
/* a decimal for an integer item converts when it is in range, and is OUT_OF_RANGE otherwise */
PROP(C09, C03) __CPROVER_ensures((g_eval_n == 2 && IS_TUPLE(RCV) && (unsigned long)IDX < g_decl_len && g_decl_item._major == INTEGER && V_IS(ARG, NUMERIC) && !V_ISNULL(ARG) && !(V_D(ARG) >= -9223372036854775808.0 && V_D(ARG) < 9223372036854775808.0)) ==> (THROWN_RT(EXC_RT_OUT_OF_RANGE) && ITEM_UNCHANGED))
PROP(C09, C03) __CPROVER_ensures((g_eval_n == 2 && IS_TUPLE(RCV) && (unsigned long)IDX < g_decl_len && g_decl_item._major == INTEGER && V_IS(ARG, NUMERIC) && !V_ISNULL(ARG) && V_D(ARG) >= -9223372036854775808.0 && V_D(ARG) < 9223372036854775808.0) ==> (OK && !V_ISNULL(ITEM) && V_I(ITEM) == (long)V_D(ARG)))
/* every refusal leaves the item alone */
PROP(C09) __CPROVER_ensures(!OK ==> ITEM_UNCHANGED)
/* a receiver that is no tuple, or a table argument: not a set@ */
PROP(C09) __CPROVER_ensures((g_eval_n == 2 && !V_ISNULL(RCV) && (!V_IS(RCV, ROWTYPE) || V_LEVEL(ARG) > 0)) ==> THROWN_RT(EXC_RT_MEMB_NOT_IMPL_S))
ENS_FRAME2
;

#include FNS_C
