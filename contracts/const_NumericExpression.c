/* contracts of the constant node bloc::NumericExpression: constructor and value()
 * A constant in the program text is storage owned by the program: it must carry LVALUE, otherwise the
 * first operator that receives it as an operand recycles it as its result and the constant changes. */
#include "prelude.h"
#define CONST_NODE_INV(v) (V_LVALUE(v) && VALID_TAG(v))

/* NumericExpression(Value&& _v) : the literal parsed from the source text is moved into the node */
void _ZN4bloc17NumericExpressionC2EONS_5ValueE(struct NumericExpression *this, struct Value *_v)
__CPROVER_requires(IS_FRESH(this, sizeof(*this)) && IS_FRESH(_v, sizeof(*_v)) && VALID_TAG(_v) && !V_LVALUE(_v) && __exc == 0 && GLOBALS_PINNED)
__CPROVER_assigns(__CPROVER_object_whole(this), VALUE_FIELDS(_v), __exc, __exc_type, __exc_obj)
PROP(C01) __CPROVER_ensures(__exc == 0)
PROP(C04, C05) __CPROVER_ensures(CONST_NODE_INV(&this->v))
PROP(C02) __CPROVER_ensures(V_MAJOR(&this->v) == __CPROVER_old(V_MAJOR(_v)) && V_LEVEL(&this->v) == __CPROVER_old(V_LEVEL(_v)) && this->v._value.i == __CPROVER_old(_v->_value.i) &&
                            V_ISNULL(&this->v) == __CPROVER_old(V_ISNULL(_v)))
PROP(C05) __CPROVER_ensures(_v->_flags == 0)
;

struct Value *_ZNK4bloc17NumericExpression5valueERNS_7ContextE(struct NumericExpression *this, struct Context *ctx)
__CPROVER_requires(IS_FRESH(this, sizeof(*this)) && __exc == 0 && GLOBALS_PINNED)   /* ctx is not used */
__CPROVER_requires(CONST_NODE_INV(&this->v))
__CPROVER_assigns()
PROP(C01) __CPROVER_ensures(__exc == 0)
/* IC-own: the node hands out its own storage, marked as owned (LVALUE), and leaves it unchanged */
PROP(C04, C05) __CPROVER_ensures(RET == &this->v && V_LVALUE(RET))
PROP(C05) __CPROVER_ensures(this->v._flags == __CPROVER_old(this->v._flags) && this->v._value.i == __CPROVER_old(this->v._value.i) && this->v._type._major == __CPROVER_old(this->v._type._major) && this->v._type._level == __CPROVER_old(this->v._type._level))
PROP(C02) __CPROVER_ensures(VALID_TAG(RET))
;

#include FNS_C
