/* contract of bloc::MemberCONCATExpression::value  --  receiver.concat(element) (C01, C05, C09).
 * DOMAIN: the appended operand is not a non-null table (appending the elements of a table to a table -- the element
 * loops of member_concat.cpp -- is outside this contract; stated as EVAL_EXTRA_CLAUSE, an ASSUMPTION on what the
 * second operand evaluates to).  concat modifies its receiver by design; the ARGUMENT must come out unchanged when it
 * is owned storage (a variable, a constant, a container element). */
#define PAYLOAD_LITERAL
#define PAYLOAD_TABCHAR
#define PAYLOAD_COLLECTION
#define PAYLOAD_TUPLE
#define HAVE_STD_STRING
#define CONTAINERS_MODEL
#define ITERATOR_MODEL
#define ELEM_INV(c) (VALID_TAG(&g_tab_elem) && V_MAJOR(&g_tab_elem) == (c)->_type._major && V_MINOR(&g_tab_elem) == (c)->_type._minor && \
                     V_LEVEL(&g_tab_elem) + 1 == (c)->_type._level)
#define RECEIVER_TABLE_INV(c) ELEM_INV(c)
#define EVAL_EXTRA_CLAUSE __CPROVER_ensures((__exc == 0 && __CPROVER_old(g_eval_n) == 1) ==> (V_LEVEL(__CPROVER_return_value) == 0 || V_ISNULL(__CPROVER_return_value)))
#define ISCONST_PINNED
#include "prelude.h"
#include "containers.h"
#include "ctx_api.h"

/* Type TupleDecl::Decl::make_type(TypeLevel) const: the tuple type of that declaration at that level */
struct Type _ZNK4bloc9TupleDecl4Decl9make_typeEh(const struct TupleDecl__Decl *this, unsigned char level)
{ struct Type t; (void)this; t._vptr_Type = 0; t._major = ROWTYPE; t._level = level;
  /* tuple invariant (Tuple::Tuple): the minor type of a tuple is the hash of its declaration -- the one declaration in play is the tuple argument's */
  t._minor = (g_eval_n >= 2 && V_MAJOR(&g_eval_snap[1]) == ROWTYPE) ? V_MINOR(&g_eval_snap[1]) : 0; return t; }
_Bool g_is_varname, g_is_const;
_Bool VCALL_Expression_isVarName(const struct Expression *e) { (void)e; return g_is_varname; }
unsigned VCALL_Expression_symbolId(const struct Expression *e) { (void)e; return g_symid; }
struct Context__MemorySlot g_slot;
struct Context__MemorySlot *_ZNSt6vectorIN4bloc7Context10MemorySlotESaIS2_EEixEm(void *this, unsigned long n) { (void)this; __CPROVER_assert(n == g_symid, "the slot of the receiver's variable"); return &g_slot; }
/* void Symbol::upgrade(const Type&) / upgrade(const Decl&, level): retypes the symbol (symbol.cpp) */
void _ZN4bloc6Symbol7upgradeERKNS_4TypeE(struct Symbol *this, const struct Type *t) { this->_base_Type._major = t->_major; this->_base_Type._minor = t->_minor; this->_base_Type._level = t->_level; }
void _ZN4bloc6Symbol7upgradeERKNS_9TupleDecl4DeclEh(struct Symbol *this, const void *d, unsigned char level) { (void)d; this->_base_Type._major = ROWTYPE; this->_base_Type._level = level; }
/* const TupleDecl::Decl& Tuple::tuple_decl() const (virtual) */
struct TupleDecl__Decl g_tuple_decl;
const struct TupleDecl__Decl *VCALL_Tuple_tuple_decl(const struct Tuple *t) { (void)t; return &g_tuple_decl; }
/* Value::Value(Collection*) : takes ownership of a new table */
void _ZN4bloc5ValueC1EPNS_10CollectionE(struct Value *this, struct Collection *c)
{ this->_type._major = c ? c->_type._major : 0; this->_type._minor = c ? c->_type._minor : 0; this->_type._level = c ? c->_type._level : 1; this->_flags = c ? F_NOTNULL : 0; this->_value.p = c; }
void _ZNSt6vectorIN4bloc4TypeESaIS1_EEC2ERKS3_(void *this, const void *o) { CW(this, 0) = CW(o, 0); }
void _ZNSt6vectorIN4bloc4TypeESaIS1_EEC2Ev(void *this) { CW(this, 0) = 0; }
void _ZNSt6vectorIN4bloc4TypeESaIS1_EED2Ev(void *this) { (void)this; }
void _ZNSt6vectorIN4bloc5ValueESaIS1_EED1Ev(struct vec_Value *this) { (void)this; }
#define RCV A1
#define ARG A2
#define COLL ((struct Collection *)O1->_value.p)
#define TAB_SIZE(c) SZ(&(c)->v)
#define IS_TABLE(v) (V_LEVEL(v) > 0 && !V_ISNULL(v))
struct Value *_ZNK4bloc22MemberCONCATExpression5valueERNS_7ContextE(struct MemberCONCATExpression *this, struct Context *ctx)
__CPROVER_requires(IS_FRESH(this, sizeof(*this)) && IS_FRESH(ctx, sizeof(*ctx)) && IS_FRESH(this->_base_MemberExpression._exp, sizeof(struct Expression)))
__CPROVER_requires(INPUT_STATE(g_isconst_answer))
__CPROVER_requires(INPUT_STATE(g_nargs, VALUE_FIELDS(&g_tab_elem), g_is_varname, g_is_const, g_symid))
/* node invariant: the only constructor passes BTM_CONCAT (= 1) to MemberExpression (member_concat.h) */
__CPROVER_requires(this->_base_MemberExpression._builtin == 1)
__CPROVER_requires(g_nargs == 1 && ARGS_PINNED && __exc == 0 && g_eval_n == 0 && __caught_n == 0 && GLOBALS_PINNED)
__CPROVER_requires(VALID_TAG(&g_tab_elem) && V_MAJOR(&g_tab_elem) != POINTER)
EVAL_ASSIGNS
ENS_ONLY_RT
/* receiver first, then the argument, each once */
PROP(C05) __CPROVER_ensures(g_eval_n <= 2 && (g_eval_n >= 1 ==> g_eval_node[0] == this->_base_MemberExpression._exp) && (g_eval_n == 2 ==> g_eval_node[1] == g_args[0]))
/* the argument is only read: owned storage comes out bit-for-bit and content-for-content as it went in */
ENS_FRAME2
/* a receiver that is a constant of the program (a string literal in the source) is only read: the result is a new
 * temporary and the constant keeps its content, whatever is appended */
PROP(C05, C09) __CPROVER_ensures((g_eval_n == 2 && g_isconst_answer && V_IS(RCV, LITERAL) && !V_ISNULL(RCV) && V_LVALUE(RCV)) ==> (V_SAME(O1, A1) && (FRAME_STR(O1, A1, 0))))
PROP(C05, C09) __CPROVER_ensures((OK && g_eval_n == 2 && g_isconst_answer && V_IS(RCV, LITERAL) && !V_ISNULL(RCV) && V_LVALUE(RCV)) ==> (RET != O1 && RET != O2 && V_IS(RET, LITERAL) && !V_LVALUE(RET)))
/* a non-null table receiver stays uniform and grows by at most one element */
PROP(C09) __CPROVER_ensures((g_eval_n == 2 && IS_TABLE(RCV)) ==> (ELEM_INV(COLL) && (TAB_SIZE(COLL) == g_eval_size[0] || (OK && TAB_SIZE(COLL) == g_eval_size[0] + 1))))
/* C02: the call is typed like its receiver, and a successful call returns a value of the receiver's (defined) type */
PROP(C02) __CPROVER_ensures((OK && g_eval_n >= 1 && V_MAJOR(A1) != NO_TYPE) ==> (V_MAJOR(RET) == V_MAJOR(A1) && V_LEVEL(RET) == V_LEVEL(A1) && (V_MINOR(RET) == V_MINOR(A1) || (V_MAJOR(A1) == ROWTYPE && (V_MINOR(A1) == 0 || (g_eval_n == 2 && V_MINOR(A2) == 0)) /* an opaque tuple declaration on either side */))))
/* C05 / C14: a receiver that is a constant of the program (a string literal in the source, shared by every run and every clone of the compiled
 * program) is only read -- whether or not the code asks isConst() */
PROP(C05, C14) __CPROVER_ensures((g_isconst_answer && g_eval_n >= 1 && V_IS(A1, LITERAL) && !V_ISNULL(A1)) ==> (V_SAME(O1, A1) && (FRAME_STR(O1, A1, 0))))
/* (a constant node hands out owned storage: proved by the const_* jobs, so V_LVALUE(A1) is part of what 'constant receiver' means) */
PROP(C05, C14) __CPROVER_ensures((OK && g_isconst_answer && g_eval_n >= 1 && V_IS(A1, LITERAL) && !V_ISNULL(A1) && V_LVALUE(A1)) ==> (RET != O1 && !V_LVALUE(RET)))   /* ... and never handed out as the receiver of a further in-place method */
;

#include FNS_C
