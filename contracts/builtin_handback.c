/* contract of bloc::BuiltinExpression::handback (expression_builtin.cpp) (C05): the way a builtin hands an argument back
 * as its result -- a copy (a temporary) when the argument is owned storage, which comes out untouched; the argument itself
 * when it is a temporary.  The stub used by the builtin contracts (builtin_generic.c) is this behaviour. */
#include "prelude.h"
struct Value *_ZN4bloc17BuiltinExpression8handbackERNS_7ContextERNS_5ValueE(struct Context *ctx, struct Value *val)
__CPROVER_requires(IS_FRESH(ctx, sizeof(*ctx)) && IS_FRESH(val, sizeof(*val)) && VALID_TAG(val) && __exc == 0 && __caught_n == 0 && GLOBALS_PINNED)
__CPROVER_assigns()
PROP(C01, C05) __CPROVER_ensures(OK && RET != 0)
PROP(C05) __CPROVER_ensures(__CPROVER_old(V_LVALUE(val)) ==> (RET != val && !V_LVALUE(RET) && V_MAJOR(RET) == V_MAJOR(val) && V_LEVEL(RET) == V_LEVEL(val) && V_MINOR(RET) == V_MINOR(val) && V_ISNULL(RET) == V_ISNULL(val) &&
                            val->_flags == __CPROVER_old(val->_flags) && val->_value.i == __CPROVER_old(val->_value.i)))
PROP(C05) __CPROVER_ensures(!__CPROVER_old(V_LVALUE(val)) ==> RET == val)
;

#include FNS_C
