/* prelude.h -- what every contract file includes, in the order the pieces depend on each other */
#include "rt.h"
#include "bloc_exc.h"
#include TYPES_H
/* library containers a translation unit does not instantiate have no mirror; the abstract model only needs their size
 * (libstdc++ ABI: std::vector 24 bytes, std::string 32 bytes) */
#ifndef G2C_HAVE_vec_char
struct vec_char { _Alignas(8) unsigned char __opaque[24]; };
#endif
#ifndef G2C_HAVE_std_string
struct std_string { _Alignas(8) unsigned char __opaque[32]; };
#endif
#include "vocab.h"
#include "bloc_globals.h"
#include "iface.h"
#include "value_api.h"
#include "evalnode.h"
#include "arith.h"
#include "libm_api.h"
#include "std_api.h"
