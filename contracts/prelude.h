/* prelude.h -- what every contract file includes, in the order the pieces depend on each other */
#include "rt.h"
#include "bloc_exc.h"
#include TYPES_H
#include "vocab.h"
#include "bloc_globals.h"
#include "iface.h"
#include "value_api.h"
#include "evalnode.h"
#include "arith.h"
#include "libm_api.h"
#include "std_api.h"
