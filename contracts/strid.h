/* strid.h -- content identity for the abstract std::string of contracts/containers.h (C07, C16).
 *
 * ASSUMED abstraction of string comparison: word[0] of a string object is the identity of its contents -- an
 * interning of strings into integers: two strings compare equal exactly when their identities are equal (copy
 * construction and assignment in containers.h carry word[0] along).  The identities 0..3 are reserved for the
 * spellings below; every other spelling has an identity >= STRID_FIRST_NAME.  A C string is identified by
 * comparing its bytes with the reserved spellings (loops over constant arrays, unwound completely). */
#ifndef STRID_H
#define STRID_H
#define STR_ID(s) CW((s), 0)
#define STRID_EMPTY 0ul
#define STRID_OUT_OF_RANGE 1ul
#define STRID_DIVIDE_BY_ZERO 2ul
#define STRID_OTHERS 3ul
#define STRID_FIRST_NAME 4ul
char g_whatbuf[256]; unsigned long g_what_id;   /* Error::what()'s static buffer and the identity of the text it holds */
extern unsigned long g_cstr_id;                  /* identity of the last std::string::c_str() result (containers.h) */

static _Bool __lit_eq(const char *p, const char *lit)
{
  for (int i = 0; i < 16; ++i)
  {
    if (p[i] != lit[i]) return 0;
    if (lit[i] == 0) return 1;
  }
  return 0;
}
static unsigned long __cstr_id(const char *p)
{
  if (__CPROVER_same_object(p, g_whatbuf)) return g_what_id;
  if (__CPROVER_same_object(p, g_cstr)) return g_cstr_id;
  if (__lit_eq(p, "")) return STRID_EMPTY;
  if (__lit_eq(p, "OUT_OF_RANGE")) return STRID_OUT_OF_RANGE;
  if (__lit_eq(p, "DIVIDE_BY_ZERO")) return STRID_DIVIDE_BY_ZERO;
  if (__lit_eq(p, "OTHERS")) return STRID_OTHERS;
  __CPROVER_assert(0, "strid model: C string outside the modelled vocabulary");
  return __g2c_nondet_ulong();
}
/* bool std::operator==(const std::string&, const char*) */
_Bool _ZSteqIcSt11char_traitsIcESaIcEEbRKNSt7__cxx1112basic_stringIT_T0_T1_EEPKS5_(const struct std_string *a, const char *p)
{
  LIVE((void *)a, 32, "std::operator==(string, const char*)");
  __CPROVER_assert(p != 0, "std::operator==(string, const char*): null C string");
  return STR_ID(a) == __cstr_id(p);
}
/* bool std::operator==(const std::string&, const std::string&) */
_Bool _ZSteqIcEN9__gnu_cxx11__enable_ifIXsrSt9__is_charIT_E7__valueEbE6__typeERKNSt7__cxx1112basic_stringIS3_St11char_traitsIS3_ESaIS3_EEESE_(const struct std_string *a, const struct std_string *b)
{
  LIVE((void *)a, 32, "std::operator==(string, string)"); LIVE((void *)b, 32, "std::operator==(string, string)");
  return STR_ID(a) == STR_ID(b);
}
/* const char * Error::what() const (virtual): formats into a static buffer; the model returns that buffer, its text has identity g_what_id */
struct Error;
const char *VCALL_Error_what(const struct Error *e) { (void)e; return g_whatbuf; }
#endif
