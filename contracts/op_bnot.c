/* contract of bloc::OpBNOTExpression::value  (operator NOT) */
#include "prelude.h"

struct Value *_ZNK4bloc16OpBNOTExpression5valueERNS_7ContextE(struct OpBNOTExpression *this, struct Context *ctx)
EVAL_PRE_UNOP
EVAL_ASSIGNS
ENS_ONLY_RT
ENS_EVAL_ONE
/* C04: Kleene NOT */
PROP(C04) __CPROVER_ensures((g_eval_n == 1 && IN_BOOL_DOMAIN(A1)) ==> (OK && V_IS(RET, BOOLEAN) && KLEENE(RET) == K_NOT(KLEENE(A1))))
PROP(C04) __CPROVER_ensures((g_eval_n == 1 && !IN_BOOL_DOMAIN(A1)) ==> THROWN_RT(EXC_RT_INV_EXPRESSION))
ENS_TYPE(BOOLEAN)
ENS_FRAME1
ENS_OWN1
;

#include FNS_C
