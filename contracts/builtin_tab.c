/* contract of bloc::TABExpression::value  --  tab(n, x) (C09, C17, C01): a table of n elements of the type of x, all
 * evaluations of x having that type (uniform, C09); x is evaluated once per element (once for n = 0); a negative or
 * non-integer count, an untyped x, a varying type are BLOC errors; a null count gives a null table of the type of x.
 * C17: whenever the call does not return the table -- the element expression fails on a later evaluation, or changes
 * its type -- the table built so far is destroyed exactly once, and with it the elements (and the module objects they
 * reference) it already holds; when it does return it, the table is not destroyed.
 * The count is bounded (n <= 2, loop unwound) and the table is the abstract container: BOUNDED. */
#define PAYLOAD_LITERAL
#define PAYLOAD_COLLECTION
#define PAYLOAD_TUPLE
#define HAVE_STD_STRING
#define CONTAINERS_MODEL
#define ITERATOR_MODEL
int g_coll_new_n, g_coll_del_n; void *g_coll_obj;
#define G2C_NEW_HOOK(n) if ((n) == 80ul) { g_coll_new_n++; }
#define G2C_DELETE_HOOK(p) if ((p) != 0 && (void *)(p) == g_coll_obj) g_coll_del_n++;
/* the count is at most 2 (BOUND) */
#define EVAL_EXTRA_CLAUSE __CPROVER_ensures((__exc == 0 && __CPROVER_old(g_eval_n) == 0 && V_IS(__CPROVER_return_value, INTEGER) && !V_ISNULL(__CPROVER_return_value)) ==> __CPROVER_return_value->_value.i <= 2) \
  /* type invariant: a dimension of TYPE_LEVEL_MAX (255) does not exist -- tab() itself refuses to build one */ \
  __CPROVER_ensures(__exc == 0 ==> V_LEVEL(__CPROVER_return_value) <= 254)
#include "prelude.h"
#include "containers.h"
_Static_assert(sizeof(struct Collection) == 80, "G2C_NEW_HOOK counts allocations of the size of a Collection");
/* Collection(const Type&) / Collection(const Decl&, level) / ~Collection: the table object is remembered */
void _ZN4bloc10CollectionC1ERKNS_4TypeE(struct Collection *this, const struct Type *t) { g_coll_obj = this; SZ(&this->v) = 0; this->_type._major = t->_major; this->_type._minor = t->_minor; this->_type._level = t->_level; }
void _ZN4bloc10CollectionC1ERKNS_9TupleDecl4DeclEh(struct Collection *this, const void *d, unsigned char level) { (void)d; g_coll_obj = this; SZ(&this->v) = 0; this->_type._major = ROWTYPE; this->_type._level = level;
  /* tuple invariant: the minor type is the hash of the declaration -- the declaration in play is that of the element just evaluated */
  this->_type._minor = (g_eval_n >= 1) ? g_eval_snap[g_eval_n - 1]._type._minor : 0; }
/* delete tab: the virtual (deleting) destructor -- the table, its elements and what they reference go */
void VCALL_Collection__Collection(struct Collection *c) { __CPROVER_assert(__CPROVER_r_ok(c, 1), "delete of a table that is alive"); if ((void *)c == g_coll_obj) g_coll_del_n++; __CPROVER_deallocate(c); }
void _ZN4bloc10CollectionD1Ev(struct Collection *c) { (void)c; }
void _ZN4bloc10CollectionD2Ev(struct Collection *c) { (void)c; }
void _ZNSt6vectorIN4bloc5ValueESaIS1_EE7reserveEm(struct vec_Value *this, unsigned long n) { (void)this; (void)n; }
struct TupleDecl__Decl g_tuple_decl;
const struct TupleDecl__Decl *VCALL_Tuple_tuple_decl(const struct Tuple *t) { (void)t; return &g_tuple_decl; }
void _ZN4bloc5ValueC1EPNS_10CollectionE(struct Value *this, struct Collection *c)
{ this->_type._major = c ? c->_type._major : 0; this->_type._minor = c ? c->_type._minor : 0; this->_type._level = c ? c->_type._level : 1; this->_flags = c ? F_NOTNULL : 0; this->_value.p = c; }

#define CNT A1
struct Value *_ZNK4bloc13TABExpression5valueERNS_7ContextE(struct TABExpression *this, struct Context *ctx)
__CPROVER_requires(IS_FRESH(this, sizeof(*this)) && IS_FRESH(ctx, sizeof(*ctx)))
__CPROVER_requires(INPUT_STATE(g_nargs))
__CPROVER_requires(this->_base_BuiltinExpression.oper >= 0 && this->_base_BuiltinExpression.oper < 128)
__CPROVER_requires(g_nargs == 2 && ARGS_PINNED && __exc == 0 && g_eval_n == 0 && __caught_n == 0 && g_coll_new_n == 0 && g_coll_del_n == 0 && g_coll_obj == 0 && GLOBALS_PINNED)
EVAL_ASSIGNS
ENS_ONLY_RT
/* the count first, then the element expression: once per element, once for an empty table or a null count */
PROP(C05) __CPROVER_ensures(g_eval_n <= 3 && (g_eval_n >= 1 ==> g_eval_node[0] == g_args[0]) && (g_eval_n >= 2 ==> g_eval_node[1] == g_args[1]) && (g_eval_n >= 3 ==> g_eval_node[2] == g_args[1]))
PROP(C09) __CPROVER_ensures((OK && g_eval_n >= 1 && V_IS(CNT, INTEGER) && !V_ISNULL(CNT)) ==> g_eval_n == 1 + (V_I(CNT) == 0 ? 1 : (int)V_I(CNT)))
/* a negative count is an index error; nothing is built */
PROP(C09) __CPROVER_ensures((g_eval_n >= 1 && V_IS(CNT, INTEGER) && !V_ISNULL(CNT) && V_I(CNT) < 0) ==> (THROWN_RT(EXC_RT_INDEX_RANGE_S) && g_coll_new_n == 0))
/* the result is a table one level above the element's type, non-null for a non-null count */
PROP(C09, C02) __CPROVER_ensures((OK && g_eval_n >= 2) ==> (V_MAJOR(RET) == V_MAJOR(A2) && V_LEVEL(RET) == V_LEVEL(A2) + 1 && !V_LVALUE(RET) && V_ISNULL(RET) == V_ISNULL(CNT)))
/* uniform: a second evaluation of another type is refused */
PROP(C09) __CPROVER_ensures((g_eval_n == 3 && (V_MAJOR(A3) != V_MAJOR(A2) || V_LEVEL(A3) != V_LEVEL(A2) || V_MINOR(A3) != V_MINOR(A2))) ==> THROWN_RT(EXC_RT_VARYING_COLLECTION))
/* C17: at most one table is built; it is destroyed exactly when it is not returned */
PROP(C17) __CPROVER_ensures(g_coll_new_n <= 1 && (OK ==> g_coll_del_n == 0) && (!OK ==> g_coll_del_n == g_coll_new_n))
PROP(C17) __CPROVER_ensures((OK && !V_ISNULL(RET)) ==> (g_coll_new_n == 1 && RET->_value.p == g_coll_obj))
ENS_FRAME1
ENS_FRAME2
;

#include FNS_C
