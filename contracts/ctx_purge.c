/* contract of bloc::Context::purge (C17, C14): the context is brought back to its initial state.  The value left by a
 * top-level RETURN that the host did not collect is destroyed here, exactly once (an object it references is released
 * with it: Value::~Value -> _clear, proved in value_clear.c); the temporary pool and the variable storage are emptied;
 * a root context gets a new function table, and the old one is destroyed exactly once. */
int g_ret_deleted, g_fm_deleted, g_other_deleted; void *g_ret_obj, *g_fm_obj;
#define G2C_DELETE_HOOK(p) if ((p) != 0) { if ((void *)(p) == g_ret_obj) g_ret_deleted++; else if ((void *)(p) == g_fm_obj) g_fm_deleted++; else g_other_deleted++; }
#include "prelude.h"

int g_clear_n, g_fm_dtor_n, g_fm_ctor_n, g_pool_purge_n, g_slots_clear_n, g_backed_clear_n; const void *g_clear_obj, *g_fm_ctor_root, *g_pool_obj, *g_slots_obj, *g_backed_obj;
/* ---- callees outside this contract (ASSUMED; counted) ---- */
/* Value::_clear(): releases the payload (proved: value_clear.c) */
void _ZN4bloc5Value6_clearEv(struct Value *this) { g_clear_n++; g_clear_obj = this; this->_flags &= ~F_NOTNULL; }
/* FunctorManager(Context& root) / ~FunctorManager() */
void _ZN4bloc14FunctorManagerC1ERNS_7ContextE(struct FunctorManager *this, struct Context *root) { (void)this; g_fm_ctor_n++; g_fm_ctor_root = root; }
void _ZN4bloc14FunctorManagerD1Ev(struct FunctorManager *this) { g_fm_dtor_n++; __CPROVER_assert((void *)this == g_fm_obj, "only the context's own function table is destroyed"); }
/* Context::Pool::purge(): every pooled temporary is emptied (releasing what it holds) and the pool rewound */
void _ZN4bloc7Context4Pool5purgeEv(void *this) { g_pool_purge_n++; g_pool_obj = this; }
void _ZNSt6vectorIN4bloc7Context10MemorySlotESaIS2_EE5clearEv(void *this) { g_slots_clear_n++; g_slots_obj = this; }
void _ZNSt6vectorIN4bloc6SymbolESaIS1_EE5clearEv(void *this) { g_backed_clear_n++; g_backed_obj = this; }

_Bool g_ret_notnull;
#define FM_ROOT(fm) (*(struct Context **)(fm))   /* FunctorManager::_root is its first member (a reference) */
void _ZN4bloc7Context5purgeEv(struct Context *this)
__CPROVER_requires(IS_FRESH(this, sizeof(*this)) && IS_FRESH(this->_fctm, sizeof(struct FunctorManager)))
__CPROVER_requires(INPUT_STATE(g_ret_obj))
__CPROVER_requires(this->_returned != 0 ==> IS_FRESH(this->_returned, sizeof(struct Value)))
__CPROVER_requires(this->_returned != 0 ==> VALID_TAG(this->_returned))
__CPROVER_requires(SET_EQ(g_ret_obj, this->_returned) && SET_EQ(g_fm_obj, this->_fctm))
__CPROVER_requires(this->_returned != 0 ==> SET_EQ(g_ret_notnull, (this->_returned->_flags & F_NOTNULL) != 0))
__CPROVER_requires(__exc == 0 && __caught_n == 0 && g_ret_deleted == 0 && g_fm_deleted == 0 && g_other_deleted == 0 && g_clear_n == 0 && g_fm_dtor_n == 0 && g_fm_ctor_n == 0 &&
                   g_pool_purge_n == 0 && g_slots_clear_n == 0 && g_backed_clear_n == 0 && GLOBALS_PINNED)
__CPROVER_assigns()
PROP(C01) __CPROVER_ensures(OK)
/* the uncollected result of a RETURN is destroyed exactly once -- payload released, holder freed -- and forgotten */
PROP(C17) __CPROVER_ensures(g_ret_obj != 0 ==> g_ret_deleted == 1)
/* ... its payload is released first exactly when it holds one (~Value calls _clear unless the value is null) */
PROP(C17) __CPROVER_ensures((g_ret_obj != 0 && g_ret_notnull) ==> (g_clear_n == 1 && g_clear_obj == g_ret_obj))
PROP(C17) __CPROVER_ensures((g_ret_obj != 0 && !g_ret_notnull) ==> g_clear_n == 0)
PROP(C17) __CPROVER_ensures(g_ret_obj == 0 ==> (g_ret_deleted == 0 && g_clear_n == 0))
PROP(C17) __CPROVER_ensures(this->_returned == 0 && g_other_deleted == 0)
/* temporaries and variables are released */
PROP(C17) __CPROVER_ensures(g_pool_purge_n == 1 && g_pool_obj == (const void *)&this->_temporary_storage && g_slots_clear_n == 1 && g_slots_obj == (const void *)&this->_storage_pool)
/* a root context replaces its function table: the old one is destroyed once, the new one is rooted here; a child keeps the shared one */
PROP(C17) __CPROVER_ensures(g_fm_dtor_n == g_fm_deleted && g_fm_ctor_n == g_fm_dtor_n && g_fm_dtor_n <= 1 && (g_fm_ctor_n == 1 ==> (g_fm_ctor_root == (const void *)this && this->_fctm != 0 && (void *)this->_fctm != g_fm_obj)))
PROP(C17) __CPROVER_ensures(g_fm_dtor_n == 0 ==> (void *)this->_fctm == g_fm_obj)
/* flags back to their initial state */
PROP(C14) __CPROVER_ensures(!this->_returnCondition && !this->_trace && !this->_parsing && g_backed_clear_n == 1 && g_backed_obj == (const void *)&this->_backed_symbols)
;

#include FNS_C
