/* contract of bloc::VariableExpression::type (C02): while a text is compiled the type of a variable is the type its
 * SYMBOL has (what registerSymbol / parsingEnd maintain); while a program runs it is the type of the VALUE stored
 * (for a forall iterator: of the element it points to).  These are the two views the property says never disagree
 * at the points where a program is accepted; this contract fixes which view is consulted when. */
#include "prelude.h"
struct Context__MemorySlot g_slot; struct Symbol g_sym; unsigned g_id; struct Value g_pointee;
struct Symbol *_ZN4bloc7Context9getSymbolEj(struct Context *this, unsigned id)
{ (void)this; __CPROVER_assert(id == g_id, "getSymbol: the variable's own symbol"); return &g_sym; }
struct Context__MemorySlot *_ZNSt6vectorIN4bloc7Context10MemorySlotESaIS2_EEixEm(void *this, unsigned long n)
{ (void)this; __CPROVER_assert(n == g_id, "the slot of the variable"); return &g_slot; }

const struct Type *_ZNK4bloc18VariableExpression4typeERNS_7ContextE(struct VariableExpression *this, struct Context *ctx)
__CPROVER_requires(IS_FRESH(this, sizeof(*this)) && IS_FRESH(ctx, sizeof(*ctx)))
__CPROVER_requires(INPUT_STATE(g_id, VALUE_FIELDS(&g_slot.value), VALUE_FIELDS(&g_pointee)))
__CPROVER_requires(this->_id == g_id && *(unsigned char *)&ctx->_parsing <= 1 && VALID_TAG(&g_slot.value) && VALID_TAG(&g_pointee) && V_MAJOR(&g_pointee) != POINTER)
/* a POINTER value is a scalar (Value::Value(Value*) is the only maker) */
__CPROVER_requires(V_MAJOR(&g_slot.value) == POINTER ==> V_LEVEL(&g_slot.value) == 0)
/* a forall iterator points to a table element (never to another pointer: precondition of deref_value's complete unwinding) */
__CPROVER_requires((V_IS(&g_slot.value, POINTER) && !V_ISNULL(&g_slot.value)) ==> SET_EQ(g_slot.value._value.p, &g_pointee))
__CPROVER_requires(__exc == 0 && GLOBALS_PINNED)
__CPROVER_assigns()
PROP(C01, C02) __CPROVER_ensures(__exc == 0 && RET != 0)
/* compiling: the symbol's type */
PROP(C02) __CPROVER_ensures(ctx->_parsing ==> RET == (const struct Type *)&g_sym._base_Type)
/* running: the stored value's type; through a non-null iterator pointer, the element's type */
PROP(C02) __CPROVER_ensures((!ctx->_parsing && !V_IS(&g_slot.value, POINTER)) ==> RET == (const struct Type *)&g_slot.value._type)
PROP(C02) __CPROVER_ensures((!ctx->_parsing && V_IS(&g_slot.value, POINTER) && !V_ISNULL(&g_slot.value)) ==> RET == (const struct Type *)&g_pointee._type)
PROP(C02) __CPROVER_ensures((!ctx->_parsing && V_IS(&g_slot.value, POINTER) && V_ISNULL(&g_slot.value)) ==> RET == (const struct Type *)&g_slot.value._type)
;

#include FNS_C
