/* prelude_lite.h -- for translation units that know nothing of bloc::Value (exception tables, plugin lists):
 * runtime model, exception classes, generated types and the clause vocabulary only */
#include "rt.h"
#include "bloc_exc.h"
#include TYPES_H
#include "vocab.h"
#define OK (__exc == 0)
