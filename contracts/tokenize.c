/* contract of bloc::TOKENIZEExpression::tokenize (C10): the string is split at every occurrence of the separator, found
 * scanning from the left without overlap; the pieces come out in order with exactly their bytes (any byte value); with
 * the trim flag empty pieces are dropped; an empty separator never matches; the empty string gives no piece.
 * The subject and the separator are modelled WITH contents (ghost arrays of at most S_MAX / P_MAX bytes), the pieces by
 * a ghost array of at most T_MAX strings, and the loop is unwound: BOUNDED.  The specification below is written from the
 * sentence above (it locates the separators first), not from the loop of builtin_tokenize.cpp. */
#include "prelude_lite.h"
#define S_MAX 3
#define P_MAX 2
#define T_MAX 4
char g_s[S_MAX + 1], g_p[P_MAX + 1]; unsigned long g_slen, g_plen;
char g_tok[S_MAX + 1]; unsigned long g_toklen;                       /* the local `token` */
char g_out[T_MAX + 1][S_MAX + 1]; unsigned long g_outlen[T_MAX + 1]; int g_out_n, g_push_n, g_coll_n, g_lit_n; /* the pieces */
const void *g_str_obj, *g_sep_obj, *g_tok_obj;
#define IS_STR(x) ((const void *)(x) == g_str_obj)
#define IS_SEP(x) ((const void *)(x) == g_sep_obj)
/* ---- ASSUMED model of std::string with contents ---- */
unsigned long _ZNKSt7__cxx1112basic_stringIcSt11char_traitsIcESaIcEE4sizeEv(const struct std_string *this)
{ __CPROVER_assert(IS_STR(this) || IS_SEP(this) || (const void *)this == g_tok_obj, "model: subject, separator or token"); return IS_STR(this) ? g_slen : IS_SEP(this) ? g_plen : g_toklen; }
/* int compare(size_t pos, size_t n, const string& s) const: compares substr(pos, n) with s; throws out_of_range if pos > size() */
int _ZNKSt7__cxx1112basic_stringIcSt11char_traitsIcESaIcEE7compareEmmRKS4_(const struct std_string *this, unsigned long pos, unsigned long n, const struct std_string *o)
{
  __CPROVER_assert(IS_STR(this) && IS_SEP(o), "model: the subject is compared with the separator");
  __CPROVER_assert(pos <= g_slen, "std::string::compare(pos, n, s): pos <= size() (it throws std::out_of_range otherwise)");
  unsigned long rlen = g_slen - pos < n ? g_slen - pos : n;
  for (unsigned long k = 0; k < P_MAX; ++k) { if (k >= rlen || k >= g_plen) break; if (g_s[pos + k] != g_p[k]) return (unsigned char)g_s[pos + k] < (unsigned char)g_p[k] ? -1 : 1; }
  return rlen < g_plen ? -1 : rlen > g_plen ? 1 : 0;
}
const char *_ZNKSt7__cxx1112basic_stringIcSt11char_traitsIcESaIcEEixEm(const struct std_string *this, unsigned long n)
{ __CPROVER_assert(IS_STR(this), "model: the subject is indexed"); __CPROVER_assert(n <= g_slen, "std::string::operator[]: index within [0, size()]"); return &g_s[n]; }
/* the local token: string(), push_back, empty, clear, ~string */
void _ZNSt7__cxx1112basic_stringIcSt11char_traitsIcESaIcEEC1Ev(struct std_string *this) { g_tok_obj = this; g_toklen = 0; }
void _ZNSt7__cxx1112basic_stringIcSt11char_traitsIcESaIcEED1Ev(struct std_string *this) { (void)this; }
void _ZNSt7__cxx1112basic_stringIcSt11char_traitsIcESaIcEE9push_backEc(struct std_string *this, char c)
{ __CPROVER_assert((const void *)this == g_tok_obj, "model: only the token grows"); __CPROVER_assert(g_toklen < S_MAX, "model: room in the token"); g_tok[g_toklen++] = c; }
_Bool _ZNKSt7__cxx1112basic_stringIcSt11char_traitsIcESaIcEE5emptyEv(const struct std_string *this) { __CPROVER_assert((const void *)this == g_tok_obj, "model: the token"); return g_toklen == 0; }
void _ZNSt7__cxx1112basic_stringIcSt11char_traitsIcESaIcEE5clearEv(struct std_string *this) { __CPROVER_assert((const void *)this == g_tok_obj, "model: the token"); g_toklen = 0; }
/* string(string&&): the new Literal takes the token's contents (the token is left valid but unspecified: here, as libstdc++ does, empty) */
void _ZNSt7__cxx1112basic_stringIcSt11char_traitsIcESaIcEEC1EOS4_(struct std_string *this, struct std_string *o)
{
  (void)this; __CPROVER_assert((const void *)o == g_tok_obj, "model: the token is moved into the piece"); __CPROVER_assert(g_out_n < T_MAX, "model: room for the piece");
  g_outlen[g_out_n] = g_toklen; g_out[g_out_n][0] = g_tok[0]; g_out[g_out_n][1] = g_tok[1]; g_out[g_out_n][2] = g_tok[2]; g_out_n++; g_lit_n++; g_toklen = 0;
}
/* Collection(const Type&), Value(Literal*), Collection::push_back(Value&&) / std::vector<Value>::push_back, ~Value */
struct Collection g_coll;
void _ZN4bloc10CollectionC1ERKNS_4TypeE(struct Collection *this, const struct Type *t) { (void)this; (void)t; g_coll_n++; }
void _ZN4bloc5ValueC1EPNSt7__cxx1112basic_stringIcSt11char_traitsIcESaIcEEE(struct Value *this, struct std_string *v) { this->_type._major = 4; this->_type._minor = 0; this->_type._level = 0; this->_flags = v ? 1 : 0; this->_value.p = v; }
void _ZNSt6vectorIN4bloc5ValueESaIS1_EE9push_backEOS1_(void *this, struct Value *v) { (void)this; __CPROVER_assert(v->_flags == 1 && v->_type._major == 4, "a non-null string is appended"); g_push_n++; v->_flags = 0; }
void _ZN4bloc5Value6_clearEv(struct Value *this) { this->_flags = 0; }

/* ---- the specification: cut positions first, then the pieces ---- */
int g_spec_n; unsigned long g_spec_beg[T_MAX + 1], g_spec_len[T_MAX + 1];
static _Bool sep_at(unsigned long i) { if (g_plen == 0 || i + g_plen > g_slen) return 0; for (unsigned long k = 0; k < P_MAX; ++k) { if (k >= g_plen) break; if (g_s[i + k] != g_p[k]) return 0; } return 1; }
static _Bool spec(_Bool trim)
{
  g_spec_n = 0; if (g_slen == 0) return 1;
  unsigned long beg = 0, i = 0;
  for (int it = 0; it < S_MAX + 1; ++it)
  {
    if (i >= g_slen) break;
    if (sep_at(i)) { if (!trim || i > beg) { g_spec_beg[g_spec_n] = beg; g_spec_len[g_spec_n] = i - beg; g_spec_n++; } i += g_plen; beg = i; }
    else ++i;
  }
  if (!trim || g_slen > beg) { g_spec_beg[g_spec_n] = beg; g_spec_len[g_spec_n] = g_slen - beg; g_spec_n++; }
  return 1;
}
#define PIECE_OK(k) (g_spec_n <= (k) || (g_outlen[k] == g_spec_len[k] && (g_spec_len[k] < 1 || g_out[k][0] == g_s[g_spec_beg[k]]) && (g_spec_len[k] < 2 || g_out[k][1] == g_s[g_spec_beg[k] + 1]) && (g_spec_len[k] < 3 || g_out[k][2] == g_s[g_spec_beg[k] + 2])))

struct Collection *_ZNK4bloc18TOKENIZEExpression8tokenizeERKNSt7__cxx1112basic_stringIcSt11char_traitsIcESaIcEEES8_b(struct TOKENIZEExpression *this, const struct std_string *str, const struct std_string *sep, _Bool trimnull)
__CPROVER_requires(IS_FRESH(this, sizeof(*this)) && IS_FRESH(str, sizeof(*str)) && IS_FRESH(sep, sizeof(*sep)))
__CPROVER_requires(INPUT_STATE(g_slen, g_plen, g_s[0], g_s[1], g_s[2], g_p[0], g_p[1]))
__CPROVER_requires(SET_EQ(g_str_obj, (const void *)str) && SET_EQ(g_sep_obj, (const void *)sep))
__CPROVER_requires(g_slen <= S_MAX && g_plen <= P_MAX && *(unsigned char *)&trimnull <= 1 && __exc == 0 && __caught_n == 0 && g_out_n == 0 && g_push_n == 0 && g_coll_n == 0)
__CPROVER_assigns()
PROP(C01, C10) __CPROVER_ensures(OK && RET != 0 && g_coll_n == 1)
/* the pieces are the ones the specification names, in order, byte for byte; each is appended once */
PROP(C10) __CPROVER_ensures(spec(trimnull) && g_out_n == g_spec_n && g_push_n == g_spec_n && g_lit_n == g_spec_n)
PROP(C10) __CPROVER_ensures(PIECE_OK(0) && PIECE_OK(1) && PIECE_OK(2) && PIECE_OK(3))
/* the subject and the separator are only read */
PROP(C05, C10) __CPROVER_ensures(g_slen == __CPROVER_old(g_slen) && g_s[0] == __CPROVER_old(g_s[0]) && g_s[1] == __CPROVER_old(g_s[1]) && g_s[2] == __CPROVER_old(g_s[2]) && g_plen == __CPROVER_old(g_plen) && g_p[0] == __CPROVER_old(g_p[0]) && g_p[1] == __CPROVER_old(g_p[1]))
;

#include FNS_C
