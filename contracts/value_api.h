/* value_api.h -- contracts of the out-of-line bloc::Value members (value.cpp), of Context::allocate
 * and of the exception constructors.  Proved against their bodies in the `value` / `context` jobs,
 * used by replacement everywhere else. */
#ifndef VALUE_API_H
#define VALUE_API_H
#ifdef PAYLOAD_LITERAL
#define ENS_CLONE_LITERAL __CPROVER_ensures((V_IS(this, LITERAL) && !V_ISNULL(this)) ==> IS_FRESH(__CPROVER_return_value._value.p, sizeof(struct std_string)))
#else
#define ENS_CLONE_LITERAL
#endif
#ifdef PAYLOAD_IMAGINARY
#define ENS_CLONE_IMAGINARY __CPROVER_ensures((V_IS(this, IMAGINARY) && !V_ISNULL(this)) ==> IS_FRESH(__CPROVER_return_value._value.p, sizeof(struct Imaginary)))
#else
#define ENS_CLONE_IMAGINARY
#endif
#define ENS_CLONE_PAYLOADS ENS_CLONE_LITERAL ENS_CLONE_IMAGINARY

#ifndef ENFORCING_VALUE_CORE   /* the jobs value_move_* prove these contracts on the real bodies */
/* Value& Value::operator=(Value&& v) noexcept : move; the source is left null */
struct Value *_ZN4bloc5ValueaSEOS0_(struct Value *this, struct Value *v)
__CPROVER_requires(__exc == 0)
__CPROVER_assigns(VALUE_FIELDS(this), v->_flags)
__CPROVER_ensures(__exc == 0)
__CPROVER_ensures(PTR_EQ(__CPROVER_return_value, this))
__CPROVER_ensures(this != v ==> (this->_flags == __CPROVER_old(v->_flags) && V_MAJOR(this) == __CPROVER_old(V_MAJOR(v)) &&
                                 V_MINOR(this) == __CPROVER_old(V_MINOR(v)) && V_LEVEL(this) == __CPROVER_old(V_LEVEL(v)) &&
                                 this->_value.i == __CPROVER_old(v->_value.i) && v->_flags == 0))
__CPROVER_ensures(this == v ==> (this->_flags == __CPROVER_old(this->_flags) && this->_value.i == __CPROVER_old(this->_value.i) &&
                                 V_MAJOR(this) == __CPROVER_old(V_MAJOR(this)) && V_MINOR(this) == __CPROVER_old(V_MINOR(this)) &&
                                 V_LEVEL(this) == __CPROVER_old(V_LEVEL(this))))
;

/* Value::Value(Value&& v) noexcept : move construction; the source is left null */
void _ZN4bloc5ValueC1EOS0_(struct Value *this, struct Value *v)
__CPROVER_requires(__exc == 0)
__CPROVER_assigns(VALUE_FIELDS(this), v->_flags)
__CPROVER_ensures(__exc == 0)
__CPROVER_ensures(this->_flags == __CPROVER_old(v->_flags) && V_MAJOR(this) == __CPROVER_old(V_MAJOR(v)) && V_MINOR(this) == __CPROVER_old(V_MINOR(v)) &&
                  V_LEVEL(this) == __CPROVER_old(V_LEVEL(v)) && this->_value.i == __CPROVER_old(v->_value.i) && v->_flags == 0)
;

#endif
#ifndef ENFORCING_VALUE_CLEAR   /* the job value_clear proves the stronger form on the real body */
/* void Value::_clear() noexcept : releases the payload, clears NOTNULL */
void _ZN4bloc5Value6_clearEv(struct Value *this)
__CPROVER_requires(__exc == 0)
__CPROVER_assigns(this->_flags)
__CPROVER_ensures(__exc == 0)
__CPROVER_ensures(this->_flags == (__CPROVER_old(this->_flags) & ~F_NOTNULL))
;
#endif

/* Value& Context::allocate(Value&& v) : moves v into a slot of the temporary pool */
struct Value *_ZN4bloc7Context8allocateEONS_5ValueE(struct Context *this, struct Value *v)
__CPROVER_requires(__exc == 0)
__CPROVER_assigns(v->_flags)
__CPROVER_ensures(__exc == 0)
__CPROVER_ensures(IS_FRESH(__CPROVER_return_value, sizeof(struct Value)))
__CPROVER_ensures(SET_EQ(__CPROVER_return_value->_value.i, __CPROVER_old(v->_value.i)) && SET_EQ(__CPROVER_return_value->_flags, __CPROVER_old(v->_flags)) &&
                  SET_EQ(V_MAJOR(__CPROVER_return_value), __CPROVER_old(V_MAJOR(v))) && SET_EQ(V_MINOR(__CPROVER_return_value), __CPROVER_old(V_MINOR(v))) &&
                  SET_EQ(V_LEVEL(__CPROVER_return_value), __CPROVER_old(V_LEVEL(v))))
__CPROVER_ensures(v->_flags == 0)
;

#ifndef ENFORCING_VALUE_CLONE   /* the job value_clone proves this contract's stronger form on the real body */
/* Value Value::clone() const noexcept : a deep copy; the copy is a temporary (no LVALUE) and shares no
 * payload with the source (objects excepted, which are reference counted) */
struct Value _ZNK4bloc5Value5cloneEv(struct Value *this)
__CPROVER_requires(__exc == 0)
__CPROVER_assigns()
__CPROVER_ensures(__exc == 0)
__CPROVER_ensures(SET_EQ(__CPROVER_return_value._value.i, this->_value.i) && SET_EQ(__CPROVER_return_value._flags, (this->_flags & F_NOTNULL)) &&
                  SET_EQ(__CPROVER_return_value._type._major, V_MAJOR(this)) && SET_EQ(__CPROVER_return_value._type._minor, V_MINOR(this)) &&
                  SET_EQ(__CPROVER_return_value._type._level, V_LEVEL(this)))
ENS_CLONE_PAYLOADS
;
#endif

#ifndef ENFORCING_VALUE_CORE
/* void Value::swap(Value& v) noexcept : exchange of two values (no payload is released) */
void _ZN4bloc5Value4swapERS0_(struct Value *this, struct Value *v)
{
  struct Value t; t._flags = this->_flags; t._type._major = this->_type._major; t._type._minor = this->_type._minor; t._type._level = this->_type._level; t._value.i = this->_value.i;
  this->_flags = v->_flags; this->_type._major = v->_type._major; this->_type._minor = v->_type._minor; this->_type._level = v->_type._level; this->_value.i = v->_value.i;
  v->_flags = t._flags; v->_type._major = t._type._major; v->_type._minor = t._type._minor; v->_type._level = t._type._level; v->_value.i = t._value.i;
}
/* void Value::swap(Value&& v) noexcept : move v into *this (the old payload is released), v is left null */
void _ZN4bloc5Value4swapEOS0_(struct Value *this, struct Value *v)
__CPROVER_requires(__exc == 0)
__CPROVER_assigns(VALUE_FIELDS(this), v->_flags)
__CPROVER_ensures(__exc == 0)
__CPROVER_ensures(this != v ==> (this->_flags == __CPROVER_old(v->_flags) && V_MAJOR(this) == __CPROVER_old(V_MAJOR(v)) && V_MINOR(this) == __CPROVER_old(V_MINOR(v)) &&
                                 V_LEVEL(this) == __CPROVER_old(V_LEVEL(v)) && this->_value.i == __CPROVER_old(v->_value.i) && v->_flags == 0))
__CPROVER_ensures(this == v ==> (this->_flags == __CPROVER_old(this->_flags) && this->_value.i == __CPROVER_old(this->_value.i) && V_MAJOR(this) == __CPROVER_old(V_MAJOR(this)) &&
                                 V_MINOR(this) == __CPROVER_old(V_MINOR(this)) && V_LEVEL(this) == __CPROVER_old(V_LEVEL(this))))
;
#endif
/* Value::Value(Literal * v) */
struct std_string;
void _ZN4bloc5ValueC1EPNSt7__cxx1112basic_stringIcSt11char_traitsIcESaIcEEE(struct Value *this, struct std_string *v)
__CPROVER_requires(__exc == 0)
__CPROVER_assigns(VALUE_FIELDS(this))
__CPROVER_ensures(__exc == 0 && V_IS(this, LITERAL) && V_MINOR(this) == 0)
__CPROVER_ensures(v != 0 ==> (this->_flags == F_NOTNULL && PTR_EQ(this->_value.p, v)))
__CPROVER_ensures(v == 0 ==> this->_flags == 0)
;
/* std::string Value::toString() const, Value::typeName() const : some string (only used in error messages) */
#ifdef HAVE_STD_STRING
struct std_string _ZNK4bloc5Value8toStringB5cxx11Ev(const struct Value *this) { struct std_string s; (void)this; ((unsigned long *)&s)[1] = __g2c_nondet_ulong(); return s; }
struct std_string _ZNK4bloc9TupleDecl4Decl9tupleNameB5cxx11Ev(const void *this) { struct std_string s; (void)this; ((unsigned long *)&s)[1] = __g2c_nondet_ulong(); return s; }
/* static std::string Value::readableNumeric(double&) / readableInteger...: the text of a number (libc formatting: any length) */
struct std_string _ZN4bloc5Value15readableIntegerB5cxx11ERl(long *l) { struct std_string s; (void)l; ((unsigned long *)&s)[1] = __g2c_nondet_ulong(); return s; }
struct std_string _ZN4bloc5Value15readableBooleanB5cxx11ERb(_Bool *b) { struct std_string s; (void)b; ((unsigned long *)&s)[1] = __g2c_nondet_ulong(); return s; }
struct std_string _ZN4bloc5Value17readableImaginaryB5cxx11ERNS_9ImaginaryE(void *i) { struct std_string s; (void)i; ((unsigned long *)&s)[1] = __g2c_nondet_ulong(); return s; }
struct std_string _ZN4bloc5Value15readableNumericB5cxx11ERd(double *d) { struct std_string s; (void)d; ((unsigned long *)&s)[1] = __g2c_nondet_ulong(); return s; }
struct std_string _ZNK4bloc5Value8typeNameB5cxx11Ev(const struct Value *this) { struct std_string s; (void)this; ((unsigned long *)&s)[1] = __g2c_nondet_ulong(); return s; }
#endif

/* Value::Value(Imaginary * v) : takes ownership of v (null pointer => typed null) */
struct Imaginary;
void _ZN4bloc5ValueC1EPNS_9ImaginaryE(struct Value *this, struct Imaginary *v)
__CPROVER_requires(__exc == 0)
__CPROVER_assigns(VALUE_FIELDS(this))
__CPROVER_ensures(__exc == 0 && V_IS(this, IMAGINARY) && V_MINOR(this) == 0)
__CPROVER_ensures(v != 0 ==> (this->_flags == F_NOTNULL && PTR_EQ(this->_value.p, v)))
__CPROVER_ensures(v == 0 ==> this->_flags == 0)
;

/* RuntimeError::RuntimeError(EXC_RT no) -- message strings are dropped (DESIGN 2.2 item 4) */
void _ZN4bloc12RuntimeErrorC1ENS_6EXC_RTE(struct RuntimeError *this, unsigned int no)
{
  this->no = no;
}
#ifndef RTE_ARG_HOOK
#define RTE_ARG_HOOK(e, arg) ((void)(arg))
#endif
void _ZN4bloc12RuntimeErrorC1ENS_6EXC_RTEPKc(struct RuntimeError *this, unsigned int no, const char *arg)
{
  RTE_ARG_HOOK(this, arg);
  this->no = no;
}
#endif
