/* contract of bloc::FORALLStatement::finalizeControl (C06, C07): when a forall loop ends -- normally, by break / return,
 * or because an error unwinds it -- the iterator variable gets back exactly the constraints it had before the loop
 * (type-safety flag and lock) and holds no pointer into the table any more (a null of its former type); the table's
 * own symbol gets back the lock it had, or the private copy of a temporary table is destroyed; the loop record is
 * released.  Nothing of the loop's constraints survives. */
int g_deleted_n; void *g_deleted[4];
#define G2C_DELETE_HOOK(p) if ((p) != 0 && g_deleted_n < 4) g_deleted[g_deleted_n++] = (void *)(p);
#include "prelude.h"
#define NID 0xffffffffu
unsigned g_var_id, g_exp_id; struct Symbol g_var_sym, g_exp_sym; struct Context__MemorySlot g_var_slot;
struct Symbol *_ZN4bloc7Context9getSymbolEj(struct Context *this, unsigned id)
{ (void)this; __CPROVER_assert(id == g_var_id || (id == g_exp_id && g_exp_id != NID), "getSymbol: the iterator variable or the table's symbol"); return id == g_var_id ? &g_var_sym : &g_exp_sym; }
unsigned VCALL_VariableExpression_symbolId(const struct VariableExpression *e) { (void)e; return g_var_id; }
unsigned VCALL_Expression_symbolId(const struct Expression *e) { (void)e; return g_exp_id; }
/* Expression::isVarName(): true for a VariableExpression only (expression_variable.h), which has a symbol; an item expression such as tt.at(0)
 * has the symbol of its receiver and is no variable name */
_Bool g_exp_isvar;
_Bool VCALL_Expression_isVarName(const struct Expression *e) { (void)e; return g_exp_isvar ? 1 : 0; }
struct Context__MemorySlot *_ZNSt6vectorIN4bloc7Context10MemorySlotESaIS2_EEixEm(struct vec_MemorySlot *this, unsigned long n)
{ (void)this; __CPROVER_assert(n == g_var_id, "the slot of the iterator variable"); return &g_var_slot; }

#define DATA ((struct FORALLStatement__RT *)data)
#define WAS_DELETED(p) ((g_deleted_n > 0 && g_deleted[0] == (void *)(p)) || (g_deleted_n > 1 && g_deleted[1] == (void *)(p)))
void _ZNK4bloc15FORALLStatement15finalizeControlERNS_7ContextEPv(struct FORALLStatement *this, struct Context *ctx, void *data)
__CPROVER_requires(IS_FRESH(this, sizeof(*this)) && IS_FRESH(ctx, sizeof(*ctx)) && IS_FRESH(data, sizeof(struct FORALLStatement__RT)) && IS_FRESH(this->_var, sizeof(struct VariableExpression)) && IS_FRESH(this->_exp, sizeof(struct Expression)))
__CPROVER_requires(IS_FRESH(DATA->target, sizeof(struct Value)))
__CPROVER_requires(INPUT_STATE(g_exp_isvar, g_var_id, g_exp_id, g_var_sym._safety, g_var_sym._locked, g_exp_sym._locked, g_exp_sym._safety, VALUE_FIELDS(&g_var_slot.value)))
/* bool members hold 0 or 1 (type invariant of the input object) */
__CPROVER_requires(*(unsigned char *)&DATA->it_safety_bak <= 1 && *(unsigned char *)&DATA->it_locked_bak <= 1 && *(unsigned char *)&DATA->ex_locked_bak <= 1)
__CPROVER_requires(*(unsigned char *)&g_exp_isvar <= 1 && (g_exp_isvar ==> g_exp_id != NID))
__CPROVER_requires(g_var_id != g_exp_id && g_var_id != NID && SET_EQ(g_var_sym._id, g_var_id) && VALID_TAG(&g_var_slot.value) && DATA->it_type_bak._major <= IMAGINARY)
/* while the loop runs the iterator variable is a pointer into the table (a POINTER value owns nothing) */
__CPROVER_requires(V_IS(&g_var_slot.value, POINTER) && V_LEVEL(&g_var_slot.value) == 0 && V_IS(DATA->target, NO_TYPE) && V_ISNULL(DATA->target))
__CPROVER_requires(__exc == 0 && __caught_n == 0 && g_deleted_n == 0 && GLOBALS_PINNED)
__CPROVER_assigns()
PROP(C01, C07) __CPROVER_ensures(OK)
/* the iterator variable: former constraints, former type, no value, owned storage */
PROP(C06, C07) __CPROVER_ensures(g_var_sym._safety == __CPROVER_old(DATA->it_safety_bak) && g_var_sym._locked == __CPROVER_old(DATA->it_locked_bak))
PROP(C06, C07) __CPROVER_ensures(V_MAJOR(&g_var_slot.value) == __CPROVER_old(DATA->it_type_bak._major) && V_LEVEL(&g_var_slot.value) == __CPROVER_old(DATA->it_type_bak._level) && V_ISNULL(&g_var_slot.value) && V_LVALUE(&g_var_slot.value))
/* the table: its symbol gets its lock back and nothing else of it changes; a private copy is destroyed instead */
PROP(C06, C07) __CPROVER_ensures(g_exp_id != NID ==> (g_exp_sym._locked == __CPROVER_old(DATA->ex_locked_bak) && g_exp_sym._safety == __CPROVER_old(g_exp_sym._safety)))
PROP(C06, C07, C17) __CPROVER_ensures(g_exp_id == NID ==> (g_exp_sym._locked == __CPROVER_old(g_exp_sym._locked) && WAS_DELETED(__CPROVER_old(DATA->target)) && g_deleted_n == 2))
/* the loop record is released */
/* C17: a table that belongs to a symbol (also when reached through an item expression) is not destroyed by the loop */
PROP(C07, C17) __CPROVER_ensures(WAS_DELETED(data) && (g_exp_id != NID ==> g_deleted_n == 1))
;

#include FNS_C
