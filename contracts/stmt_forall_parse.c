/* contracts of the parse_clause functions of FORALL, FOR, IF and WHILE (C11): the compilers of a block body.
 * IF / WHILE: the block opened for the clause is closed exactly once on both exits and a rejected clause leaves nothing behind.
 * FORALL: while the body of a forall is compiled the iterator variable
 * is type-protected and inherits the lock of the table, and the table's symbol is locked.  Whether the body compiles
 * or is rejected (ParseError), the iterator's symbol gets back exactly the protection flag and the lock it had, the
 * table's symbol gets back its lock, and the block opened for the body is closed exactly once.  The parser, the
 * FOR: the control variable is type-protected while the body is compiled and gets its protection flag back on both
 * exits; its lock is not touched.  The parser, the
 * statement compiler and the std::list of statements are stubs (at most POP_MAX tokens, 2 statements): BOUNDED. */
#define HAVE_STD_STRING
#define CONTAINERS_MODEL
#define CONTAINERS_STRINGS_ONLY
#include "prelude.h"
#include "containers.h"
/* bool std::operator==(const std::string&, const char*): the spelling of a token is not modelled -- any answer */
_Bool _ZSteqIcSt11char_traitsIcESaIcEEbRKNSt7__cxx1112basic_stringIT_T0_T1_EEPKS5_(const struct std_string *a, const char *p) { (void)a; (void)p; return __g2c_nondet_bool(); }
#define NID 0xffffffffu
#define SAFETY(s) ((s)._safety || (s)._locked)   /* bool Symbol::safety() const */
unsigned g_var_id, g_exp_id; struct Symbol g_var_sym, g_exp_sym;
int g_begin_n, g_end_n, g_stmt_n, g_stmt_del_n, g_exec_new_n; const void *g_begin_arg;
struct Symbol *_ZN4bloc7Context9getSymbolEj(struct Context *this, unsigned id)
{ (void)this; __CPROVER_assert(id == g_var_id || (id == g_exp_id && g_exp_id != NID), "getSymbol: the iterator variable or the table's symbol"); return id == g_var_id ? &g_var_sym : &g_exp_sym; }
unsigned VCALL_VariableExpression_symbolId(const struct VariableExpression *e) { (void)e; return g_var_id; }
unsigned VCALL_Expression_symbolId(const struct Expression *e) { (void)e; return g_exp_id; }
/* void Context::execBegin(const Statement*) / execEnd(): the stack of open blocks */
void _ZN4bloc7Context9execBeginEPKNS_9StatementE(struct Context *this, const struct Statement *s) { (void)this; g_begin_n++; g_begin_arg = s; }
void _ZN4bloc7Context7execEndEv(struct Context *this) { (void)this; __CPROVER_assert(g_end_n < g_begin_n, "execEnd closes an open block"); g_end_n++; }
#include "parser_api.h"
const char *_ZN4bloc9Statement8KEYWORDSE[64];
/* void Parser::push(const TokenPtr&) */
void _ZN4bloc6Parser4pushERKSt10shared_ptrINS_5TokenEE(struct Parser *p, const struct TokenPtr *t) { (void)p; (void)t; }
/* Statement * ParseStatement::statement(Parser&, Context&): compiles one statement or fails with a ParseError */
struct Statement g_stmt[3];
struct Statement *_ZN4bloc14ParseStatement9statementERNS_6ParserERNS_7ContextE(struct Parser *p, struct Context *ctx)
{
  (void)p; (void)ctx; __CPROVER_assume(g_stmt_n < 2);   /* BOUND: at most 2 statements */
  if (__g2c_nondet_bool()) { __cxa_throw(g_parse_error_obj, G2C_EXC_ParseError, 0); return 0; }
  return &g_stmt[g_stmt_n++];
}
/* ---- the local std::list<const Statement*>: length in word[0] of the opaque object, elements in a ghost array (ASSUMED model) ---- */
const struct Statement *g_list[3]; int g_list_copied;
#define LSZ(l) (*(unsigned long *)(l))
#define LIT struct std___List_iterator_bloc__Statement_cons_05b3f5af
void _ZNSt7__cxx114listIPKN4bloc9StatementESaIS4_EEC1Ev(struct std_list_StatementPtr *this) { LSZ(this) = 0; }
void _ZNSt7__cxx114listIPKN4bloc9StatementESaIS4_EED1Ev(struct std_list_StatementPtr *this) { (void)this; }
void _ZNSt7__cxx114listIPKN4bloc9StatementESaIS4_EEC1ERKS6_(struct std_list_StatementPtr *this, const struct std_list_StatementPtr *o) { LSZ(this) = LSZ(o); g_list_copied++; }
void _ZNSt7__cxx114listIPKN4bloc9StatementESaIS4_EE9push_backERKS4_(struct std_list_StatementPtr *this, const struct Statement *const *e)
{ __CPROVER_assert(LSZ(this) < 2, "model: room in the statement list"); g_list[LSZ(this)] = *e; LSZ(this) = LSZ(this) + 1; }
_Bool _ZNKSt7__cxx114listIPKN4bloc9StatementESaIS4_EE5emptyEv(const struct std_list_StatementPtr *this) { return LSZ(this) == 0; }
LIT _ZNSt7__cxx114listIPKN4bloc9StatementESaIS4_EE5beginEv(struct std_list_StatementPtr *this) { LIT it; (void)this; *(const void **)&it = (const void *)&g_list[0]; return it; }
LIT _ZNSt7__cxx114listIPKN4bloc9StatementESaIS4_EE3endEv(struct std_list_StatementPtr *this) { LIT it; *(const void **)&it = (const void *)&g_list[LSZ(this)]; return it; }
_Bool _ZStneRKSt14_List_iteratorIPKN4bloc9StatementEES6_(const LIT *a, const LIT *b) { return *(void *const *)a != *(void *const *)b; }
const struct Statement **_ZNKSt14_List_iteratorIPKN4bloc9StatementEEdeEv(const LIT *this) { return *(const struct Statement ***)this; }
LIT *_ZNSt14_List_iteratorIPKN4bloc9StatementEEppEv(LIT *this) { *(const struct Statement ***)this = *(const struct Statement ***)this + 1; return this; }
/* Executable(Context&, const std::list<const Statement*>&): takes a copy of the list */
void _ZN4bloc10ExecutableC1ERNS_7ContextERKNSt7__cxx114listIPKNS_9StatementESaIS7_EEE(struct Executable *this, struct Context *ctx, const struct std_list_StatementPtr *l) { (void)this; (void)ctx; (void)l; g_exec_new_n++; }
/* std::__shared_ptr<Token>::operator bool() */
_Bool _ZNKSt12__shared_ptrIN4bloc5TokenELN9__gnu_cxx12_Lock_policyE2EEcvbEv(const struct TokenPtr *this) { return TOK_OF(this) != 0; }
void VCALL_Statement__Statement(struct Statement *s) { (void)s; g_stmt_del_n++; }   /* delete ss */

#ifdef JOB_FORALL
struct Executable *_ZN4bloc15FORALLStatement12parse_clauseERNS_6ParserERNS_7ContextEPS0_(struct Parser *p, struct Context *ctx, struct FORALLStatement *rof)
__CPROVER_requires(IS_FRESH(ctx, sizeof(*ctx)) && IS_FRESH(rof, sizeof(*rof)) && IS_FRESH(rof->_var, sizeof(struct VariableExpression)) && IS_FRESH(rof->_exp, sizeof(struct Expression)))
__CPROVER_requires(INPUT_STATE(g_var_id, g_exp_id, g_var_sym._safety, g_var_sym._locked, g_exp_sym._locked, g_exp_sym._safety, g_tok[0].code, g_tok[1].code, g_tok[2].code, g_tok[3].code, g_tok[4].code, g_tok[5].code))
/* bool members hold 0 or 1 (type invariant of the input objects) */
__CPROVER_requires(*(unsigned char *)&g_var_sym._safety <= 1 && *(unsigned char *)&g_var_sym._locked <= 1 && *(unsigned char *)&g_exp_sym._locked <= 1 && *(unsigned char *)&g_exp_sym._safety <= 1)
__CPROVER_requires(g_var_id != g_exp_id && g_var_id != NID)
__CPROVER_requires(__exc == 0 && __caught_n == 0 && g_begin_n == 0 && g_end_n == 0 && g_stmt_n == 0 && g_stmt_del_n == 0 && g_pop_n == 0 && GLOBALS_PINNED)
__CPROVER_assigns()
/* only a ParseError leaves the compiler */
PROP(C01, C11) __CPROVER_ensures(OK || (__exc == 1 && __exc_type == G2C_EXC_ParseError))
/* accepted or rejected: the iterator variable keeps the constraints it had */
PROP(C11) __CPROVER_ensures(SAFETY(g_var_sym) == __CPROVER_old(SAFETY(g_var_sym)) && g_var_sym._locked == __CPROVER_old(g_var_sym._locked))
/* (Symbol::safety() is `_safety || _locked`; FORALLStatement::parse refuses a protected iterator symbol before it gets here: then the two flags themselves are restored) */
PROP(C11) __CPROVER_ensures(!__CPROVER_old(SAFETY(g_var_sym)) ==> (!g_var_sym._safety && !g_var_sym._locked))
/* ... and so does the table's symbol */
PROP(C09, C11, C17) __CPROVER_ensures(g_exp_sym._locked == __CPROVER_old(g_exp_sym._locked) && g_exp_sym._safety == __CPROVER_old(g_exp_sym._safety))
/* the block opened for the body is closed exactly once */
PROP(C11) __CPROVER_ensures(g_begin_n == 1 && g_end_n == 1 && g_begin_arg == (const void *)rof)
/* a rejected body leaves no compiled statement behind */
PROP(C11) __CPROVER_ensures(!OK ==> g_stmt_del_n == g_stmt_n)
PROP(C11) __CPROVER_ensures(OK ==> (g_stmt_del_n == 0 && g_stmt_n >= 1 && RET != 0))
;
#endif
#ifdef JOB_FOR
struct Executable *_ZN4bloc12FORStatement12parse_clauseERNS_6ParserERNS_7ContextEPS0_(struct Parser *p, struct Context *ctx, struct FORStatement *rof)
__CPROVER_requires(IS_FRESH(ctx, sizeof(*ctx)) && IS_FRESH(rof, sizeof(*rof)) && IS_FRESH(rof->_var, sizeof(struct VariableExpression)))
__CPROVER_requires(INPUT_STATE(g_var_id, g_var_sym._safety, g_var_sym._locked, g_tok[0].code, g_tok[1].code, g_tok[2].code, g_tok[3].code, g_tok[4].code, g_tok[5].code))
__CPROVER_requires(*(unsigned char *)&g_var_sym._safety <= 1 && *(unsigned char *)&g_var_sym._locked <= 1 && g_var_id != NID)
__CPROVER_requires(__exc == 0 && __caught_n == 0 && g_begin_n == 0 && g_end_n == 0 && g_stmt_n == 0 && g_stmt_del_n == 0 && g_pop_n == 0 && GLOBALS_PINNED)
__CPROVER_assigns()
PROP(C01, C11) __CPROVER_ensures(OK || (__exc == 1 && __exc_type == G2C_EXC_ParseError))
/* accepted or rejected: the control variable keeps the constraints it had */
PROP(C11) __CPROVER_ensures(SAFETY(g_var_sym) == __CPROVER_old(SAFETY(g_var_sym)) && g_var_sym._locked == __CPROVER_old(g_var_sym._locked))
PROP(C11) __CPROVER_ensures(!__CPROVER_old(g_var_sym._locked) ==> g_var_sym._safety == __CPROVER_old(g_var_sym._safety))
PROP(C11) __CPROVER_ensures(g_begin_n == 1 && g_end_n == 1 && g_begin_arg == (const void *)rof)
PROP(C11) __CPROVER_ensures(!OK ==> g_stmt_del_n == g_stmt_n)
PROP(C11) __CPROVER_ensures(OK ==> (g_stmt_del_n == 0 && g_stmt_n >= 1 && RET != 0))
;
#endif
#if defined(JOB_IF) || defined(JOB_WHILE)
#ifdef JOB_IF
struct Executable *_ZN4bloc11IFStatement12parse_clauseERNS_6ParserERNS_7ContextEPS0_(struct Parser *p, struct Context *ctx, struct IFStatement *rof)
#else
struct Executable *_ZN4bloc14WHILEStatement12parse_clauseERNS_6ParserERNS_7ContextEPNS_9StatementE(struct Parser *p, struct Context *ctx, struct Statement *rof)
#endif
__CPROVER_requires(IS_FRESH(ctx, sizeof(*ctx)) && IS_FRESH(rof, sizeof(*rof)))
__CPROVER_requires(INPUT_STATE(g_tok[0].code, g_tok[1].code, g_tok[2].code, g_tok[3].code, g_tok[4].code, g_tok[5].code))
__CPROVER_requires(__exc == 0 && __caught_n == 0 && g_begin_n == 0 && g_end_n == 0 && g_stmt_n == 0 && g_stmt_del_n == 0 && g_pop_n == 0 && GLOBALS_PINNED)
__CPROVER_assigns()
PROP(C01, C11) __CPROVER_ensures(OK || (__exc == 1 && __exc_type == G2C_EXC_ParseError))
/* accepted or rejected: the block opened for the clause is closed exactly once (the context's nesting level is what it was) */
PROP(C11) __CPROVER_ensures(g_begin_n == 1 && g_end_n == 1 && g_begin_arg == (const void *)rof)
/* a rejected clause leaves no compiled statement behind; an accepted one has at least one statement */
PROP(C11) __CPROVER_ensures(!OK ==> g_stmt_del_n == g_stmt_n)
PROP(C11) __CPROVER_ensures(OK ==> (g_stmt_del_n == 0 && g_stmt_n >= 1 && RET != 0))
;
#endif

#include FNS_C
