/* contract of bloc::Context::resetChildRuntime (C08): a recycled runtime context of a function gets back the state
 * Context::createChildRuntime gives a new one -- every symbol as declared in the function's parse context, every
 * variable a new empty (null) value of the declared type.  The two symbol tables (std::vector<MemorySlot>) are
 * modelled by ghost arrays (declared: at most 2 slots, runtime: at most 3) and the loops are unwound: BOUNDED. */
#define HAVE_STD_STRING
#define CONTAINERS_MODEL
#define CONTAINERS_STRINGS_ONLY
#include "prelude.h"
#include "containers.h"
#include "strid.h"

#define DECL_MAX 2
#define RT_MAX 3
struct Context g_decl_ctx, g_rt_ctx;
struct Symbol g_decl_sym[DECL_MAX + 1], g_rt_sym[RT_MAX + 1];
struct Context__MemorySlot g_decl[DECL_MAX + 1], g_rt[RT_MAX + 1]; unsigned long g_decl_len, g_rt_len; int g_push_n;
#define IS_DECL(v) ((const void *)(v) == (const void *)&g_decl_ctx._storage_pool)
#define IS_RT(v) ((const void *)(v) == (const void *)&g_rt_ctx._storage_pool)
/* ---- ASSUMED model of the two std::vector<MemorySlot> ---- */
#ifndef G2C_HAVE_vslot_citerator   /* the iterator type exists in the generated header only if the code uses it */
struct vslot_citerator { struct Context__MemorySlot *p; };
#endif
unsigned long _ZNKSt6vectorIN4bloc7Context10MemorySlotESaIS2_EE4sizeEv(const struct vec_MemorySlot *this)
{ __CPROVER_assert(IS_DECL(this) || IS_RT(this), "model: one of the two symbol tables"); return IS_DECL(this) ? g_decl_len : g_rt_len; }
struct Context__MemorySlot *_ZNSt6vectorIN4bloc7Context10MemorySlotESaIS2_EEixEm(struct vec_MemorySlot *this, unsigned long n)
{
  __CPROVER_assert(IS_RT(this), "model: only the runtime table is indexed");
  __CPROVER_assert(n < g_rt_len, "std::vector<MemorySlot>::operator[]: index within size() (undefined behaviour otherwise)");
  return &g_rt[n];
}
/* const operator[]: either table, by position (an index loop over the declared table is as good as an iterator loop) */
const struct Context__MemorySlot *_ZNKSt6vectorIN4bloc7Context10MemorySlotESaIS2_EEixEm(const struct vec_MemorySlot *this, unsigned long n)
{
  __CPROVER_assert(IS_DECL(this) || IS_RT(this), "model: one of the two symbol tables");
  __CPROVER_assert(n < (IS_DECL(this) ? g_decl_len : g_rt_len), "std::vector<MemorySlot>::operator[] const: index within size() (undefined behaviour otherwise)");
  return IS_DECL(this) ? &g_decl[n] : &g_rt[n];
}
struct vslot_citerator _ZNKSt6vectorIN4bloc7Context10MemorySlotESaIS2_EE5beginEv(const struct vec_MemorySlot *this)
{ struct vslot_citerator it; __CPROVER_assert(IS_DECL(this), "model: only the declared table is iterated"); *(void **)&it = (void *)&g_decl[0]; return it; }
struct vslot_citerator _ZNKSt6vectorIN4bloc7Context10MemorySlotESaIS2_EE3endEv(const struct vec_MemorySlot *this)
{ struct vslot_citerator it; (void)this; *(void **)&it = (void *)&g_decl[g_decl_len]; return it; }
_Bool _ZN9__gnu_cxxneIPKN4bloc7Context10MemorySlotESt6vectorIS3_SaIS3_EEEEbRKNS_17__normal_iteratorIT_T0_EESE_(const struct vslot_citerator *a, const struct vslot_citerator *b)
{ return *(void *const *)a != *(void *const *)b; }
const struct Context__MemorySlot *_ZNK9__gnu_cxx17__normal_iteratorIPKN4bloc7Context10MemorySlotESt6vectorIS3_SaIS3_EEEdeEv(const struct vslot_citerator *this)
{
  const struct Context__MemorySlot *p = *(struct Context__MemorySlot *const *)this;
  __CPROVER_assert(p >= &g_decl[0] && p < &g_decl[g_decl_len], "std::vector iterator dereferenced inside [begin, end)");
  return p;
}
struct vslot_citerator *_ZN9__gnu_cxx17__normal_iteratorIPKN4bloc7Context10MemorySlotESt6vectorIS3_SaIS3_EEEppEv(struct vslot_citerator *this)
{ *(struct Context__MemorySlot **)this = *(struct Context__MemorySlot **)this + 1; return this; }
/* push_back(MemorySlot&&): the slot is moved to the end of the runtime table (its symbol pointer and value with it) */
void _ZNSt6vectorIN4bloc7Context10MemorySlotESaIS2_EE9push_backEOS2_(struct vec_MemorySlot *this, struct Context__MemorySlot *s)
{
  __CPROVER_assert(IS_RT(this), "model: only the runtime table grows"); __CPROVER_assert(g_rt_len < RT_MAX, "model: room in the runtime table");
  g_rt[g_rt_len].symbol = s->symbol; g_rt[g_rt_len].value._flags = s->value._flags; g_rt[g_rt_len].value._type._major = s->value._type._major;
  g_rt[g_rt_len].value._type._minor = s->value._type._minor; g_rt[g_rt_len].value._type._level = s->value._type._level; g_rt[g_rt_len].value._value.i = s->value._value.i;
  s->symbol = 0; s->value._flags = 0;
  g_rt_len++; g_push_n++;
}
/* std::vector<Type> (the tuple declaration of a symbol): identity in word[0] */
void _ZNSt6vectorIN4bloc4TypeESaIS1_EEC2ERKS3_(struct vec_Type *this, const struct vec_Type *o) { CW(this, 0) = CW(o, 0); }
struct vec_Type *_ZNSt6vectorIN4bloc4TypeESaIS1_EEaSERKS3_(struct vec_Type *this, const struct vec_Type *o) { CW(this, 0) = CW(o, 0); return this; }
void VCALL_Symbol__Symbol(struct Symbol *s) { (void)s; }   /* delete symbol */

#define SYM_EQ(a, b) ((a)->_base_Type._major == (b)->_base_Type._major && (a)->_base_Type._minor == (b)->_base_Type._minor && (a)->_base_Type._level == (b)->_base_Type._level && \
                      (a)->_id == (b)->_id && STR_ID(&(a)->_name) == STR_ID(&(b)->_name) && CW(&(a)->_decl._base_vec_Type, 0) == CW(&(b)->_decl._base_vec_Type, 0) && \
                      (a)->_safety == (b)->_safety && (a)->_locked == (b)->_locked)
#define UNSET_AS(v, s) (((v)->_flags & F_NOTNULL) == 0 && (v)->_type._major == (s)->_base_Type._major && (v)->_type._minor == (s)->_base_Type._minor && (v)->_type._level == (s)->_base_Type._level)
#define SLOT_RESET(k) (g_rt[k].symbol != 0 && SYM_EQ(g_rt[k].symbol, &g_decl_sym[k]) && UNSET_AS(&g_rt[k].value, &g_decl_sym[k]))
#define SYM_INPUT(s) (s)._base_Type._major, (s)._base_Type._minor, (s)._base_Type._level, (s)._id, STR_ID(&(s)._name), CW(&(s)._decl._base_vec_Type, 0), (s)._safety, (s)._locked

void _ZNK4bloc7Context17resetChildRuntimeERS0_(struct Context *this, struct Context *runtime)
__CPROVER_requires(PTR_EQ(this, &g_decl_ctx) && PTR_EQ(runtime, &g_rt_ctx))
__CPROVER_requires(INPUT_STATE(g_decl_len, g_rt_len, SYM_INPUT(g_decl_sym[0]), SYM_INPUT(g_decl_sym[1]), SYM_INPUT(g_rt_sym[0]), SYM_INPUT(g_rt_sym[1]), SYM_INPUT(g_rt_sym[2])))
__CPROVER_requires(INPUT_STATE(VALUE_FIELDS(&g_rt[0].value), VALUE_FIELDS(&g_rt[1].value), VALUE_FIELDS(&g_rt[2].value)))
__CPROVER_requires(SET_EQ(g_decl[0].symbol, &g_decl_sym[0]) && SET_EQ(g_decl[1].symbol, &g_decl_sym[1]) && SET_EQ(g_rt[0].symbol, &g_rt_sym[0]) && SET_EQ(g_rt[1].symbol, &g_rt_sym[1]) && SET_EQ(g_rt[2].symbol, &g_rt_sym[2]))
__CPROVER_requires(g_decl_len <= DECL_MAX && g_rt_len <= RT_MAX && VALID_TAG(&g_rt[0].value) && VALID_TAG(&g_rt[1].value) && VALID_TAG(&g_rt[2].value))
__CPROVER_requires(__exc == 0 && __caught_n == 0 && g_push_n == 0 && GLOBALS_PINNED)
__CPROVER_assigns()
PROP(C01, C08) __CPROVER_ensures(OK)
/* every declared variable is unset again, under its declared symbol */
PROP(C08) __CPROVER_ensures((g_decl_len > 0 ==> SLOT_RESET(0)) && (g_decl_len > 1 ==> SLOT_RESET(1)))
/* the table covers every declared symbol, and what the earlier call added beyond them holds no value either */
PROP(C08) __CPROVER_ensures(g_rt_len >= g_decl_len && g_rt_len >= __CPROVER_old(g_rt_len) && (g_rt_len > 2 ==> (g_decl_len > 2 || (g_rt[2].value._flags & F_NOTNULL) == 0)) &&
                            ((g_rt_len > 1 && g_decl_len <= 1) ==> (g_rt[1].value._flags & F_NOTNULL) == 0) && ((g_rt_len > 0 && g_decl_len == 0) ==> (g_rt[0].value._flags & F_NOTNULL) == 0))
/* the declaration itself is not touched */
PROP(C08) __CPROVER_ensures(g_decl_len == __CPROVER_old(g_decl_len) && g_decl[0].symbol == &g_decl_sym[0] && g_decl[1].symbol == &g_decl_sym[1])
;

#include FNS_C
