/* contract of bloc::INCLUDEStatement::loadSource (C16): in a context that is not trusted, including another source file
 * is refused with a ParseError before the file name expression is evaluated and before any file is opened.
 * DOMAIN: the untrusted case only (precondition): everything after the permission test is then unreachable, and a
 * change that makes it reachable shows up as a violation (the clauses below) together with unreachable-code stubs. */
#define HAVE_STD_STRING
#define CONTAINERS_MODEL
#define CONTAINERS_STRINGS_ONLY
#include "prelude.h"
#include "containers.h"
const char *_ZN4bloc10ParseError11PARSE_ERRORE[64];
unsigned long g_exec_depth; int g_fopen_n;
unsigned long _ZNKSt6vectorIPKN4bloc9StatementESaIS3_EE4sizeEv(const void *this) { (void)this; return g_exec_depth; }
struct _IO_FILE *fopen(const char *path, const char *mode) { (void)path; (void)mode; g_fopen_n++; return 0; }
void _ZNSt9exceptionC2Ev(void *this) { (void)this; }
void _ZNSt9exceptionD2Ev(void *this) { (void)this; }
/* shared_ptr<Token> default construction (the error carries no token) */
void _ZNSt10shared_ptrIN4bloc5TokenEEC1Ev(void *this) { ((void **)this)[0] = 0; ((void **)this)[1] = 0; }
void _ZNSt10shared_ptrIN4bloc5TokenEED1Ev(void *this) { (void)this; }

#define TRUSTED(c) (((c)->_flags & 1) != 0)
void _ZN4bloc16INCLUDEStatement10loadSourceERNS_6ParserERNS_7ContextE(struct INCLUDEStatement *this, struct Parser *p, struct Context *ctx)
__CPROVER_requires(IS_FRESH(this, sizeof(*this)) && IS_FRESH(p, sizeof(*p)) && IS_FRESH(ctx, sizeof(*ctx)))
__CPROVER_requires(INPUT_STATE(g_exec_depth))
__CPROVER_requires(!TRUSTED(ctx) && __exc == 0 && __caught_n == 0 && g_eval_n == 0 && g_fopen_n == 0 && GLOBALS_PINNED)
__CPROVER_assigns()
PROP(C16) __CPROVER_ensures(!OK && __exc == 1 && __exc_type == G2C_EXC_ParseError)
PROP(C16) __CPROVER_ensures(g_eval_n == 0 && g_fopen_n == 0)
;

#include FNS_C
