/* contracts of the constant node bloc::FALSEExpression: constructor and value()
 * A constant in the program text is storage owned by the program: it must carry LVALUE, otherwise the
 * first operator that receives it as an operand recycles it as its result and the constant changes. */
#include "prelude.h"
#define CONST_NODE_INV(v) (V_LVALUE(v) && VALID_TAG(v) && V_IS(v, BOOLEAN) && !V_ISNULL(v))

void _ZN4bloc15FALSEExpressionC2Ev(struct FALSEExpression *this)
__CPROVER_requires(IS_FRESH(this, sizeof(*this)) && __exc == 0 && GLOBALS_PINNED)
__CPROVER_assigns(__CPROVER_object_whole(this), __exc, __exc_type, __exc_obj)
PROP(C01) __CPROVER_ensures(__exc == 0)
/* the constructor establishes the node invariant */
PROP(C04, C05) __CPROVER_ensures(CONST_NODE_INV(&this->v) && V_BOOL(&this->v) == 0)
;

struct Value *_ZNK4bloc15FALSEExpression5valueERNS_7ContextE(struct FALSEExpression *this, struct Context *ctx)
__CPROVER_requires(IS_FRESH(this, sizeof(*this)) && __exc == 0 && GLOBALS_PINNED)   /* ctx is not used */
__CPROVER_requires(CONST_NODE_INV(&this->v))
__CPROVER_assigns()
PROP(C01) __CPROVER_ensures(__exc == 0)
/* IC-own: the node hands out its own storage, marked as owned (LVALUE), and leaves it unchanged */
PROP(C04, C05) __CPROVER_ensures(RET == &this->v && V_LVALUE(RET))
PROP(C05) __CPROVER_ensures(this->v._flags == __CPROVER_old(this->v._flags) && this->v._value.i == __CPROVER_old(this->v._value.i) && this->v._type._major == __CPROVER_old(this->v._type._major) && this->v._type._level == __CPROVER_old(this->v._type._level))
PROP(C02) __CPROVER_ensures(V_IS(RET, BOOLEAN) && VALID_TAG(RET))
;

#include FNS_C
