/* contracts of bloc::PluginManager::bannedPlugin / unbanPlugin (C16): the process-wide list of granted module names.
 * The list (std::vector<std::string>) is modelled by a ghost array of at most NAMES_MAX names and the search loop is
 * unwound: the result is BOUNDED (at most NAMES_MAX granted names).  Names are compared through strid.h. */
#define HAVE_STD_STRING
#define CONTAINERS_MODEL
#define CONTAINERS_STRINGS_ONLY
#include "prelude_lite.h"
#include "containers.h"
#include "strid.h"

#define NAMES_MAX 3
struct std_string g_names[NAMES_MAX + 2]; unsigned long g_names_len; int g_push_n;
/* ---- ASSUMED model of std::vector<std::string> over the ghost array ---- */
#ifndef G2C_HAVE_vstr_iterator   /* the iterator type exists in the generated header only if the code uses it */
struct vstr_iterator { struct std_string *p; };
#endif
/* by position */
unsigned long _ZNKSt6vectorINSt7__cxx1112basic_stringIcSt11char_traitsIcESaIcEEESaIS5_EE4sizeEv(const struct vec_string *this) { (void)this; return g_names_len; }
_Bool _ZNKSt6vectorINSt7__cxx1112basic_stringIcSt11char_traitsIcESaIcEEESaIS5_EE5emptyEv(const struct vec_string *this) { (void)this; return g_names_len == 0; }
struct std_string *_ZNSt6vectorINSt7__cxx1112basic_stringIcSt11char_traitsIcESaIcEEESaIS5_EEixEm(struct vec_string *this, unsigned long n)
{ (void)this; __CPROVER_assert(n < g_names_len, "std::vector<std::string>::operator[]: index within size() (undefined behaviour otherwise)"); return &g_names[n]; }
const struct std_string *_ZNKSt6vectorINSt7__cxx1112basic_stringIcSt11char_traitsIcESaIcEEESaIS5_EEixEm(const struct vec_string *this, unsigned long n)
{ (void)this; __CPROVER_assert(n < g_names_len, "std::vector<std::string>::operator[] const: index within size() (undefined behaviour otherwise)"); return &g_names[n]; }
struct vstr_iterator _ZNSt6vectorINSt7__cxx1112basic_stringIcSt11char_traitsIcESaIcEEESaIS5_EE5beginEv(struct vec_string *this)
{ struct vstr_iterator it; *(void **)&it = (void *)&g_names[0]; (void)this; return it; }
struct vstr_iterator _ZNSt6vectorINSt7__cxx1112basic_stringIcSt11char_traitsIcESaIcEEESaIS5_EE3endEv(struct vec_string *this)
{ struct vstr_iterator it; *(void **)&it = (void *)&g_names[g_names_len]; (void)this; return it; }
_Bool _ZN9__gnu_cxxneIPNSt7__cxx1112basic_stringIcSt11char_traitsIcESaIcEEESt6vectorIS6_SaIS6_EEEEbRKNS_17__normal_iteratorIT_T0_EESG_(const struct vstr_iterator *a, const struct vstr_iterator *b)
{ return *(void *const *)a != *(void *const *)b; }
struct std_string *_ZNK9__gnu_cxx17__normal_iteratorIPNSt7__cxx1112basic_stringIcSt11char_traitsIcESaIcEEESt6vectorIS6_SaIS6_EEEdeEv(const struct vstr_iterator *this)
{
  struct std_string *p = *(struct std_string *const *)this;
  __CPROVER_assert(p >= &g_names[0] && p < &g_names[g_names_len], "std::vector iterator dereferenced inside [begin, end)");
  return p;
}
struct vstr_iterator *_ZN9__gnu_cxx17__normal_iteratorIPNSt7__cxx1112basic_stringIcSt11char_traitsIcESaIcEEESt6vectorIS6_SaIS6_EEEppEv(struct vstr_iterator *this)
{
  struct std_string *p = *(struct std_string **)this;
  __CPROVER_assert(p >= &g_names[0] && p < &g_names[g_names_len], "std::vector iterator incremented inside [begin, end)");
  *(struct std_string **)this = p + 1;
  return this;
}
void _ZNSt6vectorINSt7__cxx1112basic_stringIcSt11char_traitsIcESaIcEEESaIS5_EE9push_backERKS5_(struct vec_string *this, const struct std_string *s)
{
  (void)this; __CPROVER_assert(g_names_len <= NAMES_MAX, "model: room for one more name");
  STR_ID(&g_names[g_names_len]) = STR_ID(s); g_names_len++; g_push_n++;
}

#define NID(k) STR_ID(&g_names[k])
#define GRANTED_IN(len, id) (((len) > 0 && NID(0) == (id)) || ((len) > 1 && NID(1) == (id)) || ((len) > 2 && NID(2) == (id)) || ((len) > 3 && NID(3) == (id)))
#define LIST_INPUT INPUT_STATE(g_names_len, NID(0), NID(1), NID(2), NID(3))

/* bool PluginManager::bannedPlugin(const std::string& name): true unless the host granted exactly this name */
_Bool _ZN4bloc13PluginManager12bannedPluginERKNSt7__cxx1112basic_stringIcSt11char_traitsIcESaIcEEE(struct PluginManager *this, struct std_string *name)
__CPROVER_requires(IS_FRESH(this, sizeof(*this)) && IS_FRESH(name, sizeof(*name)))
__CPROVER_requires(LIST_INPUT)
__CPROVER_requires(g_names_len <= NAMES_MAX && __exc == 0 && g_push_n == 0)
__CPROVER_assigns()
__CPROVER_ensures(OK)
PROP(C16) __CPROVER_ensures(RET == !GRANTED_IN(g_names_len, STR_ID(name)))
PROP(C16) __CPROVER_ensures(g_names_len == __CPROVER_old(g_names_len) && g_push_n == 0 && NID(0) == __CPROVER_old(NID(0)) && NID(1) == __CPROVER_old(NID(1)) && NID(2) == __CPROVER_old(NID(2)))
;

/* void PluginManager::unbanPlugin(const std::string& name): grants exactly this name, keeps the others */
void _ZN4bloc13PluginManager11unbanPluginERKNSt7__cxx1112basic_stringIcSt11char_traitsIcESaIcEEE(struct PluginManager *this, struct std_string *name)
__CPROVER_requires(IS_FRESH(this, sizeof(*this)) && IS_FRESH(name, sizeof(*name)))
__CPROVER_requires(LIST_INPUT)
__CPROVER_requires(g_names_len <= NAMES_MAX && __exc == 0 && g_push_n == 0)
__CPROVER_assigns()
__CPROVER_ensures(OK)
PROP(C16) __CPROVER_ensures(GRANTED_IN(g_names_len, STR_ID(name)))
/* nothing else becomes granted, nothing is revoked */
PROP(C16) __CPROVER_ensures(g_names_len == __CPROVER_old(g_names_len) + (__CPROVER_old(GRANTED_IN(g_names_len, STR_ID(name))) ? 0 : 1) &&
                            (__CPROVER_old(g_names_len) > 0 ==> NID(0) == __CPROVER_old(NID(0))) && (__CPROVER_old(g_names_len) > 1 ==> NID(1) == __CPROVER_old(NID(1))) && (__CPROVER_old(g_names_len) > 2 ==> NID(2) == __CPROVER_old(NID(2))))
PROP(C16) __CPROVER_ensures(g_names_len > __CPROVER_old(g_names_len) ==> NID(__CPROVER_old(g_names_len)) == STR_ID(name))
;

#include FNS_C
