/* contract of bloc::OpSUBExpression::value  (operator -) */
#define PAYLOAD_IMAGINARY
#include "prelude.h"

struct Value *_ZNK4bloc15OpSUBExpression5valueERNS_7ContextE(struct OpSUBExpression *this, struct Context *ctx)
EVAL_PRE_BINOP
EVAL_ASSIGNS
ENS_ONLY_RT
ENS_EVAL_BOTH
ENS_ARITH_II((C03), SPEC_SUB)
ENS_ARITH_D((C03, UF), D_SUB)
ENS_TYPE_ARITH
ENS_FRAME1
ENS_FRAME2
ENS_OWN2
;

#include FNS_C
