/* contract of bloc::Value::clone (C05, C14): the copy has the type and nullness of the source, is never owned storage,
 * carries the same scalar, and for every payload kind holds a NEW object made by that kind's copy constructor from the
 * source's payload -- the source is left untouched and the two values share no payload object (module objects are
 * reference counted: Complex's copy constructor has its own contract, contracts/complex.c).
 * A pointer value (forall iterator) clones what it points to; pointers to pointers are outside the domain. */
#define HAVE_STD_STRING
#define ENFORCING_VALUE_CLONE
#define CONTAINERS_MODEL
#define CONTAINERS_STRINGS_ONLY
#include "prelude.h"
#include "containers.h"
enum { K_NONE, K_COLLECTION, K_TUPLE, K_COMPLEX, K_TABCHAR, K_LITERAL };
int g_copy_n, g_copy_kind; void *g_copy_dst; const void *g_copy_src;
#define COPY_STUB(name, kind) void name(void *this, const void *o) { g_copy_n++; g_copy_kind = kind; g_copy_dst = this; g_copy_src = o; }
COPY_STUB(_ZN4bloc10CollectionC1ERKS0_, K_COLLECTION)
COPY_STUB(_ZN4bloc5TupleC1ERKS0_, K_TUPLE)
COPY_STUB(_ZN4bloc7ComplexC1ERKS0_, K_COMPLEX)
#undef CW
#define CW(p, k) (((unsigned long *)(p))[k])
void _ZNSt6vectorIcSaIcEEC1ERKS1_(struct vec_char *this, const struct vec_char *o) { g_copy_n++; g_copy_kind = K_TABCHAR; g_copy_dst = this; g_copy_src = o; }
/* the std::string copy constructor of containers.h is used for Literal: the copy is recognised by its content words */
struct Value g_pointee;

#define SRC_IS(M) (V_IS(this, M) && V_LEVEL(this) == 0 && !V_ISNULL(this))
#define COPIED(kind) (g_copy_n == 1 && g_copy_kind == (kind) && g_copy_src == __CPROVER_old(this->_value.p) && RET._value.p == g_copy_dst && g_copy_dst != __CPROVER_old(this->_value.p))
struct Value _ZNK4bloc5Value5cloneEv(struct Value *this)
__CPROVER_requires(IS_FRESH(this, sizeof(*this)))
__CPROVER_requires(VALID_TAG(this) && __exc == 0 && __caught_n == 0 && g_copy_n == 0 && GLOBALS_PINNED)
/* a non-null value of a payload kind owns a payload object; a pointer points to a non-pointer value */
__CPROVER_requires(((V_LEVEL(this) > 0 || V_IS(this, IMAGINARY) || V_IS(this, LITERAL) || V_IS(this, COMPLEX) || V_IS(this, TABCHAR) || V_IS(this, ROWTYPE)) && !V_ISNULL(this)) ==> IS_FRESH(this->_value.p, 64))
__CPROVER_requires(!(V_IS(this, POINTER) && V_LEVEL(this) == 0))
__CPROVER_assigns()
PROP(C01) __CPROVER_ensures(OK)
/* type and nullness are kept; the copy is never owned storage */
PROP(C05, C14) __CPROVER_ensures(V_MAJOR(&RET) == V_MAJOR(this) && V_MINOR(&RET) == V_MINOR(this) && V_LEVEL(&RET) == V_LEVEL(this) && RET._flags == (this->_flags & F_NOTNULL))
PROP(C05, C14) __CPROVER_ensures(V_ISNULL(this) ==> g_copy_n == 0)
/* scalars are copied by value */
PROP(C05, C14) __CPROVER_ensures(SRC_IS(INTEGER) ==> (RET._value.i == this->_value.i && g_copy_n == 0))
PROP(C05, C14) __CPROVER_ensures(SRC_IS(BOOLEAN) ==> (RET._value.b == this->_value.b && g_copy_n == 0))
PROP(C05, C14) __CPROVER_ensures(SRC_IS(NUMERIC) ==> (RET._value.i == this->_value.i && g_copy_n == 0)   /* the same 64 bits */)
/* every payload kind: a new object, copy-constructed from the source's payload */
PROP(C05, C14) __CPROVER_ensures((V_LEVEL(this) > 0 && !V_ISNULL(this)) ==> COPIED(K_COLLECTION))
PROP(C05, C14) __CPROVER_ensures(SRC_IS(ROWTYPE) ==> COPIED(K_TUPLE))
PROP(C05, C14, C17) __CPROVER_ensures(SRC_IS(COMPLEX) ==> COPIED(K_COMPLEX))
PROP(C05, C14) __CPROVER_ensures(SRC_IS(TABCHAR) ==> COPIED(K_TABCHAR))
PROP(C05, C14) __CPROVER_ensures(SRC_IS(LITERAL) ==> (RET._value.p != this->_value.p && __CPROVER_r_ok(RET._value.p, 32) && CW(RET._value.p, 0) == CW(this->_value.p, 0) && CW(RET._value.p, 1) == CW(this->_value.p, 1)))
PROP(C05, C14) __CPROVER_ensures(SRC_IS(IMAGINARY) ==> (RET._value.p != this->_value.p && __CPROVER_r_ok(RET._value.p, 16) && ((unsigned long *)RET._value.p)[0] == ((unsigned long *)this->_value.p)[0] && ((unsigned long *)RET._value.p)[1] == ((unsigned long *)this->_value.p)[1]))
/* the source is not modified */
PROP(C05) __CPROVER_ensures(this->_flags == __CPROVER_old(this->_flags) && this->_value.i == __CPROVER_old(this->_value.i) && V_MAJOR(this) == __CPROVER_old(V_MAJOR(this)) && V_LEVEL(this) == __CPROVER_old(V_LEVEL(this)))
;

#include FNS_C
