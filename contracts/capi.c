/* contracts of the typed accessors of the C API (blocc/bloc_capi.cpp), from docs/BLOC-C-API.md and bloc_capi.h:
 * an accessor succeeds exactly on the matching type; it then yields NULL data for a null value and the
 * address of the payload otherwise; on a mismatch it returns bloc_false with bloc_errno() set; nothing
 * (no C++ exception) reaches the C caller; the value is left unchanged. */
#define PAYLOAD_LITERAL
#define PAYLOAD_TABCHAR
#include "prelude.h"

struct { const char *msg; int no; } _ZL10bloc_error;     /* static bloc_error of bloc_capi.cpp */
const char *VCALL_Error_what(const struct Error *e) { (void)e; return "runtime error"; }
/* const char* std::string::data() const / std::vector<char>::data(), size()  (ASSUMED: pure, non-null) */
char g_strdata[4], g_vecdata[4];
const char *_ZNKSt7__cxx1112basic_stringIcSt11char_traitsIcESaIcEE4dataEv(const struct std_string *this)
{ __CPROVER_assert(__CPROVER_r_ok(this, 32), "std::string::data() on a live string"); return g_strdata; }
char *_ZNSt6vectorIcSaIcEE4dataEv(struct vec_char *this)
{ __CPROVER_assert(__CPROVER_r_ok(this, 24), "std::vector<char>::data() on a live vector"); return g_vecdata; }
unsigned long _ZNKSt6vectorIcSaIcEE4sizeEv(const struct vec_char *this)
{ __CPROVER_assert(__CPROVER_r_ok(this, 24), "std::vector<char>::size() on a live vector"); return __g2c_nondet_ulong(); }

#define VV ((struct Value *)v)
#define UNCHANGED (VV->_flags == __CPROVER_old(VV->_flags) && VV->_value.i == __CPROVER_old(VV->_value.i) && V_MAJOR(VV) == __CPROVER_old(V_MAJOR(VV)) && V_LEVEL(VV) == __CPROVER_old(V_LEVEL(VV)) && V_MINOR(VV) == __CPROVER_old(V_MINOR(VV)))
#define PRE_VALUE \
  __CPROVER_requires(IS_FRESH(v, sizeof(struct Value)) && IS_FRESH(buf, sizeof(void *)) && VALID_TAG(VV) && __exc == 0 && __caught_n == 0 && GLOBALS_PINNED) \
  __CPROVER_requires(INPUT_STATE(_ZL10bloc_error.no)) \
  PAYLOADS_OF_V
#define PAYLOADS_OF_V \
  __CPROVER_requires((V_IS(VV, LITERAL) && !V_ISNULL(VV)) ==> IS_FRESH(VV->_value.p, sizeof(struct std_string))) \
  __CPROVER_requires((V_IS(VV, TABCHAR) && !V_ISNULL(VV)) ==> IS_FRESH(VV->_value.p, sizeof(struct vec_char)))
#define ENS_ACCESSOR(M, DATA) \
  PROP(C01, C15) __CPROVER_ensures(__exc == 0) \
  PROP(C15) __CPROVER_ensures((RET == 1) == V_IS(VV, M)) \
  PROP(C15) __CPROVER_ensures(RET == 1 ==> (V_ISNULL(VV) ? *buf == 0 : *buf == (DATA))) \
  PROP(C15) __CPROVER_ensures(RET != 1 ==> (RET == 0 && _ZL10bloc_error.no != 0)) \
  PROP(C15) __CPROVER_ensures(UNCHANGED)

char bloc_boolean(struct bloc_value *v, char **buf)
__CPROVER_assigns(*buf, _ZL10bloc_error)
PRE_VALUE
ENS_ACCESSOR(BOOLEAN, (void *)&VV->_value)
;

char bloc_integer(struct bloc_value *v, long **buf)
__CPROVER_assigns(*buf, _ZL10bloc_error)
PRE_VALUE
ENS_ACCESSOR(INTEGER, (void *)&VV->_value)
;

char bloc_numeric(struct bloc_value *v, double **buf)
__CPROVER_assigns(*buf, _ZL10bloc_error)
PRE_VALUE
ENS_ACCESSOR(NUMERIC, (void *)&VV->_value)
;

char bloc_literal(struct bloc_value *v, char **buf)
__CPROVER_assigns(*buf, _ZL10bloc_error)
PRE_VALUE
ENS_ACCESSOR(LITERAL, (void *)g_strdata)
;

char bloc_tabchar(struct bloc_value *v, char **buf, unsigned *len)
__CPROVER_assigns(*buf, *len, _ZL10bloc_error)
PRE_VALUE
__CPROVER_requires(IS_FRESH(len, sizeof(unsigned)))
ENS_ACCESSOR(TABCHAR, (void *)g_vecdata)
;

/* bloc_type bloc_value_type(bloc_value*), bloc_bool bloc_value_isnull(bloc_value*) : pure */
char bloc_value_isnull(struct bloc_value *v)
__CPROVER_requires(IS_FRESH(v, sizeof(struct Value)) && VALID_TAG(VV) && __exc == 0 && GLOBALS_PINNED)
__CPROVER_assigns()
PROP(C01, C15) __CPROVER_ensures(__exc == 0)
PROP(C15) __CPROVER_ensures((RET == 1) == V_ISNULL(VV) && (RET == 0 || RET == 1))
PROP(C15) __CPROVER_ensures(UNCHANGED)
;

#include FNS_C
