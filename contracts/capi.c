/* contracts of the typed accessors of the C API (blocc/bloc_capi.cpp), from docs/BLOC-C-API.md and bloc_capi.h:
 * an accessor succeeds exactly on the matching type; it then yields NULL data for a null value and the
 * address of the payload otherwise; on a mismatch it returns bloc_false with bloc_errno() set; nothing
 * (no C++ exception) reaches the C caller; the value is left unchanged. */
#define PAYLOAD_LITERAL
#define PAYLOAD_TABCHAR
#include "prelude.h"

struct { const char *msg; int no; } _ZL10bloc_error;     /* static bloc_error of bloc_capi.cpp */
const char *VCALL_Error_what(const struct Error *e) { (void)e; return "runtime error"; }
/* const char* std::string::data() const / std::vector<char>::data(), size()  (ASSUMED: pure, non-null) */
char g_strdata[4], g_vecdata[4];
const char *_ZNKSt7__cxx1112basic_stringIcSt11char_traitsIcESaIcEE4dataEv(const struct std_string *this)
{ __CPROVER_assert(__CPROVER_r_ok(this, 32), "std::string::data() on a live string"); return g_strdata; }
char *_ZNSt6vectorIcSaIcEE4dataEv(struct vec_char *this)
{ __CPROVER_assert(__CPROVER_r_ok(this, 24), "std::vector<char>::data() on a live vector"); return g_vecdata; }
unsigned long _ZNKSt6vectorIcSaIcEE4sizeEv(const struct vec_char *this)
{ __CPROVER_assert(__CPROVER_r_ok(this, 24), "std::vector<char>::size() on a live vector"); return __g2c_nondet_ulong(); }

#define VV ((struct Value *)v)
#define UNCHANGED (VV->_flags == __CPROVER_old(VV->_flags) && VV->_value.i == __CPROVER_old(VV->_value.i) && V_MAJOR(VV) == __CPROVER_old(V_MAJOR(VV)) && V_LEVEL(VV) == __CPROVER_old(V_LEVEL(VV)) && V_MINOR(VV) == __CPROVER_old(V_MINOR(VV)))
#define PRE_VALUE \
  __CPROVER_requires(IS_FRESH(v, sizeof(struct Value)) && IS_FRESH(buf, sizeof(void *)) && VALID_TAG(VV) && __exc == 0 && __caught_n == 0 && GLOBALS_PINNED) \
  __CPROVER_requires(INPUT_STATE(_ZL10bloc_error.no)) \
  PAYLOADS_OF_V
#define PAYLOADS_OF_V \
  __CPROVER_requires((V_IS(VV, LITERAL) && !V_ISNULL(VV)) ==> IS_FRESH(VV->_value.p, sizeof(struct std_string))) \
  __CPROVER_requires((V_IS(VV, TABCHAR) && !V_ISNULL(VV)) ==> IS_FRESH(VV->_value.p, sizeof(struct vec_char)))
#define ENS_ACCESSOR(M, DATA) \
  PROP(C01, C15) __CPROVER_ensures(__exc == 0) \
  PROP(C15) __CPROVER_ensures((RET == 1) == V_IS(VV, M)) \
  PROP(C15) __CPROVER_ensures(RET == 1 ==> (V_ISNULL(VV) ? *buf == 0 : *buf == (DATA))) \
  PROP(C15) __CPROVER_ensures(RET != 1 ==> (RET == 0 && _ZL10bloc_error.no != 0)) \
  PROP(C15) __CPROVER_ensures(UNCHANGED)

char bloc_boolean(struct bloc_value *v, char **buf)
__CPROVER_assigns(*buf, _ZL10bloc_error)
PRE_VALUE
ENS_ACCESSOR(BOOLEAN, (void *)&VV->_value)
;

char bloc_integer(struct bloc_value *v, long **buf)
__CPROVER_assigns(*buf, _ZL10bloc_error)
PRE_VALUE
ENS_ACCESSOR(INTEGER, (void *)&VV->_value)
;

char bloc_numeric(struct bloc_value *v, double **buf)
__CPROVER_assigns(*buf, _ZL10bloc_error)
PRE_VALUE
ENS_ACCESSOR(NUMERIC, (void *)&VV->_value)
;

char bloc_literal(struct bloc_value *v, char **buf)
__CPROVER_assigns(*buf, _ZL10bloc_error)
PRE_VALUE
ENS_ACCESSOR(LITERAL, (void *)g_strdata)
;

char bloc_tabchar(struct bloc_value *v, char **buf, unsigned *len)
__CPROVER_assigns(*buf, *len, _ZL10bloc_error)
PRE_VALUE
__CPROVER_requires(IS_FRESH(len, sizeof(unsigned)))
ENS_ACCESSOR(TABCHAR, (void *)g_vecdata)
;

/* bloc_type bloc_value_type(bloc_value*), bloc_bool bloc_value_isnull(bloc_value*) : pure */
char bloc_value_isnull(struct bloc_value *v)
__CPROVER_requires(IS_FRESH(v, sizeof(struct Value)) && VALID_TAG(VV) && __exc == 0 && GLOBALS_PINNED)
__CPROVER_assigns()
PROP(C01, C15) __CPROVER_ensures(__exc == 0)
PROP(C15) __CPROVER_ensures((RET == 1) == V_ISNULL(VV) && (RET == 0 || RET == 1))
PROP(C15) __CPROVER_ensures(UNCHANGED)
;

/* ---- table / tuple / imaginary accessors: same rule (matching type => success, NULL data for a null value) ---- */
#ifdef CAPI_MORE
#define TABLE_OK(v) (V_LEVEL(v) > 0)
#define TUPLE_OK(v) (V_IS(v, ROWTYPE) && V_LEVEL(v) == 0)
char bloc_table(struct bloc_value *v, struct bloc_array **buf)
__CPROVER_assigns(*buf, _ZL10bloc_error)
PRE_VALUE
PROP(C01, C15) __CPROVER_ensures(__exc == 0)
PROP(C15) __CPROVER_ensures((RET == 1) == TABLE_OK(VV))
PROP(C15) __CPROVER_ensures(RET == 1 ==> (V_ISNULL(VV) ? *buf == 0 : (void *)*buf == VV->_value.p))
PROP(C15) __CPROVER_ensures(RET != 1 ==> (RET == 0 && _ZL10bloc_error.no != 0))
PROP(C15) __CPROVER_ensures(UNCHANGED)
;
char bloc_tuple(struct bloc_value *v, struct bloc_row **buf)
__CPROVER_assigns(*buf, _ZL10bloc_error)
PRE_VALUE
PROP(C01, C15) __CPROVER_ensures(__exc == 0)
PROP(C15) __CPROVER_ensures((RET == 1) == TUPLE_OK(VV))
PROP(C15) __CPROVER_ensures(RET == 1 ==> (V_ISNULL(VV) ? *buf == 0 : (void *)*buf == VV->_value.p))
PROP(C15) __CPROVER_ensures(RET != 1 ==> (RET == 0 && _ZL10bloc_error.no != 0))
PROP(C15) __CPROVER_ensures(UNCHANGED)
;
char bloc_imaginary(struct bloc_value *v, struct bloc_pair **buf)
__CPROVER_assigns(*buf, _ZL10bloc_error)
PRE_VALUE
PROP(C01, C15) __CPROVER_ensures(__exc == 0)
PROP(C15) __CPROVER_ensures((RET == 1) == (V_IS(VV, IMAGINARY) && V_LEVEL(VV) == 0))
PROP(C15) __CPROVER_ensures(RET == 1 ==> (V_ISNULL(VV) ? *buf == 0 : (void *)*buf == VV->_value.p))
PROP(C15) __CPROVER_ensures(RET != 1 ==> (RET == 0 && _ZL10bloc_error.no != 0))
PROP(C15) __CPROVER_ensures(UNCHANGED)
;
/* bloc_type bloc_value_type(bloc_value*) : pure, reports the major type and the table level */
struct bloc_type bloc_value_type(struct bloc_value *v)
__CPROVER_requires(IS_FRESH(v, sizeof(struct Value)) && VALID_TAG(VV) && __exc == 0 && GLOBALS_PINNED)
__CPROVER_assigns()
PROP(C01, C15) __CPROVER_ensures(__exc == 0)
PROP(C15) __CPROVER_ensures(RET.major == V_MAJOR(VV) && RET.ndim == V_LEVEL(VV))
PROP(C15) __CPROVER_ensures(UNCHANGED)
;
/* void bloc_assign_null(bloc_value*) : the value becomes a null of its own type and keeps its ownership mark */
void bloc_assign_null(struct bloc_value *v)
__CPROVER_requires(IS_FRESH(v, sizeof(struct Value)) && VALID_TAG(VV) && __exc == 0 && __caught_n == 0 && GLOBALS_PINNED)
__CPROVER_assigns(__CPROVER_object_whole(v))
PROP(C01, C15) __CPROVER_ensures(__exc == 0)
PROP(C15) __CPROVER_ensures(V_ISNULL(VV) && V_MAJOR(VV) == __CPROVER_old(V_MAJOR(VV)) && V_MINOR(VV) == __CPROVER_old(V_MINOR(VV)) && V_LEVEL(VV) == __CPROVER_old(V_LEVEL(VV)) && V_LVALUE(VV) == __CPROVER_old(V_LVALUE(VV)))
;
/* bloc_value * bloc_create_integer(int64_t) / bloc_create_boolean / bloc_create_numeric : a new non-null value the caller owns */
struct bloc_value *bloc_create_integer(long x)
__CPROVER_requires(__exc == 0 && GLOBALS_PINNED)
__CPROVER_assigns()
PROP(C01, C15) __CPROVER_ensures(__exc == 0 && RET != 0)
PROP(C15) __CPROVER_ensures(V_IS((struct Value *)RET, INTEGER) && V_LEVEL((struct Value *)RET) == 0 && !V_ISNULL((struct Value *)RET) && !V_LVALUE((struct Value *)RET) && ((struct Value *)RET)->_value.i == x)
;
struct bloc_value *bloc_create_numeric(double x)
__CPROVER_requires(__exc == 0 && GLOBALS_PINNED)
__CPROVER_assigns()
PROP(C01, C15) __CPROVER_ensures(__exc == 0 && RET != 0)
PROP(C15) __CPROVER_ensures(V_IS((struct Value *)RET, NUMERIC) && V_LEVEL((struct Value *)RET) == 0 && !V_ISNULL((struct Value *)RET) && !V_LVALUE((struct Value *)RET) && ((struct Value *)RET)->_value.i == *(long *)&x)
;
/* bloc_bool is bloc_true (1) or bloc_false (0) */
struct bloc_value *bloc_create_boolean(char x)
__CPROVER_requires((x == 0 || x == 1) && __exc == 0 && GLOBALS_PINNED)
__CPROVER_assigns()
PROP(C01, C15) __CPROVER_ensures(__exc == 0 && RET != 0)
PROP(C15) __CPROVER_ensures(V_IS((struct Value *)RET, BOOLEAN) && V_LEVEL((struct Value *)RET) == 0 && !V_ISNULL((struct Value *)RET) && !V_LVALUE((struct Value *)RET) && ((struct Value *)RET)->_value.b == (x != 0))
;
/* bloc_value * bloc_create_null(bloc_type_major) : a null of that type (an unknown code gives the untyped null) */
struct bloc_value *bloc_create_null(unsigned type)
__CPROVER_requires(__exc == 0 && GLOBALS_PINNED)
__CPROVER_assigns()
PROP(C01, C15) __CPROVER_ensures(__exc == 0 && RET != 0)
PROP(C15) __CPROVER_ensures(V_ISNULL((struct Value *)RET) && V_LEVEL((struct Value *)RET) == 0 && !V_LVALUE((struct Value *)RET) && V_MAJOR((struct Value *)RET) == (type >= BOOLEAN && type <= IMAGINARY ? type : NO_TYPE))
;
#endif

#include FNS_C
