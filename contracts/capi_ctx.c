/* contracts of the context / evaluation entry points of the C API (blocc/bloc_capi.cpp, docs/BLOC-C-API.md) (C15, C01):
 * bloc_ctx_store_variable, bloc_ctx_load_variable, bloc_evaluate_expression, bloc_drop_returned, bloc_free_value,
 * bloc_create_literal, bloc_expression_type.  No C++ exception reaches the C caller: an error of the interpreter
 * becomes a failure result with bloc_errno() set; values are handed over exactly as the interface says. */
#define PAYLOAD_LITERAL
#define HAVE_STD_STRING
#define CONTAINERS_MODEL
#ifndef JOB_TUPLE
#define CONTAINERS_STRINGS_ONLY
#endif
int g_del_n; void *g_del_obj;
#define G2C_DELETE_HOOK(p) if ((p) != 0) { g_del_n++; g_del_obj = (void *)(p); }
struct std_string *g_built; const char *g_built_from;
#define STR_FROM_CSTR_HOOK(str, cstr) g_built = (str); g_built_from = (cstr);
#include "prelude.h"
#include "containers.h"
struct { const char *msg; int no; } _ZL10bloc_error;     /* static bloc_error of bloc_capi.cpp */
const char *VCALL_Error_what(const struct Error *e) { (void)e; return "runtime error"; }
#define ERRNO (_ZL10bloc_error.no)
#define VV ((struct Value *)v)

#ifdef JOB_STORE
/* Value& Context::storeVariable(unsigned id, Value&&): contract in ctx_store.c (job ctx_storeVariable); here: it may refuse with a RuntimeError */
int g_store_n; unsigned g_store_id; const void *g_store_val, *g_store_ctx; _Bool g_store_throws; int g_store_errno;
struct Value *_ZN4bloc7Context13storeVariableEjONS_5ValueE(struct Context *this, unsigned id, struct Value *e)
{
  g_store_n++; g_store_id = id; g_store_val = e; g_store_ctx = this;
  if (g_store_throws) { struct RuntimeError *x = __CPROVER_allocate(sizeof(struct RuntimeError), 0); x->no = g_store_errno; __cxa_throw(x, G2C_EXC_RuntimeError, 0); return 0; }
  return e;
}
char bloc_ctx_store_variable(struct bloc_context *ctx, const struct bloc_symbol *symbol, struct bloc_value *v)
__CPROVER_requires(IS_FRESH(ctx, sizeof(struct Context)) && IS_FRESH(symbol, sizeof(struct Symbol)) && IS_FRESH(v, sizeof(struct Value)))
__CPROVER_requires(INPUT_STATE(g_store_throws, g_store_errno, ERRNO))
__CPROVER_requires(g_store_errno > 0 && __exc == 0 && __caught_n == 0 && g_store_n == 0 && GLOBALS_PINNED)
__CPROVER_assigns()
PROP(C01, C15) __CPROVER_ensures(__exc == 0)
/* the value is stored once, in that context, under the id of that symbol */
PROP(C15) __CPROVER_ensures(g_store_n == 1 && g_store_ctx == (const void *)ctx && g_store_val == (const void *)v && g_store_id == ((const struct Symbol *)symbol)->_id)
/* a refusal is a failure result with the error number recorded; success leaves the last error alone */
PROP(C15) __CPROVER_ensures(g_store_throws ==> (RET == 0 && ERRNO == g_store_errno))
PROP(C15) __CPROVER_ensures(!g_store_throws ==> (RET == 1 && ERRNO == __CPROVER_old(ERRNO)))
;
#endif
#ifdef JOB_LOAD
struct Context__MemorySlot g_slot; unsigned long g_slot_idx;
struct Context__MemorySlot *_ZNSt6vectorIN4bloc7Context10MemorySlotESaIS2_EEixEm(void *this, unsigned long n) { (void)this; g_slot_idx = n; return &g_slot; }
struct bloc_value *bloc_ctx_load_variable(struct bloc_context *ctx, const struct bloc_symbol *symbol)
__CPROVER_requires(IS_FRESH(ctx, sizeof(struct Context)) && IS_FRESH(symbol, sizeof(struct Symbol)) && __exc == 0 && GLOBALS_PINNED)
__CPROVER_assigns()
PROP(C01, C15) __CPROVER_ensures(__exc == 0)
/* the variable itself (not a copy): what the host writes through it is what scripts read */
PROP(C15) __CPROVER_ensures(RET == (struct bloc_value *)&g_slot.value && g_slot_idx == ((const struct Symbol *)symbol)->_id)
;
#endif
#ifdef JOB_EVAL
struct bloc_value *bloc_evaluate_expression(struct bloc_context *ctx, struct bloc_expression *e)
__CPROVER_requires(IS_FRESH(ctx, sizeof(struct Context)) && IS_FRESH(e, sizeof(struct Expression)))
__CPROVER_requires(INPUT_STATE(ERRNO))
__CPROVER_requires(__exc == 0 && __caught_n == 0 && g_eval_n == 0 && GLOBALS_PINNED)
EVAL_ASSIGNS
PROP(C01, C15) __CPROVER_ensures(__exc == 0)
/* the expression is evaluated once in that context; its value is handed out as it is, an error becomes NULL + errno */
PROP(C15) __CPROVER_ensures(g_eval_n <= 1 && (g_eval_n == 1 ==> (g_eval_node[0] == (struct Expression *)e && RET == (struct bloc_value *)g_eval_ret[0])))
PROP(C15) __CPROVER_ensures(g_eval_n == 0 ==> RET == 0)
;
#endif
#ifdef JOB_DROP
/* Value * Context::dropReturned(): contract below (job ctx_dropReturned) */
int g_drop_n; const void *g_drop_ctx; struct Value g_dropped;
struct Value *_ZN4bloc7Context12dropReturnedEv(struct Context *this) { g_drop_n++; g_drop_ctx = this; return &g_dropped; }
struct bloc_value *bloc_drop_returned(struct bloc_context *ctx)
__CPROVER_requires(IS_FRESH(ctx, sizeof(struct Context)) && __exc == 0 && g_del_n == 0 && g_drop_n == 0 && GLOBALS_PINNED)
__CPROVER_assigns()
PROP(C01, C15) __CPROVER_ensures(__exc == 0)
/* what the context hands over is what the host gets; nothing is destroyed on the way */
PROP(C15) __CPROVER_ensures(g_drop_n == 1 && g_drop_ctx == (const void *)ctx && RET == (struct bloc_value *)&g_dropped && g_del_n == 0)
;
#endif
#ifdef JOB_CTX_DROP
struct Value *_ZN4bloc7Context12dropReturnedEv(struct Context *this)
__CPROVER_requires(IS_FRESH(this, sizeof(*this)) && __exc == 0 && g_del_n == 0 && GLOBALS_PINNED)
__CPROVER_assigns(__CPROVER_object_whole(this))
PROP(C01, C15, C17) __CPROVER_ensures(__exc == 0)
/* ownership moves to the caller: the context forgets the value and does not destroy it */
PROP(C15, C17) __CPROVER_ensures(RET == __CPROVER_old(this->_returned) && this->_returned == 0 && g_del_n == 0)
;
#endif
#ifdef JOB_FREE
int g_clear_n; const void *g_clear_obj; _Bool g_was_notnull;
void _ZN4bloc5Value6_clearEv(struct Value *this) { g_clear_n++; g_clear_obj = this; this->_flags &= ~F_NOTNULL; }
void bloc_free_value(struct bloc_value *v)
__CPROVER_requires(INPUT_STATE(g_del_obj, g_was_notnull))
__CPROVER_requires(v != 0 ==> IS_FRESH(v, sizeof(struct Value)))
__CPROVER_requires(v != 0 ==> VALID_TAG(VV))
__CPROVER_requires(v != 0 ==> g_was_notnull == !V_ISNULL(VV))
__CPROVER_requires(__exc == 0 && g_del_n == 0 && g_clear_n == 0 && GLOBALS_PINNED)
__CPROVER_assigns()
PROP(C01, C15) __CPROVER_ensures(__exc == 0)
/* NULL is tolerated; a value is destroyed exactly once: payload released when it has one, holder freed */
PROP(C15) __CPROVER_ensures(v == 0 ==> (g_del_n == 0 && g_clear_n == 0))
PROP(C15) __CPROVER_ensures(v != 0 ==> (g_del_n == 1 && g_del_obj == (void *)v && g_clear_n == (g_was_notnull ? 1 : 0)))
;
#endif
#ifdef JOB_CREATE_LITERAL
struct bloc_value *bloc_create_literal(const char *s)
__CPROVER_requires(s != 0 ==> IS_FRESH(s, 4))
__CPROVER_requires(__exc == 0 && g_built == 0 && GLOBALS_PINNED)
__CPROVER_assigns(g_built, g_built_from)
PROP(C01, C15) __CPROVER_ensures(__exc == 0 && RET != 0)
/* a new string value the caller owns: null for NULL, otherwise holding the string built from the argument */
PROP(C15) __CPROVER_ensures(V_IS((struct Value *)RET, LITERAL) && !V_LVALUE((struct Value *)RET) && V_ISNULL((struct Value *)RET) == (s == 0))
PROP(C15) __CPROVER_ensures(s != 0 ==> (g_built != 0 && ((struct Value *)RET)->_value.p == (void *)g_built && g_built_from == s))
;
#endif
#ifdef JOB_EXPR_TYPE
struct bloc_type bloc_expression_type(struct bloc_context *ctx, struct bloc_expression *e)
__CPROVER_requires(IS_FRESH(ctx, sizeof(struct Context)) && IS_FRESH(e, sizeof(struct Expression)) && __exc == 0 && g_type_n == 0 && GLOBALS_PINNED)
__CPROVER_assigns(g_type_n, __CPROVER_object_whole(g_stype), __CPROVER_object_whole(g_type_node))
PROP(C01, C15) __CPROVER_ensures(__exc == 0)
/* the compiled type of that expression in that context: major type and table dimension */
PROP(C15) __CPROVER_ensures(g_type_n == 1 && g_type_node[0] == (struct Expression *)e && RET.major == ST1->_major && RET.ndim == ST1->_level)
;
#endif

#ifdef JOB_PARSE_EXEC
/* static Executable * Parser::parse(Context&, StreamReader&, bool trace): compiles a whole text or throws a ParseError.
 * ASSUMED: a ParseError that leaves the parser carries the token it stopped at (ParseStatement::statement attaches
 * the statement's first token to an error that has none, parse_statement.cpp:189-192). */
struct Token g_err_tok; struct Executable g_exec; _Bool g_parse_throws; int g_parse_errno, g_parse_n; const void *g_parse_ctx;
struct ParseError g_pe;
void _ZN4bloc12StringReaderC1EPKc(void *this, const char *text) { (void)this; (void)text; }
void _ZN4bloc12StringReaderD1Ev(void *this) { (void)this; }
struct Executable *_ZN4bloc6Parser5parseERNS_7ContextERNS0_12StreamReaderEb(struct Context *ctx, void *reader, _Bool trace)
{
  (void)reader; (void)trace; g_parse_n++; g_parse_ctx = ctx;
  if (g_parse_throws) { g_pe.no = g_parse_errno; *(struct Token **)&g_pe.token = &g_err_tok; __cxa_throw(&g_pe, G2C_EXC_ParseError, 0); return 0; }
  return &g_exec;
}
struct Token *_ZNKSt19__shared_ptr_accessIN4bloc5TokenELN9__gnu_cxx12_Lock_policyE2ELb0ELb0EEptEv(const void *this) { return *(struct Token *const *)this; }
struct bloc_executable *bloc_parse_executable(struct bloc_context *ctx, const char *text, struct bloc_parsing_position *pos)
__CPROVER_requires(IS_FRESH(ctx, sizeof(struct Context)) && IS_FRESH(text, 4))
__CPROVER_requires(INPUT_STATE(g_parse_throws, g_parse_errno, ERRNO, g_err_tok.line, g_err_tok.column))
__CPROVER_requires(pos != 0 ==> IS_FRESH(pos, sizeof(*pos)))
__CPROVER_requires(g_parse_errno > 0 && __exc == 0 && __caught_n == 0 && g_parse_n == 0 && GLOBALS_PINNED)
__CPROVER_assigns()
PROP(C01, C15) __CPROVER_ensures(__exc == 0)
PROP(C15) __CPROVER_ensures(g_parse_n == 1 && g_parse_ctx == (const void *)ctx)
/* accepted: the compiled program, and the last error is cleared; rejected: NULL, the error number, and the position when asked for (a NULL position is tolerated) */
PROP(C15) __CPROVER_ensures(!g_parse_throws ==> (RET == (struct bloc_executable *)&g_exec && ERRNO == 0))
PROP(C15) __CPROVER_ensures(g_parse_throws ==> (RET == 0 && ERRNO == g_parse_errno && (pos != 0 ==> (pos->lno == g_err_tok.line && pos->pno == g_err_tok.column))))
;
#endif
#ifdef JOB_EXECUTE
int g_run_n; _Bool g_run_throws; int g_run_ret, g_run_errno; const void *g_run_obj;
int _ZN4bloc10Executable3runEv(struct Executable *this)
{
  g_run_n++; g_run_obj = this;
  if (g_run_throws) { struct RuntimeError *x = __CPROVER_allocate(sizeof(struct RuntimeError), 0); x->no = g_run_errno; __cxa_throw(x, G2C_EXC_RuntimeError, 0); return 0; }
  return g_run_ret;
}
char bloc_execute(struct bloc_executable *exec)
__CPROVER_requires(IS_FRESH(exec, sizeof(struct Executable)))
__CPROVER_requires(INPUT_STATE(g_run_throws, g_run_ret, g_run_errno, ERRNO))
__CPROVER_requires(g_run_errno > 0 && __exc == 0 && __caught_n == 0 && g_run_n == 0 && GLOBALS_PINNED)
__CPROVER_assigns()
PROP(C01, C15) __CPROVER_ensures(__exc == 0)
/* the program runs once; success exactly when it ran to its end without error; an error is a failure with the error number recorded */
PROP(C15) __CPROVER_ensures(g_run_n == 1 && g_run_obj == (const void *)exec)
PROP(C15) __CPROVER_ensures((RET == 1) == (!g_run_throws && g_run_ret == 0))
PROP(C15) __CPROVER_ensures(RET == 0 || RET == 1)
PROP(C15) __CPROVER_ensures(g_run_throws ==> ERRNO == g_run_errno)
;
#endif
#ifdef JOB_TUPLE
/* bloc_tuple_size / bloc_tuple_item over the abstract std::vector<Value> (size + one ghost element) */
#define TUP ((struct Tuple *)row)
#define TUP_SIZE CW(&TUP->v, 1)   /* size() of the tuple's std::vector<Value> in the abstract model */
unsigned bloc_tuple_size(struct bloc_row *row)
__CPROVER_requires(IS_FRESH(row, sizeof(struct Tuple)) && __exc == 0 && GLOBALS_PINNED)
__CPROVER_assigns()
PROP(C01, C15) __CPROVER_ensures(__exc == 0 && RET == (unsigned)TUP_SIZE)
;
char bloc_tuple_item(struct bloc_row *row, unsigned index, struct bloc_value **v)
__CPROVER_requires(IS_FRESH(row, sizeof(struct Tuple)) && IS_FRESH(v, sizeof(*v)) && __exc == 0 && __caught_n == 0 && GLOBALS_PINNED)
__CPROVER_requires(TUP_SIZE <= 0xfffffffful)
__CPROVER_assigns(*v)
PROP(C01, C15) __CPROVER_ensures(__exc == 0)
/* bounds-checked: an index inside the tuple yields the item itself, any other index fails and leaves *v alone */
PROP(C15) __CPROVER_ensures((RET == 1) == ((unsigned long)index < TUP_SIZE))
PROP(C15) __CPROVER_ensures(RET == 1 ==> *v == (struct bloc_value *)&g_tab_elem)
PROP(C15) __CPROVER_ensures(RET != 1 ==> (RET == 0 && *v == __CPROVER_old(*v)))
;
#endif

#include FNS_C
