/* contract of bloc::WHILEStatement::doit -- one step of the WHILE loop */
#include "prelude.h"
#include "ctx_api.h"

#define SELF ((const void *)this)
#define NEXT (this->_base_Controller._base_Statement._next)
#define WAS_TOP __CPROVER_old(g_ctl_depth > 0 && g_ctl_top_stmt == SELF)
#define COND_TRUE (IN_BOOL_DOMAIN(A1) && KLEENE(A1) == K_T)

const struct Statement *_ZNK4bloc14WHILEStatement4doitERNS_7ContextE(struct WHILEStatement *this, struct Context *ctx)
__CPROVER_requires(IS_FRESH(this, sizeof(*this)) && IS_FRESH(ctx, sizeof(*ctx)) && IS_FRESH(ctx->_root, sizeof(struct Context)))
__CPROVER_requires(IS_FRESH(this->exp, sizeof(struct Expression)) && IS_FRESH(this->_exec, sizeof(struct Executable)))
__CPROVER_requires(INPUT_STATE(g_ctl_depth, g_ctl_top_stmt, g_ctl_top_data))
__CPROVER_requires(NEXT != (const struct Statement *)this)
__CPROVER_requires(__exc == 0 && g_eval_n == 0 && __caught_n == 0 && GLOBALS_PINNED && g_ctl_depth >= 0 && g_ctl_depth < 1000 && g_ctl_pushes == 0 && g_ctl_pops == 0 && g_run_count == 0)
__CPROVER_assigns(__CPROVER_object_whole(ctx))
PROP(C01) __CPROVER_ensures(ONLY_RUNTIME_ERROR)
/* the loop takes the control exactly once (first step), the condition is evaluated exactly once per step */
PROP(C06) __CPROVER_ensures(g_ctl_pushes == (WAS_TOP ? 0 : 1) && g_eval_n <= 1 && (g_eval_n == 1 ==> g_eval_node[0] == this->exp) && (OK ==> g_eval_n == 1))
/* C04: a null or false condition takes the false branch: the body is not run, the loop is left and its control released */
PROP(C04, C06) __CPROVER_ensures((g_eval_n == 1 && IN_BOOL_DOMAIN(A1) && KLEENE(A1) != K_T) ==> (OK && g_run_count == 0 && RET == NEXT && g_ctl_pops == 1 && g_ctl_popped_stmt == SELF))
/* a true condition runs the body exactly once */
PROP(C04, C06) __CPROVER_ensures((g_eval_n == 1 && COND_TRUE) ==> g_run_count == 1)
/* a condition that is not a boolean is a type error, never a silent true or false */
PROP(C04) __CPROVER_ensures((g_eval_n == 1 && !IN_BOOL_DOMAIN(A1) && !V_ISNULL(A1)) ==> (THROWN_RT(EXC_RT_NOT_BOOLEAN) && g_run_count == 0))
/* after the body: keep looping, or leave through break / return with the control released */
PROP(C06) __CPROVER_ensures((OK && g_run_count == 1 && RET == (const struct Statement *)this) ==> (g_ctl_pops == 0 && ctx->_continueCondition == 0 && g_ctl_top_stmt == SELF))
PROP(C06) __CPROVER_ensures((OK && g_run_count == 1 && RET != (const struct Statement *)this) ==> (RET == NEXT && g_ctl_pops == 1 && g_ctl_popped_stmt == SELF && ctx->_breakCondition == 0))
PROP(C06) __CPROVER_ensures((OK && g_run_count == 1 && !(ctx->_breakCondition || ctx->_continueCondition || ctx->_returnCondition || ctx->_root->_returnCondition) && g_ctl_pops == 0) ==> RET == (const struct Statement *)this)
PROP(C05) __CPROVER_ensures((g_eval_n == 1 && V_LVALUE(A1)) ==> V_SAME(O1, A1))
;

#include FNS_C
