/* std_api.h -- libstdc++ API-level contracts (ASSUMED, DESIGN 2.4).  Containers are opaque objects of
 * the real size; a stub only states what the documented interface guarantees. */
#ifndef STD_API_H
#define STD_API_H
int __g2c_nondet_int(void);
_Bool __g2c_nondet_bool(void);
unsigned long __g2c_nondet_ulong(void);
struct std_string; struct vec_char;
/* int std::string::compare(const std::string&) const : pure */
int _ZNKSt7__cxx1112basic_stringIcSt11char_traitsIcESaIcEE7compareERKS4_(const struct std_string *this, const struct std_string *s)
{
  __CPROVER_assert(__CPROVER_r_ok(this, 32) && __CPROVER_r_ok(s, 32), "std::string::compare: both strings are live objects");
  return __g2c_nondet_int();
}
/* bool operator==(const std::vector<char>&, const std::vector<char>&) : pure */
_Bool _ZSteqIcSaIcEEbRKSt6vectorIT_T0_ES6_(const struct vec_char *a, const struct vec_char *b)
{
  __CPROVER_assert(__CPROVER_r_ok(a, 24) && __CPROVER_r_ok(b, 24), "operator==(vector<char>): both vectors are live objects");
  return __g2c_nondet_bool();
}
/* bool operator!=(const std::vector<char>&, const std::vector<char>&) : pure */
_Bool _ZStneIcSaIcEEbRKSt6vectorIT_T0_ES6_(const struct vec_char *a, const struct vec_char *b)
{
  __CPROVER_assert(__CPROVER_r_ok(a, 24) && __CPROVER_r_ok(b, 24), "operator!=(vector<char>): both vectors are live objects");
  return __g2c_nondet_bool();
}
#ifndef CONTAINERS_MODEL   /* contracts/containers.h has the size-aware version */
/* std::string& std::string::append(const std::string&) : mutates *this (modelled as: its bytes change), returns *this */
struct std_string *_ZNSt7__cxx1112basic_stringIcSt11char_traitsIcESaIcEE6appendERKS4_(struct std_string *this, const struct std_string *s)
{
  __CPROVER_assert(__CPROVER_rw_ok(this, 32) && __CPROVER_r_ok(s, 32), "std::string::append: both strings are live objects");
  unsigned long *w = (unsigned long *)this;
  w[0] = __g2c_nondet_ulong(); w[1] = __g2c_nondet_ulong(); w[2] = __g2c_nondet_ulong(); w[3] = __g2c_nondet_ulong();
  return this;
}
#endif
/* std::vector<bloc::Expression*>::vector() : an empty vector */
struct vec_ExpressionPtr;
#ifndef OWN_VEC_EXPRESSION_MODEL
void _ZNSt6vectorIPN4bloc10ExpressionESaIS2_EEC1Ev(struct vec_ExpressionPtr *this) { (void)this; }
void _ZNSt6vectorIPN4bloc10ExpressionESaIS2_EED1Ev(struct vec_ExpressionPtr *this) { (void)this; }
#endif
#endif
