/* contracts of bloc::BEGINStatement::docatch and bloc::BEGINStatement::doit (C07).
 * The handler list (name, block) is a std::list; it is modelled by a ghost array of at most CATCH_MAX clauses and
 * the iteration is unwound: the result is BOUNDED (begin blocks with at most CATCH_MAX `when` clauses).
 * Strings are compared through the content-identity abstraction of strid.h. */
#define HAVE_STD_STRING
#define CONTAINERS_MODEL
#include "prelude.h"
#include "containers.h"
#include "strid.h"

#define CATCH_MAX 3
struct pair_Str_Exec g_catches[CATCH_MAX + 1]; int g_catches_len;
/* ---- ASSUMED model of std::list<pair<string,Executable*>> iteration over the ghost array ---- */
#define L_LIST "NSt7__cxx114listISt4pairINS_12basic_stringIcSt11char_traitsIcESaIcEEEPN4bloc10ExecutableEESaISA_EE"
_Bool _ZNKSt7__cxx114listISt4pairINS_12basic_stringIcSt11char_traitsIcESaIcEEEPN4bloc10ExecutableEESaISA_EE5emptyEv(const struct list_catches *this)
{ (void)this; return g_catches_len == 0; }
struct list_citer_catches _ZNKSt7__cxx114listISt4pairINS_12basic_stringIcSt11char_traitsIcESaIcEEEPN4bloc10ExecutableEESaISA_EE5beginEv(const struct list_catches *this)
{ struct list_citer_catches it; *(void **)&it = (void *)&g_catches[0]; (void)this; return it; }
struct list_citer_catches _ZNKSt7__cxx114listISt4pairINS_12basic_stringIcSt11char_traitsIcESaIcEEEPN4bloc10ExecutableEESaISA_EE3endEv(const struct list_catches *this)
{ struct list_citer_catches it; *(void **)&it = (void *)&g_catches[g_catches_len]; (void)this; return it; }
_Bool _ZStneRKSt20_List_const_iteratorISt4pairINSt7__cxx1112basic_stringIcSt11char_traitsIcESaIcEEEPN4bloc10ExecutableEEESD_(const struct list_citer_catches *a, const struct list_citer_catches *b)
{ return *(void *const *)a != *(void *const *)b; }
const struct pair_Str_Exec *_ZNKSt20_List_const_iteratorISt4pairINSt7__cxx1112basic_stringIcSt11char_traitsIcESaIcEEEPN4bloc10ExecutableEEEdeEv(const struct list_citer_catches *this)
{
  const struct pair_Str_Exec *p = *(struct pair_Str_Exec *const *)this;
  __CPROVER_assert(p >= &g_catches[0] && p < &g_catches[g_catches_len], "std::list iterator dereferenced inside [begin, end)");
  return p;
}
struct list_citer_catches *_ZNSt20_List_const_iteratorISt4pairINSt7__cxx1112basic_stringIcSt11char_traitsIcESaIcEEEPN4bloc10ExecutableEEEppEv(struct list_citer_catches *this)
{
  struct pair_Str_Exec *p = *(struct pair_Str_Exec **)this;
  __CPROVER_assert(p >= &g_catches[0] && p < &g_catches[g_catches_len], "std::list iterator incremented inside [begin, end)");
  *(struct pair_Str_Exec **)this = p + 1;
  return this;
}
/* ---- ASSUMED model of the execution-level stack's std::vector<const Statement*>: depth, top, and counters ---- */
unsigned long g_exec_depth; const void *g_exec_top; int g_exec_pushes, g_exec_pops; unsigned long g_exec_min;
_Bool _ZNKSt6vectorIPKN4bloc9StatementESaIS3_EE5emptyEv(const struct vec_StatementPtr *this) { (void)this; return g_exec_depth == 0; }
void _ZNSt6vectorIPKN4bloc9StatementESaIS3_EE9push_backERKS3_(struct vec_StatementPtr *this, const struct Statement *const *s)
{ (void)this; __CPROVER_assume(g_exec_depth < 0xffffffffffffffful); g_exec_depth++; g_exec_top = *s; g_exec_pushes++; }
void _ZNSt6vectorIPKN4bloc9StatementESaIS3_EE8pop_backEv(struct vec_StatementPtr *this)
{ (void)this; __CPROVER_assert(g_exec_depth > 0, "std::vector::pop_back on an empty vector is undefined"); g_exec_depth--; g_exec_pops++; if (g_exec_depth < g_exec_min) g_exec_min = g_exec_depth; }
/* std::exception special members: no state */
void _ZNSt9exceptionC2Ev(void *this) { (void)this; }
void _ZNSt9exceptionC2ERKS_(void *this, const void *o) { (void)this; (void)o; }
void _ZNSt9exceptionD2Ev(void *this) { (void)this; }
void *_ZNSt9exceptionaSERKS_(void *this, const void *o) { (void)o; return this; }

/* ---- ASSUMED contract of Executable::run for this property (C01 for what it throws; the induction hypothesis of
 *      C07 for the execution level: run() returns, normally or not, at the level it was entered with) ---- */
#define RUN_MAX 2
int g_run_count; const void *g_run_arg[RUN_MAX]; unsigned long g_run_depth[RUN_MAX]; unsigned g_run_errno[RUN_MAX];
_Bool g_run_throws[RUN_MAX]; unsigned g_run_thrown_no[RUN_MAX]; void *g_run_thrown_obj[RUN_MAX];
struct std_list_StatementPtr;
int _ZN4bloc10Executable3runERNS_7ContextERKNSt7__cxx114listIPKNS_9StatementESaIS7_EEE(struct Context *ctx, const struct std_list_StatementPtr *stmts)
{
  __CPROVER_assert(__exc == 0, "Executable::run entered with no exception in flight");
  __CPROVER_assert(g_run_count < RUN_MAX, "Executable::run called at most twice by a begin block (body, one handler)");
  int k = g_run_count++;
  g_run_arg[k] = stmts; g_run_depth[k] = g_exec_depth; g_run_errno[k] = ctx->_last_error.no;
  ctx->_breakCondition = __g2c_nondet_bool(); ctx->_continueCondition = __g2c_nondet_bool(); ctx->_returnCondition = __g2c_nondet_bool();
  if (g_run_throws[k])
  {
    struct RuntimeError *e = __CPROVER_allocate(sizeof(struct RuntimeError), 0);
    e->no = g_run_thrown_no[k]; STR_ID(&e->_base_Error._arg) = __g2c_nondet_ulong();
    g_run_thrown_obj[k] = e;
    __cxa_throw(e, G2C_EXC_RuntimeError, 0);
  }
  return 0;
}

#define NEXT (this->_base_Statement._next)
#define ID(k) STR_ID(&g_catches[k].first)
#define STMTS(k) ((const void *)&g_catches[k].second->_statements)
#define CATCHABLE(no) ((no) == EXC_RT_USER_S || (no) == EXC_RT_OUT_OF_RANGE || (no) == EXC_RT_DIVIDE_BY_ZERO)
/* the property's matching rule: `others` matches the three catchable kinds; OUT_OF_RANGE / DIVIDE_BY_ZERO match their
 * kind; any other name matches a user-raised error of that name (what() of a user error is its name) */
#define MATCH(k, no) ((ID(k) == STRID_OTHERS && CATCHABLE(no)) || (ID(k) == STRID_OUT_OF_RANGE && (no) == EXC_RT_OUT_OF_RANGE) || \
                      (ID(k) == STRID_DIVIDE_BY_ZERO && (no) == EXC_RT_DIVIDE_BY_ZERO) || \
                      (ID(k) >= STRID_OTHERS && (no) == EXC_RT_USER_S && ID(k) == g_what_id))
#define FIRST0(no) (g_catches_len > 0 && MATCH(0, no))
#define FIRST1(no) (g_catches_len > 1 && !MATCH(0, no) && MATCH(1, no))
#define FIRST2(no) (g_catches_len > 2 && !MATCH(0, no) && !MATCH(1, no) && MATCH(2, no))
#define NOMATCH(no) (!(g_catches_len > 0 && MATCH(0, no)) && !(g_catches_len > 1 && MATCH(1, no)) && !(g_catches_len > 2 && MATCH(2, no)))
#define THROWN_NO (((struct RuntimeError *)__exc_obj)->no)
#define CATCHES_OK (g_catches_len >= 0 && g_catches_len <= CATCH_MAX && ID(0) != STRID_EMPTY && ID(1) != STRID_EMPTY && ID(2) != STRID_EMPTY)
#define THROWABLE_STUBS_INPUT INPUT_STATE(g_catches_len, ID(0), ID(1), ID(2), g_what_id, g_exec_depth, g_run_throws[0], g_run_throws[1], g_run_thrown_no[0], g_run_thrown_no[1])

#include "rt_api.h"

#ifdef JOB_DOCATCH   /* the doit job checks doit with docatch as rendered, whatever its signature */
/* void BEGINStatement::docatch(const RuntimeError& rt, Context& ctx) const -- called with the block still open */
void _ZNK4bloc14BEGINStatement7docatchERKNS_12RuntimeErrorERNS_7ContextE(struct BEGINStatement *this, struct RuntimeError *rt, struct Context *ctx)
__CPROVER_requires(IS_FRESH(this, sizeof(*this)) && IS_FRESH(ctx, sizeof(*ctx)) && IS_FRESH(rt, sizeof(*rt)))
__CPROVER_requires(THROWABLE_STUBS_INPUT)
__CPROVER_requires(CATCHES_OK && g_exec_depth >= 1)
__CPROVER_requires(IS_FRESH(g_catches[0].second, sizeof(struct Executable)) && IS_FRESH(g_catches[1].second, sizeof(struct Executable)) && IS_FRESH(g_catches[2].second, sizeof(struct Executable)))
__CPROVER_requires(rt->no >= EXC_RT_USER_S && rt->no <= EXC_RT_CONST_VIOLATION_S && g_run_thrown_no[0] >= EXC_RT_USER_S && g_run_thrown_no[0] <= EXC_RT_CONST_VIOLATION_S)
__CPROVER_requires(__exc == 0 && __caught_n == 0 && g_run_count == 0 && g_exec_pushes == 0 && g_exec_pops == 0 && GLOBALS_PINNED)
__CPROVER_assigns(__CPROVER_object_whole(ctx))
PROP(C01) __CPROVER_ensures(ONLY_RUNTIME_ERROR)
/* the first matching clause, and only it, gets control; the error it handles is recorded in the context before its block starts */
PROP(C07) __CPROVER_ensures(FIRST0(rt->no) ==> (g_run_count == 1 && g_run_arg[0] == STMTS(0) && g_run_errno[0] == rt->no))
PROP(C07) __CPROVER_ensures(FIRST1(rt->no) ==> (g_run_count == 1 && g_run_arg[0] == STMTS(1) && g_run_errno[0] == rt->no))
PROP(C07) __CPROVER_ensures(FIRST2(rt->no) ==> (g_run_count == 1 && g_run_arg[0] == STMTS(2) && g_run_errno[0] == rt->no))
/* handled: the block stays open for the caller to close, the recorded error is cleared */
PROP(C07) __CPROVER_ensures((!NOMATCH(rt->no) && !g_run_throws[0]) ==> (OK && g_exec_depth == __CPROVER_old(g_exec_depth) && g_exec_pops == 0 && ctx->_last_error.no == EXC_RT_NOERROR))
/* the handler itself fails: the block is closed exactly once and the handler's error propagates */
/* (C06: the level seen by Context::onRuntimeError decides which loops it closes -- an unbalanced level leaves enclosing loops open) */
PROP(C06, C07) __CPROVER_ensures((!NOMATCH(rt->no) && g_run_throws[0]) ==> (!OK && __exc_obj == g_run_thrown_obj[0] && g_exec_depth == __CPROVER_old(g_exec_depth) - 1 && g_exec_pops == 1))
/* unmatched, or not catchable: no block runs, the block is closed exactly once, the same error propagates */
PROP(C07) __CPROVER_ensures(NOMATCH(rt->no) ==> (g_run_count == 0 && !OK && THROWN_NO == rt->no && STR_ID(&((struct RuntimeError *)__exc_obj)->_base_Error._arg) == STR_ID(&rt->_base_Error._arg) && g_exec_depth == __CPROVER_old(g_exec_depth) - 1 && g_exec_pops == 1))
PROP(C07) __CPROVER_ensures(!CATCHABLE(rt->no) ==> NOMATCH(rt->no))
PROP(C07) __CPROVER_ensures(g_exec_pushes == 0)
;

#endif

#ifdef JOB_DOIT
/* const Statement * BEGINStatement::doit(Context& ctx) const */
const struct Statement *_ZNK4bloc14BEGINStatement4doitERNS_7ContextE(struct BEGINStatement *this, struct Context *ctx)
__CPROVER_requires(IS_FRESH(this, sizeof(*this)) && IS_FRESH(ctx, sizeof(*ctx)) && IS_FRESH(this->_exec, sizeof(struct Executable)))
__CPROVER_requires(THROWABLE_STUBS_INPUT)
__CPROVER_requires(CATCHES_OK)
__CPROVER_requires(IS_FRESH(g_catches[0].second, sizeof(struct Executable)) && IS_FRESH(g_catches[1].second, sizeof(struct Executable)) && IS_FRESH(g_catches[2].second, sizeof(struct Executable)))
__CPROVER_requires(g_run_thrown_no[0] >= EXC_RT_USER_S && g_run_thrown_no[0] <= EXC_RT_CONST_VIOLATION_S && g_run_thrown_no[1] >= EXC_RT_USER_S && g_run_thrown_no[1] <= EXC_RT_CONST_VIOLATION_S)
__CPROVER_requires(__exc == 0 && __caught_n == 0 && g_run_count == 0 && g_exec_pushes == 0 && g_exec_pops == 0 && GLOBALS_PINNED && SET_EQ(g_exec_min, g_exec_depth))
__CPROVER_assigns(__CPROVER_object_whole(ctx))
PROP(C01) __CPROVER_ensures(ONLY_RUNTIME_ERROR)
/* the execution-level stack is balanced on every way out, never dips below the entry level, and the block runs one level up, opened by this statement */
PROP(C06, C07) __CPROVER_ensures(g_exec_depth == __CPROVER_old(g_exec_depth) && g_exec_pushes == 1 && g_exec_pops == 1 && g_exec_min == __CPROVER_old(g_exec_depth))
PROP(C07) __CPROVER_ensures(g_run_count >= 1 && g_run_arg[0] == (const void *)&this->_exec->_statements && g_run_depth[0] == __CPROVER_old(g_exec_depth) + 1)
/* no error: no handler runs, control continues after the block */
PROP(C07) __CPROVER_ensures(!g_run_throws[0] ==> (g_run_count == 1 && OK && RET == NEXT))
/* error in the block: the first matching handler runs, inside the still-open block, with the error recorded */
PROP(C07) __CPROVER_ensures((g_run_throws[0] && FIRST0(g_run_thrown_no[0])) ==> (g_run_count == 2 && g_run_arg[1] == STMTS(0)))
PROP(C07) __CPROVER_ensures((g_run_throws[0] && FIRST1(g_run_thrown_no[0])) ==> (g_run_count == 2 && g_run_arg[1] == STMTS(1)))
PROP(C07) __CPROVER_ensures((g_run_throws[0] && FIRST2(g_run_thrown_no[0])) ==> (g_run_count == 2 && g_run_arg[1] == STMTS(2)))
PROP(C07) __CPROVER_ensures(g_run_count == 2 ==> (g_run_depth[1] == __CPROVER_old(g_exec_depth) + 1 && g_run_errno[1] == g_run_thrown_no[0]))
/* handled: normal continuation and no recorded error is left */
PROP(C07) __CPROVER_ensures((g_run_throws[0] && !NOMATCH(g_run_thrown_no[0]) && !g_run_throws[1]) ==> (OK && RET == NEXT && ctx->_last_error.no == EXC_RT_NOERROR))
/* handler fails: its error propagates */
PROP(C07) __CPROVER_ensures((g_run_throws[0] && !NOMATCH(g_run_thrown_no[0]) && g_run_throws[1]) ==> (!OK && __exc_obj == g_run_thrown_obj[1]))
/* unmatched or not catchable: no handler runs and the same error propagates */
PROP(C07) __CPROVER_ensures((g_run_throws[0] && NOMATCH(g_run_thrown_no[0])) ==> (g_run_count == 1 && !OK && THROWN_NO == g_run_thrown_no[0]))
PROP(C07) __CPROVER_ensures((g_run_throws[0] && !CATCHABLE(g_run_thrown_no[0])) ==> (g_run_count == 1 && !OK))
;
#endif

#include FNS_C
