/* contract of bloc::FunctorManager::createEnv (C08): the context a call runs in.
 * The parameter list (std::vector<Symbol>) is modelled by a ghost array of at most 2 parameters: BOUNDED. */
#define HAVE_STD_STRING
#define CONTAINERS_MODEL
#define CONTAINERS_STRINGS_ONLY
#define OWN_VEC_EXPRESSION_MODEL
#include "prelude.h"
#include "containers.h"

#define PARAMS_MAX 2
struct FunctorManager__Entry g_entry; struct Functor g_functor; struct Context g_fn_ctx, g_new_ctx, g_cached_ctx;
unsigned long g_ndecl, g_cache_len, g_params_len; int g_cache_pops;
struct Symbol g_params[PARAMS_MAX + 1]; struct Expression g_pval_obj[PARAMS_MAX + 1]; struct Expression *g_pvals[PARAMS_MAX + 1];
int g_create_n; const void *g_create_this, *g_create_root; unsigned char g_create_rec;
int g_reset_n; const void *g_reset_decl, *g_reset_rt; int g_reset_at_store_n;
int g_store_n; const void *g_store_ctx[PARAMS_MAX + 1], *g_store_caller[PARAMS_MAX + 1], *g_store_exp[PARAMS_MAX + 1]; unsigned g_store_id[PARAMS_MAX + 1];
_Bool g_store_throws;
/* ---- stubs ---- */
struct FunctorManager__Entry *_ZNSt6vectorIN4bloc14FunctorManager5EntryESaIS2_EEixEm(struct vec_Entry *this, unsigned long n)
{ (void)this; __CPROVER_assert(n < g_ndecl, "std::vector<Entry>::operator[]: index within size()"); return &g_entry; }
struct Functor *_ZNKSt19__shared_ptr_accessIN4bloc7FunctorELN9__gnu_cxx12_Lock_policyE2ELb0ELb0EEptEv(const struct FunctorPtr *this)
{ __CPROVER_assert((const void *)this == (const void *)&g_entry.functor, "model: the entry's functor"); return &g_functor; }
_Bool _ZNKSt12forward_listIPN4bloc7ContextESaIS2_EE5emptyEv(const struct flist_ContextPtr *this) { (void)this; return g_cache_len == 0; }
struct Context *g_cache_front_slot;
struct Context **_ZNSt12forward_listIPN4bloc7ContextESaIS2_EE5frontEv(struct flist_ContextPtr *this)
{ (void)this; __CPROVER_assert(g_cache_len > 0, "std::forward_list::front on an empty list is undefined"); g_cache_front_slot = &g_cached_ctx; return &g_cache_front_slot; }
void _ZNSt12forward_listIPN4bloc7ContextESaIS2_EE9pop_frontEv(struct flist_ContextPtr *this)
{ (void)this; __CPROVER_assert(g_cache_len > 0, "std::forward_list::pop_front on an empty list is undefined"); g_cache_len--; g_cache_pops++; }
/* void forward_list<Context*>::push_front(Context* const&): a context goes (back) into the cache */
int g_cache_pushes; const void *g_cache_pushed;
void _ZNSt12forward_listIPN4bloc7ContextESaIS2_EE10push_frontERKS2_(struct flist_ContextPtr *this, struct Context *const *c)
{ (void)this; g_cache_len++; g_cache_pushes++; g_cache_pushed = *c; }
/* Context * Context::createChildRuntime(Context& root, uint8_t recursion) const: a new runtime context at that depth, variables unset */
struct Context *_ZNK4bloc7Context18createChildRuntimeERS0_h(const struct Context *this, struct Context *root, unsigned char recursion)
{ g_create_n++; g_create_this = this; g_create_root = root; g_create_rec = recursion; g_new_ctx._recursion = recursion; g_new_ctx._returnCondition = 0; return &g_new_ctx; }
/* void Context::resetChildRuntime(Context& runtime) const: its contract is job ctx_resetChildRuntime */
void _ZNK4bloc7Context17resetChildRuntimeERS0_(const struct Context *this, struct Context *runtime)
{ g_reset_n++; g_reset_decl = this; g_reset_rt = runtime; g_reset_at_store_n = g_store_n; }
struct vsym_iterator _ZNSt6vectorIN4bloc6SymbolESaIS1_EE5beginEv(struct vec_Symbol *this) { struct vsym_iterator it; (void)this; *(void **)&it = (void *)&g_params[0]; return it; }
struct vsym_iterator _ZNSt6vectorIN4bloc6SymbolESaIS1_EE3endEv(struct vec_Symbol *this) { struct vsym_iterator it; (void)this; *(void **)&it = (void *)&g_params[g_params_len]; return it; }
_Bool _ZN9__gnu_cxxneIPN4bloc6SymbolESt6vectorIS2_SaIS2_EEEEbRKNS_17__normal_iteratorIT_T0_EESC_(const struct vsym_iterator *a, const struct vsym_iterator *b) { return *(void *const *)a != *(void *const *)b; }
struct Symbol *_ZNK9__gnu_cxx17__normal_iteratorIPN4bloc6SymbolESt6vectorIS2_SaIS2_EEEdeEv(const struct vsym_iterator *this)
{
  struct Symbol *p = *(struct Symbol *const *)this;
  __CPROVER_assert(p >= &g_params[0] && p < &g_params[g_params_len], "std::vector iterator dereferenced inside [begin, end)");
  return p;
}
struct vsym_iterator *_ZN9__gnu_cxx17__normal_iteratorIPN4bloc6SymbolESt6vectorIS2_SaIS2_EEEppEv(struct vsym_iterator *this) { *(struct Symbol **)this = *(struct Symbol **)this + 1; return this; }
struct Expression *const *_ZNKSt6vectorIPN4bloc10ExpressionESaIS2_EEixEm(const struct vec_ExpressionPtr *this, unsigned long n)
{ (void)this; __CPROVER_assert(n < g_params_len, "std::vector<Expression*>::operator[]: as many values as parameters (precondition of createEnv)"); return &g_pvals[n]; }
/* void VariableExpression::store(Context& ctx, Context& caller, Expression * exp) const: evaluates exp in the caller and binds a copy in ctx; may fail */
void _ZNK4bloc18VariableExpression5storeERNS_7ContextES2_PNS_10ExpressionE(const struct VariableExpression *this, struct Context *ctx, struct Context *caller, struct Expression *exp)
{
  __CPROVER_assert(g_store_n < PARAMS_MAX, "model: one store per parameter");
  g_store_ctx[g_store_n] = ctx; g_store_caller[g_store_n] = caller; g_store_exp[g_store_n] = exp; g_store_id[g_store_n] = this->_id; g_store_n++;
  if (g_store_throws) __cxa_throw(__CPROVER_allocate(sizeof(struct RuntimeError), 0), G2C_EXC_RuntimeError, 0);
}
void _ZNSt9exceptionC2Ev(void *this) { (void)this; }

#define R0 (__CPROVER_old(caller->_recursion))
#define ENV_CTX (RET._ctx)
struct FunctorManager__Env _ZN4bloc14FunctorManager9createEnvERNS_7ContextEjRKSt6vectorIPNS_10ExpressionESaIS5_EE(struct FunctorManager *this, struct Context *caller, unsigned id, struct vec_ExpressionPtr *pvals)
__CPROVER_requires(IS_FRESH(this, sizeof(*this)) && IS_FRESH(caller, sizeof(*caller)) && IS_FRESH(this->_root, sizeof(struct Context)))
__CPROVER_requires(INPUT_STATE(g_ndecl, g_cache_len, g_params_len, g_params[0]._id, g_params[1]._id, g_store_throws, g_cached_ctx._recursion, g_cached_ctx._returnCondition, g_cached_ctx._trace))
__CPROVER_requires(SET_EQ(g_functor.ctx, &g_fn_ctx) && SET_EQ(g_pvals[0], &g_pval_obj[0]) && SET_EQ(g_pvals[1], &g_pval_obj[1]))
/* a bool member holds 0 or 1 (type invariant of the input object) */
__CPROVER_requires(*(unsigned char *)&caller->_trace <= 1)
#ifdef JOB_NO_PARAMS   /* functions without parameters: no bound is involved */
__CPROVER_requires(g_params_len == 0)
#endif
__CPROVER_requires(id < g_ndecl && g_cache_len <= 2 && g_params_len <= PARAMS_MAX)
__CPROVER_requires(__exc == 0 && __caught_n == 0 && g_cache_pops == 0 && g_cache_pushes == 0 && g_create_n == 0 && g_reset_n == 0 && g_store_n == 0 && GLOBALS_PINNED)
__CPROVER_assigns()
PROP(C01) __CPROVER_ensures(ONLY_RUNTIME_ERROR)
/* the 256th nested call is refused before anything is taken or built */
PROP(C08) __CPROVER_ensures(R0 == 255 ==> (THROWN_RT(EXC_RT_RECURSION_LIMIT) && g_cache_pops == 0 && g_create_n == 0 && g_reset_n == 0 && g_store_n == 0))
PROP(C08) __CPROVER_ensures((R0 != 255 && !g_store_throws) ==> OK)
/* no recycled context: a new one, made from the function's own parse context, one level deeper */
PROP(C08) __CPROVER_ensures((R0 != 255 && __CPROVER_old(g_cache_len) == 0) ==> (g_create_n == 1 && g_create_this == &g_fn_ctx && g_create_root == this->_root && g_create_rec == R0 + 1 && g_reset_n == 0 && g_cache_pops == 0 && (OK ==> ENV_CTX == &g_new_ctx)))
/* recycled context: taken out of the cache, restored to the unset state from the function's parse context before any parameter is bound */
PROP(C08) __CPROVER_ensures((R0 != 255 && __CPROVER_old(g_cache_len) > 0) ==> (g_create_n == 0 && g_cache_pops == 1 && g_reset_n == 1 && g_reset_decl == &g_fn_ctx && g_reset_rt == &g_cached_ctx && g_reset_at_store_n == 0 && (OK ==> ENV_CTX == &g_cached_ctx)))
/* either way the call runs one level below its caller, with no pending return, tracing as the caller does */
PROP(C08) __CPROVER_ensures(OK ==> (ENV_CTX->_recursion == R0 + 1 && ENV_CTX->_returnCondition == 0 && ENV_CTX->_trace == caller->_trace && RET._entry == &g_entry))
/* parameters are bound in order, each from its own argument, evaluated in the caller */
PROP(C08) __CPROVER_ensures(OK ==> (g_store_n == (int)g_params_len && (g_store_n >= 1 ==> (g_store_ctx[0] == ENV_CTX && g_store_caller[0] == caller && g_store_exp[0] == g_pvals[0] && g_store_id[0] == g_params[0]._id)) &&
                                    (g_store_n >= 2 ==> (g_store_ctx[1] == ENV_CTX && g_store_caller[1] == caller && g_store_exp[1] == g_pvals[1] && g_store_id[1] == g_params[1]._id))))
/* C17 / C07 (error exit): a context taken out of the cache, or made for this call, never stays without an owner.  When binding a
 * parameter fails -- f(obj, 1/0) -- it is handed (back) to the cache, so that it, and what was already bound in it (possibly the
 * last reference to a module object), is released with the function table; on success it belongs to the Env handed back */
PROP(C07, C17) __CPROVER_ensures((!OK && g_create_n + g_cache_pops > 0) ==> (g_cache_pushes == 1 && g_cache_pushed == (g_create_n ? (const void *)&g_new_ctx : (const void *)&g_cached_ctx)))
PROP(C07, C17) __CPROVER_ensures(OK ==> (g_cache_pushes == 0 && g_create_n + g_cache_pops == 1))
/* the caller is not modified */
PROP(C08) __CPROVER_ensures(caller->_recursion == R0)
;

#include FNS_C
