/* contracts of utf8helper::UTF8String::ToStdString and ::Remove (modules/utf8/utf8helper.cpp) (C18, C01).
 * Class invariant: rawSize is the number of bytes the stored code points occupy (the sum of their sizes); ToStdString
 * sizes its buffer from rawSize and writes the code points unchecked, so the invariant is what keeps it in bounds.
 * The store (std::vector<codepoint>) is modelled WITH contents by a ghost array of at most CP_MAX code points and the
 * output string by a ghost buffer of exactly the requested size: BOUNDED (strings of at most CP_MAX characters). */
#include "prelude_lite.h"
#define CP_MAX 3
unsigned g_cp[CP_MAX + 1]; unsigned long g_len;
unsigned long __g2c_nondet_ulong(void);
#define USIZE(u) ((u) < 0x100u ? 1ul : (u) < 0x10000u ? 2ul : (u) < 0x1000000u ? 3ul : 4ul)
#define RAW(n) (((n) > 0 ? USIZE(g_cp[0]) : 0) + ((n) > 1 ? USIZE(g_cp[1]) : 0) + ((n) > 2 ? USIZE(g_cp[2]) : 0))
#ifndef G2C_HAVE_vuint_citerator
struct vuint_citerator { void *p; };
#endif
#ifndef G2C_HAVE_vuint_iterator
struct vuint_iterator { void *p; };
#endif
#define IT(p) (*(unsigned **)(p))
/* ---- ASSUMED model of std::vector<codepoint> over the ghost array ---- */
unsigned long _ZNKSt6vectorIjSaIjEE4sizeEv(const struct vec_uint *this) { (void)this; return g_len; }
struct vuint_citerator _ZNKSt6vectorIjSaIjEE5beginEv(const struct vec_uint *this) { struct vuint_citerator it; (void)this; IT(&it) = &g_cp[0]; return it; }
struct vuint_citerator _ZNKSt6vectorIjSaIjEE6cbeginEv(const struct vec_uint *this) { struct vuint_citerator it; (void)this; IT(&it) = &g_cp[0]; return it; }
struct vuint_citerator _ZNKSt6vectorIjSaIjEE3endEv(const struct vec_uint *this) { struct vuint_citerator it; (void)this; IT(&it) = &g_cp[g_len]; return it; }
struct vuint_citerator _ZNK9__gnu_cxx17__normal_iteratorIPKjSt6vectorIjSaIjEEEplEl(const struct vuint_citerator *this, long n)
{ struct vuint_citerator it; __CPROVER_assert(IT(this) + n >= &g_cp[0] && IT(this) + n <= &g_cp[g_len], "iterator + n stays within [begin, end]"); IT(&it) = IT(this) + n; return it; }
struct vuint_citerator *_ZN9__gnu_cxx17__normal_iteratorIPKjSt6vectorIjSaIjEEEppEv(struct vuint_citerator *this)
{ __CPROVER_assert(IT(this) >= &g_cp[0] && IT(this) < &g_cp[g_len], "iterator incremented inside [begin, end)"); IT(this) = IT(this) + 1; return this; }
_Bool _ZN9__gnu_cxxneIPKjSt6vectorIjSaIjEEEEbRKNS_17__normal_iteratorIT_T0_EESB_(const struct vuint_citerator *a, const struct vuint_citerator *b) { return IT(a) != IT(b); }
const unsigned *_ZNK9__gnu_cxx17__normal_iteratorIPKjSt6vectorIjSaIjEEEdeEv(const struct vuint_citerator *this)
{ __CPROVER_assert(IT(this) >= &g_cp[0] && IT(this) < &g_cp[g_len], "iterator dereferenced inside [begin, end)"); return IT(this); }
struct vuint_iterator _ZNSt6vectorIjSaIjEE5eraseEN9__gnu_cxx17__normal_iteratorIPKjS1_EES6_(struct vec_uint *this, struct vuint_citerator first, struct vuint_citerator last)
{
  (void)this; __CPROVER_assert(IT(&first) >= &g_cp[0] && IT(&first) <= IT(&last) && IT(&last) <= &g_cp[g_len], "std::vector::erase(first, last): a valid range of this vector");
  unsigned long i = IT(&first) - &g_cp[0], n = IT(&last) - IT(&first);
  for (unsigned long k = 0; k < CP_MAX; ++k) if (k >= i && k + n < CP_MAX + 1) g_cp[k] = g_cp[k + n];
  g_len -= n; struct vuint_iterator r; IT(&r) = IT(&first); return r;
}
/* ---- the output string: a buffer of exactly size()+1 bytes ---- */
char *g_out; unsigned long g_out_size, g_out_resized = ~0ul;
void _ZNSaIcEC1Ev(void *this) { (void)this; }
void _ZNSaIcED1Ev(void *this) { (void)this; }
void _ZNSt7__cxx1112basic_stringIcSt11char_traitsIcESaIcEEC1EmcRKS3_(struct std_string *this, unsigned long n, char c, const void *a)
{ (void)this; (void)c; (void)a; __CPROVER_assume(n <= 4 * CP_MAX); g_out_size = n; g_out = __CPROVER_allocate(n + 1, 0); }
void _ZNSt7__cxx1112basic_stringIcSt11char_traitsIcESaIcEED1Ev(struct std_string *this) { (void)this; }
char *_ZNSt7__cxx1112basic_stringIcSt11char_traitsIcESaIcEEixEm(struct std_string *this, unsigned long i)
{ (void)this; __CPROVER_assert(i <= g_out_size, "std::string::operator[]: index within [0, size()]"); return g_out + i; }
void _ZNSt7__cxx1112basic_stringIcSt11char_traitsIcESaIcEE6resizeEm(struct std_string *this, unsigned long n) { (void)this; g_out_resized = n; }

#define INV (g_len <= CP_MAX && this->rawSize == RAW(g_len) && g_cp[0] != 0 && g_cp[1] != 0 && g_cp[2] != 0)
#define CP_INPUT INPUT_STATE(g_len, g_cp[0], g_cp[1], g_cp[2])

#ifdef JOB_TOSTD
struct std_string _ZNK10utf8helper10UTF8String11ToStdStringB5cxx11Ev(struct utf8helper__UTF8String *this)
__CPROVER_requires(IS_FRESH(this, sizeof(*this)))
__CPROVER_requires(CP_INPUT)
__CPROVER_requires(INV && __exc == 0)
__CPROVER_assigns()
/* every byte is written inside the buffer (the pointer checks of the rendered code) and the string ends up exactly rawSize bytes long */
PROP(C01, C18) __CPROVER_ensures(OK && g_out_size == RAW(g_len) && g_out_resized == RAW(g_len))
/* the bytes are the code points' bytes, most significant first */
PROP(C18) __CPROVER_ensures(g_len >= 1 ==> (unsigned char)g_out[USIZE(g_cp[0]) - 1] == (g_cp[0] & 0xff))
;
#endif
#ifdef JOB_REMOVE
_Bool _ZN10utf8helper10UTF8String6RemoveEmm(struct utf8helper__UTF8String *this, unsigned long pos, unsigned long n)
__CPROVER_requires(IS_FRESH(this, sizeof(*this)))
__CPROVER_requires(CP_INPUT)
__CPROVER_requires(INV && __exc == 0)
__CPROVER_assigns(__CPROVER_object_whole(this))
PROP(C01, C18) __CPROVER_ensures(OK)
/* any position and count are tolerated: out of range removes nothing, an excessive count is clipped */
PROP(C18) __CPROVER_ensures(RET == (pos < __CPROVER_old(g_len)))
PROP(C18) __CPROVER_ensures(g_len == __CPROVER_old(g_len) - (pos < __CPROVER_old(g_len) ? (n < __CPROVER_old(g_len) - pos ? n : __CPROVER_old(g_len) - pos) : 0))
/* the byte count follows the contents: the class invariant is preserved */
PROP(C18) __CPROVER_ensures(this->rawSize == RAW(g_len))
;
#endif

#include FNS_C
