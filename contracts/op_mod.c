/* contract of bloc::OpMODExpression::value  (operator %) */

#include "prelude.h"

struct Value *_ZNK4bloc15OpMODExpression5valueERNS_7ContextE(struct OpMODExpression *this, struct Context *ctx)
EVAL_PRE_BINOP
EVAL_ASSIGNS
ENS_ONLY_RT
ENS_EVAL_BOTH
PROP(C03) __CPROVER_ensures((g_eval_n == 2 && IS_REAL(A1) && ((IS_INT(A2) && V_I(A2) == 0) || (IS_NUM(A2) && V_D(A2) == 0.0))) ==> THROWN_RT(EXC_RT_DIVIDE_BY_ZERO))
PROP(C03, UF) __CPROVER_ensures((g_eval_n == 2 && IS_INT(A1) && IS_INT(A2) && V_I(A2) != 0) ==> (OK && V_IS(RET, INTEGER) && !V_ISNULL(RET) && V_I(RET) == SPEC_MOD(V_I(A1), V_I(A2))))
/* decimal modulo goes through libm fmod (assumed): only totality and the result tag are claimed */
PROP(C03) __CPROVER_ensures((g_eval_n == 2 && IS_REAL(A1) && IS_REAL(A2) && (IS_NUM(A1) || IS_NUM(A2)) && AS_D(A2) != 0.0) ==> (OK && V_IS(RET, NUMERIC) && !V_ISNULL(RET)))
ENS_TYPE_ARITH
ENS_FRAME1
ENS_FRAME2
ENS_OWN2
;

#include FNS_C
