/* contracts of the UTF-8 decoder of the utf8 module (modules/utf8/utf8helper.cpp: the byte-at-a-time state functions
 * _p0, _p1_u2, _p1_u3, _p2_u3, _p1_u4, _p2_u4, _p3_u4) (C18, C01).
 * For EVERY byte and every reachable decoder state: no table is indexed out of bounds, the decoder stays in a state
 * of the invariant below, and the sequences it completes are exactly the well-formed ones of RFC 3629 section 4.
 * The shapes of the character tables (extents, which pages exist) are read from the compiled object of
 * utf8helper_charmap.cpp on every run; their contents are not modelled (no clause depends on them).
 * The transform callback (Parser::func) is a stub returning any code point: every transform is covered. */
#include "prelude_lite.h"
unsigned __g2c_nondet_uint(void);
#define P0   _ZN10utf8helperL3_p0EPNS_6ParserEh
#define P1U2 _ZN10utf8helperL6_p1_u2EPNS_6ParserEh
#define P1U3 _ZN10utf8helperL6_p1_u3EPNS_6ParserEh
#define P2U3 _ZN10utf8helperL6_p2_u3EPNS_6ParserEh
#define P1U4 _ZN10utf8helperL6_p1_u4EPNS_6ParserEh
#define P2U4 _ZN10utf8helperL6_p2_u4EPNS_6ParserEh
#define P3U4 _ZN10utf8helperL6_p3_u4EPNS_6ParserEh
unsigned P0(struct utf8helper__Parser *, unsigned char); unsigned P1U2(struct utf8helper__Parser *, unsigned char); unsigned P1U3(struct utf8helper__Parser *, unsigned char);
unsigned P2U3(struct utf8helper__Parser *, unsigned char); unsigned P1U4(struct utf8helper__Parser *, unsigned char); unsigned P2U4(struct utf8helper__Parser *, unsigned char);
unsigned P3U4(struct utf8helper__Parser *, unsigned char);
int g_func_calls; const struct utf8helper__character *g_func_ch; unsigned g_func_ret;
/* codepoint (*Transform)(const character* ch, int context): any transform; the character it is given must be a live table entry */
unsigned ICALL_func(void *fp, const struct utf8helper__character *ch, int context)
{
  (void)fp; (void)context;
  __CPROVER_assert(__CPROVER_r_ok(ch, sizeof(*ch)), "the transform receives a character inside its table");
  g_func_calls++; g_func_ch = ch; g_func_ret = __g2c_nondet_uint();
  return g_func_ret;
}
#define DONE 0u
#define CONTINUE 1u
#define ERROR 2u
#define RUN_IS(p, f) ((p)->run == (void *)&f)
#define IN(x, lo, hi) ((x) >= (lo) && (x) <= (hi))
#define B0 (p->b[0])
#define B1 (p->b[1])
#define B2 (p->b[2])
/* RFC 3629 section 4: second byte of a 3-byte and of a 4-byte sequence, given the first */
#define RFC_3_2(b0, b1) (((b0) == 0xe0 && IN(b1, 0xa0, 0xbf)) || (IN(b0, 0xe1, 0xec) && IN(b1, 0x80, 0xbf)) || ((b0) == 0xed && IN(b1, 0x80, 0x9f)) || (IN(b0, 0xee, 0xef) && IN(b1, 0x80, 0xbf)))
#define RFC_4_2(b0, b1) (((b0) == 0xf0 && IN(b1, 0x90, 0xbf)) || (IN(b0, 0xf1, 0xf3) && IN(b1, 0x80, 0xbf)) || ((b0) == 0xf4 && IN(b1, 0x80, 0x8f)))
#define CONT(b) IN(b, 0x80, 0xbf)
/* the decoder state invariant: the bytes kept so far are a proper prefix of a well-formed sequence */
#define INV(p) ((RUN_IS(p, P0) || RUN_IS(p, P1U2) || RUN_IS(p, P1U3) || RUN_IS(p, P2U3) || RUN_IS(p, P1U4) || RUN_IS(p, P2U4) || RUN_IS(p, P3U4)) && \
  (RUN_IS(p, P1U2) ==> IN(B0, 0xc2, 0xdf)) && (RUN_IS(p, P1U3) ==> IN(B0, 0xe0, 0xef)) && (RUN_IS(p, P2U3) ==> RFC_3_2(B0, B1)) && \
  (RUN_IS(p, P1U4) ==> IN(B0, 0xf0, 0xf4)) && (RUN_IS(p, P2U4) ==> RFC_4_2(B0, B1)) && (RUN_IS(p, P3U4) ==> (RFC_4_2(B0, B1) && CONT(B2))))
#define USIZE(u) ((u) < 0x100u ? 1 : (u) < 0x10000u ? 2 : (u) < 0x1000000u ? 3 : 4)
/* a completed character: a code point was stored with its size; a null result of the transform drops the character */
#define COMPLETED(p) ((RET == DONE && (p)->u != 0 && (p)->u_size == USIZE((p)->u)) || (RET == CONTINUE && g_func_calls == 1 && g_func_ret == 0))
/* what a byte does in the initial state (also after an ill-formed sequence, which restarts with the offending byte) */
#define START_SPEC(p, bb) (((bb) < 0x80 ==> (COMPLETED(p) && RUN_IS(p, P0))) && \
  (IN(bb, 0xc2, 0xdf) ==> (RET == CONTINUE && RUN_IS(p, P1U2) && B0 == (bb))) && (IN(bb, 0xe0, 0xef) ==> (RET == CONTINUE && RUN_IS(p, P1U3) && B0 == (bb))) && \
  (IN(bb, 0xf0, 0xf4) ==> (RET == CONTINUE && RUN_IS(p, P1U4) && B0 == (bb))) && ((IN(bb, 0x80, 0xc1) || (bb) >= 0xf5) ==> (RET == ERROR && RUN_IS(p, P0))))
#define PRE(f) __CPROVER_requires(IS_FRESH(p, sizeof(*p))) __CPROVER_requires(SET_EQ(p->run, (void *)&f)) __CPROVER_requires(INV(p) && __exc == 0 && g_func_calls == 0) __CPROVER_assigns(__CPROVER_object_whole(p))
#define POST PROP(C01, C18) __CPROVER_ensures(OK && INV(p) && (RET == DONE || RET == CONTINUE || RET == ERROR) && g_func_calls <= 1) \
             PROP(C18) __CPROVER_ensures(RET == DONE ==> (p->u != 0 && p->u_size == USIZE(p->u) && RUN_IS(p, P0)))

#ifdef JOB_P0
unsigned P0(struct utf8helper__Parser *p, unsigned char bb)
PRE(P0)
POST
PROP(C18) __CPROVER_ensures(START_SPEC(p, bb))
;
#endif
#ifdef JOB_P1U2
unsigned P1U2(struct utf8helper__Parser *p, unsigned char bb)
PRE(P1U2)
POST
/* a continuation byte completes the 2-byte character; the code point of a character without table entry is its byte sequence */
PROP(C18) __CPROVER_ensures(CONT(bb) ==> (COMPLETED(p) && RUN_IS(p, P0) && (g_func_calls == 0 ==> p->u == (((unsigned)__CPROVER_old(B0) << 8) | bb))))
PROP(C18) __CPROVER_ensures(!CONT(bb) ==> START_SPEC(p, bb))
;
#endif
#ifdef JOB_P1U3
unsigned P1U3(struct utf8helper__Parser *p, unsigned char bb)
PRE(P1U3)
POST
PROP(C18) __CPROVER_ensures(RFC_3_2(__CPROVER_old(B0), bb) ==> (RET == CONTINUE && RUN_IS(p, P2U3) && B0 == __CPROVER_old(B0) && B1 == bb && g_func_calls == 0))
PROP(C18) __CPROVER_ensures(!RFC_3_2(__CPROVER_old(B0), bb) ==> START_SPEC(p, bb))
;
#endif
#ifdef JOB_P2U3
unsigned P2U3(struct utf8helper__Parser *p, unsigned char bb)
PRE(P2U3)
POST
PROP(C18) __CPROVER_ensures(CONT(bb) ==> (COMPLETED(p) && RUN_IS(p, P0) && (g_func_calls == 0 ==> p->u == (((unsigned)__CPROVER_old(B0) << 16) | ((unsigned)__CPROVER_old(B1) << 8) | bb))))
PROP(C18) __CPROVER_ensures(!CONT(bb) ==> START_SPEC(p, bb))
;
#endif
#ifdef JOB_P1U4
unsigned P1U4(struct utf8helper__Parser *p, unsigned char bb)
PRE(P1U4)
POST
PROP(C18) __CPROVER_ensures(RFC_4_2(__CPROVER_old(B0), bb) ==> (RET == CONTINUE && RUN_IS(p, P2U4) && B0 == __CPROVER_old(B0) && B1 == bb && g_func_calls == 0))
PROP(C18) __CPROVER_ensures(!RFC_4_2(__CPROVER_old(B0), bb) ==> START_SPEC(p, bb))
;
#endif
#ifdef JOB_P2U4
unsigned P2U4(struct utf8helper__Parser *p, unsigned char bb)
PRE(P2U4)
POST
PROP(C18) __CPROVER_ensures(CONT(bb) ==> (RET == CONTINUE && RUN_IS(p, P3U4) && B0 == __CPROVER_old(B0) && B1 == __CPROVER_old(B1) && B2 == bb && g_func_calls == 0))
PROP(C18) __CPROVER_ensures(!CONT(bb) ==> START_SPEC(p, bb))
;
#endif
#ifdef JOB_P3U4
unsigned P3U4(struct utf8helper__Parser *p, unsigned char bb)
PRE(P3U4)
POST
PROP(C18) __CPROVER_ensures(CONT(bb) ==> (COMPLETED(p) && RUN_IS(p, P0) && (g_func_calls == 0 ==> p->u == (((unsigned)__CPROVER_old(B0) << 24) | ((unsigned)__CPROVER_old(B1) << 16) | ((unsigned)__CPROVER_old(B2) << 8) | bb))))
PROP(C18) __CPROVER_ensures(!CONT(bb) ==> START_SPEC(p, bb))
;
#endif

#include FNS_C
