/* contract of bloc::MemberDELETEExpression::value  --  receiver.delete(position) on tables, strings and bytes (C09) */
#define PAYLOAD_LITERAL
#define PAYLOAD_TABCHAR
#define PAYLOAD_COLLECTION
#define HAVE_STD_STRING
#define CONTAINERS_MODEL
#define ITERATOR_MODEL
#define ISCONST_PINNED
#include "prelude.h"
#include "containers.h"

#define RCV  A1
#define POS  A2
#define POS_INT (V_IS(POS, INTEGER) && !V_ISNULL(POS))
#define IN_RANGE (V_I(POS) >= 0 && (unsigned long)V_I(POS) < g_eval_size[0])
#define CONTAINER(v) (!V_ISNULL(v) && (V_LEVEL(v) > 0 || V_IS(v, LITERAL) || V_IS(v, TABCHAR)))
#define CUR_SIZE (V_LEVEL(RCV) > 0 ? SZ(&((struct Collection *)O1->_value.p)->v) : CW(O1->_value.p, 1))

struct Value *_ZNK4bloc22MemberDELETEExpression5valueERNS_7ContextE(struct MemberDELETEExpression *this, struct Context *ctx)
__CPROVER_requires(IS_FRESH(this, sizeof(*this)) && IS_FRESH(ctx, sizeof(*ctx)) && IS_FRESH(this->_base_MemberExpression._exp, sizeof(struct Expression)))
__CPROVER_requires(INPUT_STATE(g_isconst_answer))
__CPROVER_requires(INPUT_STATE(g_nargs))
__CPROVER_requires(g_nargs == 1 && ARGS_PINNED && __exc == 0 && g_eval_n == 0 && __caught_n == 0 && GLOBALS_PINNED)
EVAL_ASSIGNS
ENS_ONLY_RT
/* a null receiver or a null position is an index error */
PROP(C09) __CPROVER_ensures((g_eval_n == 2 && (V_ISNULL(RCV) || V_ISNULL(POS))) ==> THROWN_RT(EXC_RT_INDEX_RANGE_S))
/* every position outside [0, count) is an index error and leaves the container as it is */
PROP(C09) __CPROVER_ensures((g_eval_n == 2 && CONTAINER(RCV) && POS_INT && !IN_RANGE) ==> (THROWN_RT(EXC_RT_INDEX_RANGE_S) && CUR_SIZE == g_eval_size[0]))
/* an in-range position removes exactly one element */
PROP(C09) __CPROVER_ensures((g_eval_n == 2 && CONTAINER(RCV) && POS_INT && IN_RANGE && OK && RET == O1) ==> CUR_SIZE == g_eval_size[0] - 1)
PROP(C09) __CPROVER_ensures((g_eval_n == 2 && CONTAINER(RCV) && POS_INT && IN_RANGE) ==> OK)
ENS_FRAME2
/* C02: the call is typed like its receiver, and a successful call returns a value of the receiver's (defined) type */
PROP(C02) __CPROVER_ensures((OK && g_eval_n >= 1 && V_MAJOR(A1) != NO_TYPE) ==> (V_MAJOR(RET) == V_MAJOR(A1) && V_LEVEL(RET) == V_LEVEL(A1) && (V_MINOR(RET) == V_MINOR(A1) || (V_MAJOR(A1) == ROWTYPE && V_MINOR(A1) == 0 /* opaque tuple declaration */))))
/* C05 / C14: a receiver that is a constant of the program (a string literal in the source, shared by every run and every clone of the compiled
 * program) is only read -- whether or not the code asks isConst() */
PROP(C05, C14) __CPROVER_ensures((g_isconst_answer && g_eval_n >= 1 && V_IS(A1, LITERAL) && !V_ISNULL(A1)) ==> (V_SAME(O1, A1) && (FRAME_STR(O1, A1, 0))))
/* (a constant node hands out owned storage: proved by the const_* jobs, so V_LVALUE(A1) is part of what 'constant receiver' means) */
PROP(C05, C14) __CPROVER_ensures((OK && g_isconst_answer && g_eval_n >= 1 && V_IS(A1, LITERAL) && !V_ISNULL(A1) && V_LVALUE(A1)) ==> (RET != O1 && !V_LVALUE(RET)))   /* ... and never handed out as the receiver of a further in-place method */
;

#include FNS_C
