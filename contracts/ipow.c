/* contract of the static helper ipow(Integer base, Integer exp) of blocc/operator/op_exp.cpp (C03): integer power by
 * squaring, exact modulo 2^64 for EVERY exponent 0 <= exp < 2^63 -- decided here for the bases whose powers have a closed
 * form without multiplication: 0, 1, -1 and 2 (one instantiation per base, so that the multipliers of the loop see a
 * constant operand; for other bases exactness stays undecided: multiplication facts time out on every back end).
 * The loop is unwound 65 times (64 exponent bits): complete. */
#include "prelude.h"
long _ZN4blocL4ipowEll(long base, long exp)
__CPROVER_requires(base == IPOW_BASE && exp >= 0 && __exc == 0)
__CPROVER_assigns()
PROP(C01, C03) __CPROVER_ensures(OK)
#if IPOW_BASE == 0
PROP(C03) __CPROVER_ensures(RET == (exp == 0 ? 1 : 0))
#elif IPOW_BASE == 1
PROP(C03) __CPROVER_ensures(RET == 1)
#elif IPOW_BASE == -1
PROP(C03) __CPROVER_ensures(RET == ((exp & 1) ? -1 : 1))
#elif IPOW_BASE == 2
PROP(C03) __CPROVER_ensures(RET == (exp < 64 ? (long)(1ul << exp) : 0))
#endif
;

#include FNS_C
