/* contract of bloc::OpNOTExpression::value  (operator ~, integers only) */
#include "prelude.h"

struct Value *_ZNK4bloc15OpNOTExpression5valueERNS_7ContextE(struct OpNOTExpression *this, struct Context *ctx)
EVAL_PRE_UNOP
EVAL_ASSIGNS
ENS_ONLY_RT
ENS_EVAL_ONE
PROP(C03) __CPROVER_ensures((g_eval_n == 1 && INT_DOMAIN(A1)) ==> (OK && V_IS(RET, INTEGER) && (V_ISNULL(A1) ? V_ISNULL(RET) : (!V_ISNULL(RET) && V_I(RET) == ~V_I(A1)))))
PROP(C03) __CPROVER_ensures((g_eval_n == 1 && !INT_DOMAIN(A1)) ==> THROWN_RT(EXC_RT_INV_EXPRESSION))
ENS_TYPE(INTEGER)
ENS_FRAME1
ENS_OWN1
;

#include FNS_C
