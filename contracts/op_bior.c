/* contract of bloc::OpBIORExpression::value  (operator OR) */
#include "rt.h"
#include "bloc_exc.h"
#include TYPES_H
#include "vocab.h"
#include "bloc_globals.h"
#include "iface.h"
#include "value_api.h"

#define A1 (&g_eval_snap[0])
#define A2 (&g_eval_snap[1])

struct Value *_ZNK4bloc16OpBIORExpression5valueERNS_7ContextE(struct OpBIORExpression *this, struct Context *ctx)
__CPROVER_requires(IS_FRESH(this, sizeof(*this)) && IS_FRESH(ctx, sizeof(*ctx)))
__CPROVER_requires(IS_FRESH(this->arg1, sizeof(struct Expression)) && IS_FRESH(this->arg2, sizeof(struct Expression)))
__CPROVER_requires(__exc == 0 && g_eval_n == 0 && __caught_n == 0 && GLOBALS_PINNED)
__CPROVER_assigns(g_eval_n, __CPROVER_object_whole(g_eval_ret), __CPROVER_object_whole(g_eval_snap), __CPROVER_object_whole(g_eval_node), __exc, __exc_type, __exc_obj)
/* C01: only BLOC runtime errors leave an evaluator */
__CPROVER_ensures(ONLY_RUNTIME_ERROR)
/* evaluation order and count: arg1 first, arg2 at most once */
__CPROVER_ensures(g_eval_n <= 2 && (g_eval_n >= 1 ==> g_eval_node[0] == this->arg1) && (g_eval_n == 2 ==> g_eval_node[1] == this->arg2))
/* C04: Kleene OR over {T,F,N}, whatever tag the null carries */
__CPROVER_ensures((g_eval_n == 2 && IN_BOOL_DOMAIN(A1) && IN_BOOL_DOMAIN(A2)) ==>
                  (__exc == 0 && V_IS(RET, BOOLEAN) && KLEENE(RET) == K_OR(KLEENE(A1), KLEENE(A2))))
__CPROVER_ensures((g_eval_n == 1 && __exc == 0) ==> (IN_BOOL_DOMAIN(A1) && KLEENE(A1) == K_T && V_IS(RET, BOOLEAN) && KLEENE(RET) == K_T))
/* C02: the compiled type of OR is boolean */
__CPROVER_ensures(__exc == 0 ==> (V_IS(RET, BOOLEAN) && VALID_TAG(RET)))
/* C05: operands owned by a variable are left untouched, the result is a temporary */
__CPROVER_ensures((g_eval_n >= 1 && V_LVALUE(A1)) ==> V_SAME(g_eval_ret[0], A1))
__CPROVER_ensures((g_eval_n == 2 && V_LVALUE(A2)) ==> V_SAME(g_eval_ret[1], A2))
__CPROVER_ensures(__exc == 0 ==> !V_LVALUE(RET))
;

#include FNS_C

void harness(void)
{
  struct OpBIORExpression *this; struct Context *ctx;
  _ZNK4bloc16OpBIORExpression5valueERNS_7ContextE(this, ctx);
}
