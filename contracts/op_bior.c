/* contract of bloc::OpBIORExpression::value  (operator OR) */
#include "prelude.h"

struct Value *_ZNK4bloc16OpBIORExpression5valueERNS_7ContextE(struct OpBIORExpression *this, struct Context *ctx)
EVAL_PRE_BINOP
EVAL_ASSIGNS
ENS_ONLY_RT
ENS_EVAL_SHORTCUT
/* C04: Kleene OR over {T,F,N}, whatever tag the null carries */
PROP(C04) __CPROVER_ensures((g_eval_n == 2 && IN_BOOL_DOMAIN(A1) && IN_BOOL_DOMAIN(A2)) ==> (OK && V_IS(RET, BOOLEAN) && KLEENE(RET) == K_OR(KLEENE(A1), KLEENE(A2))))
/* a short cut is only taken when the first operand alone decides: true OR x */
PROP(C04) __CPROVER_ensures((g_eval_n == 1 && OK) ==> (IN_BOOL_DOMAIN(A1) && KLEENE(A1) == K_T && V_IS(RET, BOOLEAN) && KLEENE(RET) == K_T))
/* operands outside {boolean, untyped null} are a type error, never something else */
PROP(C04) __CPROVER_ensures((g_eval_n >= 1 && !IN_BOOL_DOMAIN(A1)) ==> THROWN_RT(EXC_RT_INV_EXPRESSION))
ENS_TYPE(BOOLEAN)
ENS_FRAME1
ENS_FRAME2
ENS_OWN2
;

#include FNS_C
