/* contract of bloc::Statement::execute (C07): the execution level current at the time is stamped into the statement
 * BEFORE its doit() runs (a loop statement stacks its control from doit(), so the stamp is what onRuntimeError compares). */
#include "prelude.h"
unsigned long g_exec_depth;
int g_doit_n; unsigned long g_level_at_doit; const struct Statement *g_doit_ret; _Bool g_doit_throws; const void *g_doit_exc_type; int g_clear_n;
unsigned long _ZNKSt6vectorIPKN4bloc9StatementESaIS3_EE4sizeEv(const struct vec_StatementPtr *this) { (void)this; return g_exec_depth; }
/* virtual const Statement * Statement::doit(Context&) const: any statement; may throw anything */
const struct Statement *VCALL_Statement_doit(const struct Statement *s, struct Context *ctx)
{
  (void)ctx; g_doit_n++; g_level_at_doit = s->_level;
  if (g_doit_throws) { __cxa_throw(__CPROVER_allocate(64, 0), g_doit_exc_type, 0); return 0; }
  return g_doit_ret;
}
/* tracing prints to the error stream only */
void _ZNK4bloc9Statement9trace_preERNS_7ContextE(const struct Statement *this, struct Context *ctx) { (void)this; (void)ctx; }
void _ZNK4bloc9Statement10trace_postERNS_7ContextE(const struct Statement *this, struct Context *ctx) { (void)this; (void)ctx; }
void _ZN4bloc7Context4Pool5clearEv(struct Context__Pool *this) { (void)this; g_clear_n++; }

const struct Statement *_ZNK4bloc9Statement7executeERNS_7ContextE(struct Statement *this, struct Context *ctx)
__CPROVER_requires(IS_FRESH(this, sizeof(*this)) && IS_FRESH(ctx, sizeof(*ctx)))
__CPROVER_requires(INPUT_STATE(g_exec_depth, g_doit_ret, g_doit_throws, g_doit_exc_type))
__CPROVER_requires(__exc == 0 && __caught_n == 0 && g_doit_n == 0 && g_clear_n == 0 && GLOBALS_PINNED)
__CPROVER_assigns(this->_level)
PROP(C07) __CPROVER_ensures(g_doit_n == 1 && g_level_at_doit == g_exec_depth && this->_level == g_exec_depth)
PROP(C07) __CPROVER_ensures(!g_doit_throws ==> (OK && RET == g_doit_ret && g_clear_n == 1))
PROP(C07) __CPROVER_ensures(g_doit_throws ==> (!OK && __exc_type == g_doit_exc_type))
;

#include FNS_C
