/* arith.h -- spec functions of C03 (BLOC reference manual, "Arithmetic Operators", "Bitwise Operators",
 * "Coercions and Conversions"), written over bit-vectors so that both sides of a post-condition are
 * the same kind of term for the solver. */
#ifndef ARITH_H
#define ARITH_H
/* integer arithmetic wraps modulo 2^64 */
#define SPEC_ADD(a, b) ((long)((unsigned long)(a) + (unsigned long)(b)))
#define SPEC_SUB(a, b) ((long)((unsigned long)(a) - (unsigned long)(b)))
#define SPEC_MUL(a, b) ((long)G2C_MUL((unsigned long)(a), (unsigned long)(b)))
#define SPEC_NEG(a)    ((long)(0ul - (unsigned long)(a)))
#define INT64_MIN_ (-9223372036854775807l - 1)
/* division truncates toward zero; INT64_MIN / -1 wraps to INT64_MIN, INT64_MIN % -1 is 0 */
#define SPEC_DIV(a, b) (((b) == -1) ? SPEC_NEG(a) : G2C_DIV((long)(a), (long)(b)))
#define SPEC_MOD(a, b) (((b) == -1) ? 0l : G2C_MOD((long)(a), (long)(b)))
/* shifts: vacated bits are zero (so >> is a logical shift); a negative displacement shifts the other
 * way; |d| >= 64 gives 0 */
#define SPEC_SHL_(a, d) ((long)((unsigned long)(a) << (d)))
#define SPEC_SHR_(a, d) ((long)((unsigned long)(a) >> (d)))
#define SPEC_SHL(a, d) (((d) >= 64 || (d) <= -64) ? 0l : ((d) >= 0 ? SPEC_SHL_(a, d) : SPEC_SHR_(a, -(d))))
#define SPEC_SHR(a, d) (((d) >= 64 || (d) <= -64) ? 0l : ((d) >= 0 ? SPEC_SHR_(a, d) : SPEC_SHL_(a, -(d))))

/* contract skeleton of an integer-only binary operator  a1 OP a2 :
 *   operands in {integer, untyped null}: integer result, null iff an operand is null, else SPEC
 *   anything else: INV_EXPRESSION */
#define ENS_INTOP2(SPEC) \
  PROP(C03) __CPROVER_ensures((g_eval_n == 2 && INT_DOMAIN(A1) && INT_DOMAIN(A2)) ==> (OK && V_IS(RET, INTEGER) && \
      ((V_ISNULL(A1) || V_ISNULL(A2)) ? V_ISNULL(RET) : (!V_ISNULL(RET) && V_I(RET) == SPEC(V_I(A1), V_I(A2)))))) \
  PROP(C03) __CPROVER_ensures((g_eval_n == 2 && (!INT_DOMAIN(A1) || !INT_DOMAIN(A2))) ==> THROWN_RT(EXC_RT_INV_EXPRESSION))
#endif

/* ---- four-type arithmetic operators (integer, decimal, complex, untyped null) ---- */
#ifndef ARITH2_H
#define ARITH2_H
#define IS_INT(v) (V_IS(v, INTEGER) && !V_ISNULL(v))
#define IS_NUM(v) (V_IS(v, NUMERIC) && !V_ISNULL(v))
#define IS_REAL(v) (IS_INT(v) || IS_NUM(v))
#define AS_D(v) (V_IS(v, INTEGER) ? (double)V_I(v) : V_D(v))
/* both operands integers: exact result modulo 2^64 */
#define ENS_ARITH_II(TAGS, ISPEC) \
  PROP TAGS __CPROVER_ensures((g_eval_n == 2 && IS_INT(A1) && IS_INT(A2)) ==> (OK && V_IS(RET, INTEGER) && !V_ISNULL(RET) && V_I(RET) == ISPEC(V_I(A1), V_I(A2))))
/* a decimal operand: IEEE-754 double operation on the (converted) operands, decimal result */
#define D_ADD(x, y) G2C_ADD((double)(x), (double)(y))
#define D_SUB(x, y) G2C_SUB((double)(x), (double)(y))
#define D_MUL(x, y) G2C_MUL((double)(x), (double)(y))
#define D_DIV(x, y) G2C_DIV((double)(x), (double)(y))
#define ENS_ARITH_D(TAGS, DFUN) \
  PROP TAGS __CPROVER_ensures((g_eval_n == 2 && IS_REAL(A1) && IS_REAL(A2) && (IS_NUM(A1) || IS_NUM(A2))) ==> \
      (OK && V_IS(RET, NUMERIC) && !V_ISNULL(RET) && D_SAME(V_D(RET), DFUN(AS_D(A1), AS_D(A2)))))
/* compiled type of an arithmetic operator (op_*.cpp type()): used by C02 agreement */
#define ARITH_TYPE(m1, m2) (((m1) == IMAGINARY || (m2) == IMAGINARY) ? IMAGINARY : (((m1) == INTEGER && (m2) == INTEGER) ? INTEGER : \
                            (((m1) == NUMERIC || (m2) == NUMERIC) ? NUMERIC : NO_TYPE)))
#define ENS_TYPE_ARITH PROP(C02) __CPROVER_ensures((OK && g_eval_n == 2 && V_LEVEL(A1) == 0 && V_LEVEL(A2) == 0 && ARITH_TYPE(V_MAJOR(A1), V_MAJOR(A2)) != NO_TYPE) ==> \
      (V_IS(RET, ARITH_TYPE(V_MAJOR(A1), V_MAJOR(A2))) && VALID_TAG(RET)))
/* ---- compiled type of an arithmetic node, as a function of the compiled types of its operands.
 * An operand whose compiled type is opaque (NO_TYPE) can deliver any type at run time, so the node's type is
 * only defined when the operand types determine the result type of value(). */
#define ST_MAJ(t) ((t)->_major)
/* operand types for which some evaluation succeeds (for the others every evaluation is a type error and any compiled type is harmless) */
#define ST_ARITH(t) ((t)->_level == 0 && ((t)->_major == NO_TYPE || (t)->_major == INTEGER || (t)->_major == NUMERIC || (t)->_major == IMAGINARY || (t)->_major == LITERAL))
#define ENS_STYPE_ARITH(EXTRA) \
  PROP(C02) __CPROVER_ensures(g_type_n <= 2 && __exc == 0) \
  PROP(C02) __CPROVER_ensures((g_type_n == 2 && ST_ARITH(ST1) && ST_ARITH(ST2)) ==> (RET->_level == 0 && RET->_major == (EXTRA ARITH_TYPE(ST_MAJ(ST1), ST_MAJ(ST2)))))
#endif
