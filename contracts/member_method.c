/* contract of bloc::MemberMETHODExpression::value (C17): the heap Value a module method returns is either handed on
 * as it is (owned storage) or destroyed exactly once -- together with the object reference it may hold -- on every
 * way out; it is never destroyed when it is handed on. */
#define PAYLOAD_COMPLEX
void *g_ret_ptr; int g_ret_deleted, g_ret_cleared;
#define G2C_DELETE_HOOK(p) if ((p) != 0 && (p) == g_ret_ptr) g_ret_deleted++;
#include "prelude.h"
#define OWN_VEC_EXPRESSION_MODEL
struct plugin__PluginBase g_plugin; struct PLUGGED_MODULE g_module; struct PluginManager g_pm; unsigned long g_nmodules;
_Bool g_ret_null; int g_exec_calls; void *g_exec_object;
const char *_ZN4bloc16MemberExpression8KEYWORDSE_unused;
struct PluginManager *_ZN4bloc13PluginManager8instanceEv(void) { return &g_pm; }
unsigned long _ZNKSt6vectorIN4bloc14PLUGGED_MODULEESaIS1_EE4sizeEv(const void *this) { (void)this; return g_nmodules; }
const struct PLUGGED_MODULE *_ZNKSt6vectorIN4bloc14PLUGGED_MODULEESaIS1_EEixEm(const void *this, unsigned long n)
{ (void)this; __CPROVER_assert(n < g_nmodules, "std::vector<PLUGGED_MODULE>::operator[]: index within size()"); g_module.instance = &g_plugin; return &g_module; }
/* virtual Value * PluginBase::executeMethod(Complex& object, int method, Context&, const std::vector<Expression*>&): module code;
 * ASSUMED not to throw; returns nothing, or a Value allocated with new (any type, null or not, owned storage or not) */
struct Value *VCALL_PluginBase_executeMethod(struct plugin__PluginBase *p, struct Complex *object, int method, struct Context *ctx, const void *args)
{
  (void)p; (void)method; (void)ctx; (void)args;
  g_exec_calls++; g_exec_object = object;
  if (g_ret_null) return 0;
  struct Value *r = __CPROVER_allocate(sizeof(struct Value), 0);
  r->_flags = __g2c_nondet_int(); r->_type._major = __g2c_nondet_int(); r->_type._minor = __g2c_nondet_int(); r->_type._level = __g2c_nondet_int();
  r->_value.i = __g2c_nondet_long();
  __CPROVER_assume(VALID_TAG(r));
  if (V_IS(r, COMPLEX) && !V_ISNULL(r))
  { struct Complex *c = __CPROVER_allocate(sizeof(struct Complex), 0); c->_instance = __g2c_nondet_bool() ? object->_instance : (void *)c; c->_refcount = __g2c_nondet_bool() ? object->_refcount : 0; r->_value.p = c; }
  g_ret_ptr = r;
  return r;
}
long __g2c_nondet_long(void);

#define VAL (&g_operand0)
struct Value *_ZNK4bloc22MemberMETHODExpression5valueERNS_7ContextE(struct MemberMETHODExpression *this, struct Context *ctx)
__CPROVER_requires(IS_FRESH(this, sizeof(*this)) && IS_FRESH(ctx, sizeof(*ctx)) && IS_FRESH(this->_base_MemberExpression._exp, sizeof(struct Expression)) && IS_FRESH(this->_method, sizeof(struct PLUGIN_METHOD)))
__CPROVER_requires(INPUT_STATE(g_nmodules, g_ret_null))
__CPROVER_requires(g_nmodules >= 1 && this->_base_MemberExpression._builtin >= 0 && this->_base_MemberExpression._builtin < 16)
__CPROVER_requires(__exc == 0 && g_eval_n == 0 && __caught_n == 0 && g_ret_deleted == 0 && g_exec_calls == 0 && g_ret_ptr == 0 && GLOBALS_PINNED)
__CPROVER_assigns()
PROP(C01) __CPROVER_ensures(ONLY_RUNTIME_ERROR)
/* handed on as it is: exactly when it is owned storage, and then it is not destroyed */
PROP(C17) __CPROVER_ensures((g_ret_ptr != 0 && OK && RET == g_ret_ptr) ==> g_ret_deleted == 0)
/* otherwise destroyed exactly once, on normal and exceptional return */
PROP(C17) __CPROVER_ensures((g_ret_ptr != 0 && (!OK || RET != g_ret_ptr)) ==> g_ret_deleted == 1)
/* the method runs at most once, on the object the receiver holds, and only for a non-null receiver of the method's module */
PROP(C17) __CPROVER_ensures(g_exec_calls <= 1 && (g_exec_calls == 1 ==> (g_eval_n == 1 && !V_ISNULL(&g_eval_snap[0]) && g_exec_object == VAL->_value.p)))
PROP(C04, C17) __CPROVER_ensures((OK && g_eval_n == 1 && V_ISNULL(&g_eval_snap[0])) ==> (RET == VAL && g_exec_calls == 0))
;

#include FNS_C
