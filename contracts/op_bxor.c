/* contract of bloc::OpBXORExpression::value  (operator XOR) */
#include "prelude.h"

struct Value *_ZNK4bloc16OpBXORExpression5valueERNS_7ContextE(struct OpBXORExpression *this, struct Context *ctx)
EVAL_PRE_BINOP
EVAL_ASSIGNS
ENS_ONLY_RT
ENS_EVAL_BOTH
/* C04: Kleene XOR: null when either operand is null */
PROP(C04) __CPROVER_ensures((g_eval_n == 2 && IN_BOOL_DOMAIN(A1) && IN_BOOL_DOMAIN(A2)) ==> (OK && V_IS(RET, BOOLEAN) && KLEENE(RET) == K_XOR(KLEENE(A1), KLEENE(A2))))
PROP(C04) __CPROVER_ensures((g_eval_n == 2 && (!IN_BOOL_DOMAIN(A1) || !IN_BOOL_DOMAIN(A2))) ==> THROWN_RT(EXC_RT_INV_EXPRESSION))
ENS_TYPE(BOOLEAN)
ENS_FRAME1
ENS_FRAME2
ENS_OWN2
;

#include FNS_C
