/* contract of bloc::OpADDExpression::type -- the compiled type of operator + */
#include "prelude.h"

const struct Type *_ZNK4bloc15OpADDExpression4typeERNS_7ContextE(struct OpADDExpression *this, struct Context *ctx)
__CPROVER_requires(IS_FRESH(this, sizeof(*this)) && IS_FRESH(this->arg1, sizeof(struct Expression)) && IS_FRESH(this->arg2, sizeof(struct Expression)))
__CPROVER_requires(__exc == 0 && g_type_n == 0 && GLOBALS_PINNED)
__CPROVER_assigns(g_type_n, __CPROVER_object_whole(g_stype), __CPROVER_object_whole(g_type_node))
ENS_STYPE_ARITH((ST_MAJ(ST1) == LITERAL) ? LITERAL :)
;

#include FNS_C
