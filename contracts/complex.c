/* contracts of bloc::Complex -- the reference-counted handle of a module object (C17).
 * Ghost model: the module's destroyObject() is a stub that counts its calls and remembers the instance. */
#include "prelude.h"

int g_destroyed; void *g_destroyed_instance;
struct plugin__PluginBase g_plugin; struct PLUGGED_MODULE g_module;

/* const PLUGGED_MODULE& PluginManager::plugged(unsigned type_id) const  (ASSUMED: a live module record) */
const struct PLUGGED_MODULE *_ZNK4bloc13PluginManager7pluggedEj(const struct PluginManager *this, unsigned type_id)
{ (void)this; (void)type_id; g_module.instance = &g_plugin; return &g_module; }
struct PluginManager *_ZN4bloc13PluginManager8instanceEv(void) { return (struct PluginManager *)0; }
/* virtual void PluginBase::destroyObject(void * object)  (module code: ASSUMED not to throw) */
void VCALL_PluginBase_destroyObject(struct plugin__PluginBase *p, void *object)
{ (void)p; g_destroyed++; g_destroyed_instance = object; }

/* invariant of a live handle: it has an instance and a counter that counts at least this handle */
#define CX_INV(c) ((c)->_instance != 0 && (c)->_refcount != 0 && *(c)->_refcount >= 1 && *(c)->_refcount < 2147483647)
#define CX_LIVE(c) ((c)->_instance != 0 && (c)->_refcount != 0 && *(c)->_refcount >= 1)
#define RC(c) (*(c)->_refcount)

/* Complex::~Complex() : drops one reference; the module's destructor runs iff it was the last one, exactly once */
void _ZN4bloc7ComplexD2Ev(struct Complex *this)
__CPROVER_requires(IS_FRESH(this, sizeof(*this)) && IS_FRESH(this->_refcount, sizeof(int)) && CX_INV(this) && __exc == 0 && GLOBALS_PINNED)
__CPROVER_requires(INPUT_STATE(g_destroyed))
__CPROVER_requires(g_destroyed >= 0 && g_destroyed < 1000)
__CPROVER_assigns(*this->_refcount, this->_refcount, g_destroyed, g_destroyed_instance)
PROP(C01) __CPROVER_ensures(__exc == 0)
PROP(C17) __CPROVER_ensures(__CPROVER_old(RC(this)) > 1 ==> (g_destroyed == __CPROVER_old(g_destroyed) && *__CPROVER_old(this->_refcount) == __CPROVER_old(RC(this)) - 1))
PROP(C17) __CPROVER_ensures(__CPROVER_old(RC(this)) == 1 ==> (g_destroyed == __CPROVER_old(g_destroyed) + 1 && g_destroyed_instance == __CPROVER_old(this->_instance)))
;

/* Complex::Complex(const Complex& c) : one more reference to the same object, nothing destroyed */
void _ZN4bloc7ComplexC2ERKS0_(struct Complex *this, struct Complex *c)
__CPROVER_requires(IS_FRESH(this, sizeof(*this)) && IS_FRESH(c, sizeof(*c)) && IS_FRESH(c->_refcount, sizeof(int)) && CX_INV(c) && __exc == 0 && GLOBALS_PINNED)
__CPROVER_requires(INPUT_STATE(g_destroyed))
__CPROVER_assigns(__CPROVER_object_whole(this), *c->_refcount)
PROP(C01) __CPROVER_ensures(__exc == 0)
PROP(C17) __CPROVER_ensures(this->_instance == c->_instance && this->_refcount == c->_refcount && RC(c) == __CPROVER_old(RC(c)) + 1 && g_destroyed == __CPROVER_old(g_destroyed))
PROP(C17) __CPROVER_ensures(this->_type._minor == c->_type._minor && this->_type._major == c->_type._major && CX_LIVE(this))
;

/* void Complex::swap(Complex& c) noexcept : exchange, counters untouched */
void _ZN4bloc7Complex4swapERS0_(struct Complex *this, struct Complex *c)
__CPROVER_requires(IS_FRESH(this, sizeof(*this)) && IS_FRESH(c, sizeof(*c)) && IS_FRESH(this->_refcount, sizeof(int)) && IS_FRESH(c->_refcount, sizeof(int)) && CX_INV(this) && CX_INV(c) && __exc == 0 && GLOBALS_PINNED)
__CPROVER_requires(INPUT_STATE(g_destroyed))
__CPROVER_assigns(__CPROVER_object_whole(this), __CPROVER_object_whole(c))
PROP(C01) __CPROVER_ensures(__exc == 0)
PROP(C17) __CPROVER_ensures(this->_instance == __CPROVER_old(c->_instance) && c->_instance == __CPROVER_old(this->_instance) && this->_refcount == __CPROVER_old(c->_refcount) && c->_refcount == __CPROVER_old(this->_refcount) &&
                            RC(this) == __CPROVER_old(RC(c)) && RC(c) == __CPROVER_old(RC(this)) && g_destroyed == __CPROVER_old(g_destroyed))
;

#ifdef ASSIGN_DISTINCT
#define ASSIGN_PRE (IS_FRESH(this->_refcount, sizeof(int)) && IS_FRESH(c->_refcount, sizeof(int)))
#else
/* both handles refer to the same object: they share the counter, which therefore counts at least two */
#define ASSIGN_PRE (IS_FRESH(c->_refcount, sizeof(int)) && PTR_EQ(this->_refcount, c->_refcount) && RC(c) >= 2 && this->_instance == c->_instance)
#endif
/* Complex& Complex::operator=(const Complex& c) : release the old object (destroyed iff last), share the new one */
struct Complex *_ZN4bloc7ComplexaSERKS0_(struct Complex *this, struct Complex *c)
__CPROVER_requires(IS_FRESH(this, sizeof(*this)) && IS_FRESH(c, sizeof(*c)) && ASSIGN_PRE && CX_INV(this) && CX_INV(c) && __exc == 0 && GLOBALS_PINNED)
__CPROVER_requires(INPUT_STATE(g_destroyed))
__CPROVER_requires(g_destroyed >= 0 && g_destroyed < 1000)
__CPROVER_assigns(__CPROVER_object_whole(this), *c->_refcount)
PROP(C01) __CPROVER_ensures(__exc == 0 && RET == this)
PROP(C17) __CPROVER_ensures(this->_instance == c->_instance && this->_refcount == c->_refcount && CX_LIVE(this))
#ifdef ASSIGN_DISTINCT
PROP(C17) __CPROVER_ensures(RC(c) == __CPROVER_old(RC(c)) + 1)
PROP(C17) __CPROVER_ensures(__CPROVER_old(RC(this)) > 1 ==> (g_destroyed == __CPROVER_old(g_destroyed) && *__CPROVER_old(this->_refcount) == __CPROVER_old(RC(this)) - 1))
PROP(C17) __CPROVER_ensures(__CPROVER_old(RC(this)) == 1 ==> (g_destroyed == __CPROVER_old(g_destroyed) + 1 && g_destroyed_instance == __CPROVER_old(this->_instance)))
#else
PROP(C17) __CPROVER_ensures(RC(c) == __CPROVER_old(RC(c)) && g_destroyed == __CPROVER_old(g_destroyed))
#endif
;

#include FNS_C
