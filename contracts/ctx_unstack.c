/* contract of bloc::Context::unstackControl (C06, C07): the loop on top of the control stack is finalised exactly once,
 * with its own record and in this context, and then popped; nothing below it is touched.
 * Precondition (every caller holds it: FOR / FORALL / WHILE doit after topControl() == this, onRuntimeError inside its
 * `while (topControl() ...)` loop): the stack is not empty -- std::vector::back() on an empty vector is undefined. */
#include "prelude.h"
struct Context__Control g_ctl_top; unsigned long g_ctl_len; int g_fin_n, g_pop_n; const void *g_fin_stmt, *g_fin_ctx; void *g_fin_data;
_Bool _ZNKSt6vectorIN4bloc7Context7ControlESaIS2_EE5emptyEv(const void *this) { (void)this; return g_ctl_len == 0; }
const struct Context__Control *_ZNKSt6vectorIN4bloc7Context7ControlESaIS2_EE4backEv(const void *this)
{ (void)this; __CPROVER_assert(g_ctl_len > 0, "std::vector::back() on a non-empty vector (undefined behaviour otherwise)"); return &g_ctl_top; }
void _ZNSt6vectorIN4bloc7Context7ControlESaIS2_EE8pop_backEv(void *this) { (void)this; __CPROVER_assert(g_ctl_len > 0, "std::vector::pop_back() on a non-empty vector"); g_ctl_len--; g_pop_n++; }
/* virtual void Controller::finalizeControl(Context&, void *data) const: contracts stmt_for / stmt_forall (finalize); does not throw */
void VCALL_Controller_finalizeControl(const struct Controller *s, struct Context *ctx, void *data)
{ __CPROVER_assert(g_pop_n == 0, "the loop is finalised while it is still on the stack"); g_fin_n++; g_fin_stmt = s; g_fin_ctx = ctx; g_fin_data = data; }

void _ZN4bloc7Context14unstackControlEv(struct Context *this)
__CPROVER_requires(IS_FRESH(this, sizeof(*this)) && IS_FRESH(g_ctl_top.stmt, sizeof(struct Controller)))
__CPROVER_requires(INPUT_STATE(g_ctl_len, g_ctl_top.data))
__CPROVER_requires(g_ctl_len > 0 && g_ctl_len < 1000000 && __exc == 0 && __caught_n == 0 && g_fin_n == 0 && g_pop_n == 0 && GLOBALS_PINNED)
__CPROVER_assigns()
PROP(C01, C07) __CPROVER_ensures(OK)
PROP(C06, C07) __CPROVER_ensures(g_fin_n == 1 && g_fin_stmt == (const void *)__CPROVER_old(g_ctl_top.stmt) && g_fin_data == __CPROVER_old(g_ctl_top.data) && g_fin_ctx == (const void *)this)
PROP(C06, C07) __CPROVER_ensures(g_pop_n == 1 && g_ctl_len == __CPROVER_old(g_ctl_len) - 1)
;

#include FNS_C
