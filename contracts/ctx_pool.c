/* contract of bloc::Context::Pool::keep -- Context::allocate(Value&&) (C05, C17, C01): the temporary a node allocates
 * is a slot of its own: not one of the slots handed out earlier in the same statement, holding the moved value (the
 * source is left null), and whatever an earlier statement left in that slot is released, once.
 * The pool (std::vector<Value*>) is modelled by a ghost array of at most POOL_MAX slots: BOUNDED. */
#include "prelude.h"
#define POOL_MAX 3
struct Value g_slot_obj[POOL_MAX]; struct Value *g_pool[POOL_MAX + 1]; unsigned long g_pool_len; int g_push_n, g_swap_n; struct Value *g_swap_this, *g_swap_arg;
unsigned long _ZNKSt6vectorIPN4bloc5ValueESaIS2_EE4sizeEv(const struct vec_ValuePtr *this) { (void)this; return g_pool_len; }
struct Value **_ZNSt6vectorIPN4bloc5ValueESaIS2_EEixEm(struct vec_ValuePtr *this, unsigned long n)
{ (void)this; __CPROVER_assert(n < g_pool_len, "std::vector<Value*>::operator[]: index within size() (undefined behaviour otherwise)"); return &g_pool[n]; }
void _ZNSt6vectorIPN4bloc5ValueESaIS2_EE9push_backEOS2_(struct vec_ValuePtr *this, struct Value **v)
{ (void)this; __CPROVER_assert(g_pool_len < POOL_MAX + 1, "model: room in the pool"); g_pool[g_pool_len++] = *v; g_push_n++; }
/* Value::swap(Value&&) and Value(Value&&): proved in jobs value_swap_rv / value_move_ctor; here: the same effect, recorded */
void _ZN4bloc5Value4swapEOS0_(struct Value *this, struct Value *v)
{ g_swap_n++; g_swap_this = this; g_swap_arg = v; this->_flags = v->_flags; this->_type._major = v->_type._major; this->_type._minor = v->_type._minor; this->_type._level = v->_type._level; this->_value.i = v->_value.i; v->_flags = 0; }
void _ZN4bloc5ValueC1EOS0_(struct Value *this, struct Value *v)
{ this->_flags = v->_flags; this->_type._major = v->_type._major; this->_type._minor = v->_type._minor; this->_type._level = v->_type._level; this->_value.i = v->_value.i; v->_flags = 0; }

#define HOLDS_MOVED(r) ((r)->_flags == __CPROVER_old(v->_flags) && V_MAJOR(r) == __CPROVER_old(V_MAJOR(v)) && V_MINOR(r) == __CPROVER_old(V_MINOR(v)) && V_LEVEL(r) == __CPROVER_old(V_LEVEL(v)) && (r)->_value.i == __CPROVER_old(v->_value.i))
struct Value *_ZN4bloc7Context4Pool4keepEONS_5ValueE(struct Context__Pool *this, struct Value *v)
__CPROVER_requires(IS_FRESH(this, sizeof(*this)) && IS_FRESH(v, sizeof(*v)))
__CPROVER_requires(INPUT_STATE(g_pool_len))
__CPROVER_requires(SET_EQ(g_pool[0], &g_slot_obj[0]) && SET_EQ(g_pool[1], &g_slot_obj[1]) && SET_EQ(g_pool[2], &g_slot_obj[2]))
/* the watermark never passes the pool size (invariant of Pool: wm <= pool.size()) */
__CPROVER_requires(g_pool_len <= POOL_MAX && this->wm <= g_pool_len && VALID_TAG(v) && __exc == 0 && __caught_n == 0 && g_push_n == 0 && g_swap_n == 0 && GLOBALS_PINNED)
__CPROVER_assigns(__CPROVER_object_whole(this))
PROP(C01) __CPROVER_ensures(OK && RET != 0 && RET != v)
/* the slot returned is the one at the old watermark: none of the slots [0, wm) handed out before in this statement */
PROP(C05) __CPROVER_ensures(this->wm == __CPROVER_old(this->wm) + 1 && this->wm <= g_pool_len && RET == g_pool[__CPROVER_old(this->wm)] &&
                            (__CPROVER_old(this->wm) > 0 ==> RET != g_pool[0]) && (__CPROVER_old(this->wm) > 1 ==> RET != g_pool[1]) && (__CPROVER_old(this->wm) > 2 ==> RET != g_pool[2]))
/* it holds the moved value; the source is left null */
PROP(C05, C17) __CPROVER_ensures(HOLDS_MOVED(RET) && v->_flags == 0)
/* a recycled slot releases what it held (Value::swap(Value&&)); a new slot is appended otherwise */
PROP(C17) __CPROVER_ensures((__CPROVER_old(this->wm) < __CPROVER_old(g_pool_len)) ==> (g_swap_n == 1 && g_swap_this == RET && g_swap_arg == v && g_push_n == 0 && g_pool_len == __CPROVER_old(g_pool_len)))
PROP(C17) __CPROVER_ensures((__CPROVER_old(this->wm) == __CPROVER_old(g_pool_len)) ==> (g_swap_n == 0 && g_push_n == 1 && g_pool_len == __CPROVER_old(g_pool_len) + 1 && RET != &g_slot_obj[0] && RET != &g_slot_obj[1] && RET != &g_slot_obj[2]))
;

#include FNS_C
