/* contract of bloc::ItemExpression::value  --  tuple@N (C09, C05, C02): the item at the (constant) position of a tuple is
 * handed out itself, owned storage exactly when the tuple is, with its declared type; a null tuple or a position beyond
 * the declaration is an index error; a receiver that is no tuple is a BLOC error; the tuple is only read.
 * Model as in member_set.c: the items are std::vector<Value> in the abstract container model (one ghost item), the
 * declaration a ghost length and the declared type of that position. */
#define PAYLOAD_LITERAL
#define PAYLOAD_TUPLE
#define HAVE_STD_STRING
#define CONTAINERS_MODEL
extern unsigned long g_decl_len;
#define RECEIVER_TUPLE_INV(t) (((unsigned long *)&(t)->v)[1] == g_decl_len)
#include "prelude.h"
#include "containers.h"
struct TupleDecl__Decl g_decl; unsigned long g_decl_len; struct Type g_decl_item;
const struct TupleDecl__Decl *VCALL_Tuple_tuple_decl(const struct Tuple *t) { (void)t; return &g_decl; }
unsigned long _ZNKSt6vectorIN4bloc4TypeESaIS1_EE4sizeEv(const void *this) { (void)this; return g_decl_len; }
struct std_string _ZNSt7__cxx119to_stringEj(unsigned v) { struct std_string s; (void)v; SZ(&s) = __g2c_nondet_ulong(); return s; }
#define RCV A1
#define ITEM (&g_tab_elem)
#define ITEM_AS_DECLARED (V_MAJOR(ITEM) == g_decl_item._major && V_LEVEL(ITEM) == g_decl_item._level && V_MINOR(ITEM) == g_decl_item._minor)
struct Value *_ZNK4bloc14ItemExpression5valueERNS_7ContextE(struct ItemExpression *this, struct Context *ctx)
__CPROVER_requires(IS_FRESH(this, sizeof(*this)) && IS_FRESH(ctx, sizeof(*ctx)) && IS_FRESH(this->_exp, sizeof(struct Expression)))
__CPROVER_requires(INPUT_STATE(g_nargs, VALUE_FIELDS(&g_tab_elem), g_decl_len, g_decl_item._major, g_decl_item._minor, g_decl_item._level))
__CPROVER_requires(g_nargs == 0 && __exc == 0 && g_eval_n == 0 && __caught_n == 0 && GLOBALS_PINNED)
__CPROVER_requires(VALID_TAG(ITEM) && ITEM_AS_DECLARED && g_decl_item._level == 0 && g_decl_item._major <= IMAGINARY && g_decl_item._major != POINTER && g_decl_len <= 0xfffffffful && this->_index < 0xffffffffu)
EVAL_ASSIGNS
ENS_ONLY_RT
PROP(C05) __CPROVER_ensures(g_eval_n <= 1 && (g_eval_n == 1 ==> g_eval_node[0] == this->_exp))
/* a null tuple, or a position beyond the declaration: index error */
PROP(C09) __CPROVER_ensures((g_eval_n == 1 && (V_ISNULL(RCV) || (V_IS(RCV, ROWTYPE) && (unsigned long)this->_index >= g_decl_len))) ==> THROWN_RT(EXC_RT_INDEX_RANGE_S))
/* in range: the item itself, owned storage exactly when the tuple is, of its declared type */
PROP(C09, C05, C02) __CPROVER_ensures((g_eval_n == 1 && V_IS(RCV, ROWTYPE) && !V_ISNULL(RCV) && (unsigned long)this->_index < g_decl_len) ==> (OK && RET == ITEM && V_LVALUE(RET) == V_LVALUE(RCV) && ITEM_AS_DECLARED))
/* the tuple is only read: the item's value, type and nullness do not change */
PROP(C05) __CPROVER_ensures(g_tab_elem._value.i == __CPROVER_old(g_tab_elem._value.i) && V_ISNULL(ITEM) == __CPROVER_old(V_ISNULL(ITEM)) && V_MAJOR(ITEM) == __CPROVER_old(V_MAJOR(ITEM)))
ENS_FRAME1
;

#include FNS_C
