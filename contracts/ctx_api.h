/* ctx_api.h -- contracts of the bloc::Context services that statements use, over a ghost model of the
 * control stack (top entry + depth is all a single doit() step can observe), the variable slot a loop
 * iterates over, and Executable::run.  Used by the statement contracts (C06, C07). */
#ifndef CTX_API_H
#define CTX_API_H
int g_ctl_depth; const void *g_ctl_top_stmt; void *g_ctl_top_data;      /* the control stack as seen from one step */
int g_ctl_pushes, g_ctl_pops; const void *g_ctl_popped_stmt; void *g_ctl_popped_data;
struct Symbol g_the_symbol;          /* the symbol of the variable the statement names */
struct Value g_iter_slot;            /* its storage slot */
unsigned g_symid;                    /* its id */
int g_run_count, g_store_calls;
const void *g_run_arg;               /* the statement list the last run() was given */
long g_iter_at_run;                 /* value of the control variable when the body started */

/* const Controller * Context::topControl() */
const struct Controller *_ZN4bloc7Context10topControlEv(struct Context *this)
__CPROVER_requires(__exc == 0)
__CPROVER_assigns()
__CPROVER_ensures(__exc == 0)
__CPROVER_ensures(PTR_EQ(__CPROVER_return_value, (g_ctl_depth > 0 ? g_ctl_top_stmt : 0)))
;
/* void * Context::topControlData() */
void *_ZN4bloc7Context14topControlDataEv(struct Context *this)
__CPROVER_requires(__exc == 0)
__CPROVER_assigns()
__CPROVER_ensures(__exc == 0)
__CPROVER_ensures(PTR_EQ(__CPROVER_return_value, (g_ctl_depth > 0 ? g_ctl_top_data : 0)))
;
/* void Context::stackControl(const Controller * stmt, void * data) : push */
void _ZN4bloc7Context12stackControlEPKNS_10ControllerEPv(struct Context *this, const struct Controller *stmt, void *data)
__CPROVER_requires(__exc == 0 && g_ctl_pushes == 0 && g_ctl_pops == 0)
__CPROVER_assigns(g_ctl_depth, g_ctl_top_stmt, g_ctl_top_data, g_ctl_pushes)
__CPROVER_ensures(__exc == 0)
__CPROVER_ensures(SET_EQ(g_ctl_depth, __CPROVER_old(g_ctl_depth) + 1) && PTR_EQ(g_ctl_top_stmt, stmt) && PTR_EQ(g_ctl_top_data, data) && SET_EQ(g_ctl_pushes, 1))
;
/* void Context::unstackControl() : pop; the popped statement's finalizeControl(ctx, data) runs (its own contract) */
void _ZN4bloc7Context14unstackControlEv(struct Context *this)
__CPROVER_requires(__exc == 0 && g_ctl_depth > 0 && g_ctl_pops == 0)
__CPROVER_assigns(g_ctl_depth, g_ctl_top_stmt, g_ctl_top_data, g_ctl_pops, g_ctl_popped_stmt, g_ctl_popped_data)
__CPROVER_ensures(__exc == 0)
__CPROVER_ensures(SET_EQ(g_ctl_depth, __CPROVER_old(g_ctl_depth) - 1) && SET_EQ(g_ctl_pops, 1) && PTR_EQ(g_ctl_popped_stmt, __CPROVER_old(g_ctl_top_stmt)) && PTR_EQ(g_ctl_popped_data, __CPROVER_old(g_ctl_top_data)))
;
#ifndef OWN_SYMBOL_MODEL   /* a contract that deals with two symbols (FORALL: iterator and table) brings its own */
/* Symbol& Context::getSymbol(unsigned id) */
struct Symbol *_ZN4bloc7Context9getSymbolEj(struct Context *this, unsigned id)
__CPROVER_requires(__exc == 0 && id == g_symid)
__CPROVER_assigns()
__CPROVER_ensures(__exc == 0)
__CPROVER_ensures(PTR_EQ(__CPROVER_return_value, &g_the_symbol))
;
/* unsigned VariableExpression::symbolId() const */
unsigned VCALL_VariableExpression_symbolId(struct VariableExpression *e) { (void)e; return g_symid; }
#endif

/* Value& Context::storeVariable(unsigned id, Value&& e): binds e to the variable (copy if e is owned storage,
 * move otherwise); refuses a locked symbol or a type change of a type-safe one with a RuntimeError */
struct Value *_ZN4bloc7Context13storeVariableEjONS_5ValueE(struct Context *this, unsigned id, struct Value *e)
__CPROVER_requires(__exc == 0 && id == g_symid && VALID_TAG(e))
__CPROVER_assigns(VALUE_FIELDS(&g_iter_slot), e->_flags, g_store_calls, __exc, __exc_type, __exc_obj)
__CPROVER_ensures(__exc == 0 || __exc == 1)
__CPROVER_ensures(__exc == 1 ==> (PTR_EQ(__exc_type, G2C_EXC_RuntimeError) && IS_FRESH(__exc_obj, sizeof(struct RuntimeError)) && e->_flags == __CPROVER_old(e->_flags)))
__CPROVER_ensures(g_store_calls == __CPROVER_old(g_store_calls) + 1)
__CPROVER_ensures(__exc == 0 ==> (PTR_EQ(__CPROVER_return_value, &g_iter_slot) &&
                  g_iter_slot._flags == (__CPROVER_old(e->_flags) | F_LVALUE) && V_MAJOR(&g_iter_slot) == __CPROVER_old(V_MAJOR(e)) &&
                  V_MINOR(&g_iter_slot) == __CPROVER_old(V_MINOR(e)) && V_LEVEL(&g_iter_slot) == __CPROVER_old(V_LEVEL(e)) &&
                  g_iter_slot._value.i == __CPROVER_old(e->_value.i) &&
                  e->_flags == (__CPROVER_old(V_LVALUE(e)) ? __CPROVER_old(e->_flags) : 0)))
;
/* static void Executable::run(Context&, const std::list<const Statement*>&): runs the body.  The body may set
 * any of the break/continue/return conditions, may assign the control variable (its type is protected by the
 * safety flag, its value and nullness are not) and may throw a RuntimeError. */
struct std_list_StatementPtr;
int _ZN4bloc10Executable3runERNS_7ContextERKNSt7__cxx114listIPKNS_9StatementESaIS7_EEE(struct Context *ctx, const struct std_list_StatementPtr *stmts)
__CPROVER_requires(__exc == 0)
__CPROVER_assigns(ctx->_breakCondition, ctx->_continueCondition, ctx->_returnCondition, ctx->_root->_returnCondition, g_run_count, g_iter_at_run, g_run_arg,
                  g_iter_slot._value.i, g_iter_slot._flags, __exc, __exc_type, __exc_obj)
__CPROVER_ensures(__exc == 0 || __exc == 1)
__CPROVER_ensures(__exc == 1 ==> (PTR_EQ(__exc_type, G2C_EXC_RuntimeError) && IS_FRESH(__exc_obj, sizeof(struct RuntimeError))))
__CPROVER_ensures(g_run_count == __CPROVER_old(g_run_count) + 1 && g_iter_at_run == __CPROVER_old(g_iter_slot._value.i) && PTR_EQ(g_run_arg, stmts))
__CPROVER_ensures((g_iter_slot._flags & ~F_NOTNULL) == (__CPROVER_old(g_iter_slot._flags) & ~F_NOTNULL))
;
#endif
