/* contract of bloc::CHRExpression::value  --  chr(code): the one-character string of an 8-bit code (C10) */
#define PAYLOAD_LITERAL
#define HAVE_STD_STRING
#define CONTAINERS_MODEL
#define FRAME_TAGS C05, C10   /* C10: "leave their arguments unchanged" */
#include "prelude.h"
#include "containers.h"

#define ARG A1
struct Value *_ZNK4bloc13CHRExpression5valueERNS_7ContextE(struct CHRExpression *this, struct Context *ctx)
__CPROVER_requires(IS_FRESH(this, sizeof(*this)) && IS_FRESH(ctx, sizeof(*ctx)))
__CPROVER_requires(INPUT_STATE(g_nargs))
__CPROVER_requires(this->_base_BuiltinExpression.oper >= 0 && this->_base_BuiltinExpression.oper < 128)
__CPROVER_requires(g_nargs == 1 && ARGS_PINNED && __exc == 0 && g_eval_n == 0 && __caught_n == 0 && GLOBALS_PINNED)
EVAL_ASSIGNS
ENS_ONLY_RT
ENS_EVAL_ONE_ARG
/* chr succeeds exactly on codes 0..255 and rejects every other integer with OUT_OF_RANGE */
PROP(C10) __CPROVER_ensures((g_eval_n == 1 && IS_INT(ARG) && V_I(ARG) >= 0 && V_I(ARG) <= 255) ==> (OK && V_IS(RET, LITERAL) && !V_ISNULL(RET) && CW(RET->_value.p, 1) == 1))
PROP(C10) __CPROVER_ensures((g_eval_n == 1 && IS_INT(ARG) && (V_I(ARG) < 0 || V_I(ARG) > 255)) ==> THROWN_RT(EXC_RT_OUT_OF_RANGE))
/* a decimal code: accepted exactly when 0 <= d < 256 (truncated); every other decimal, NaN included, is OUT_OF_RANGE */
PROP(C10) __CPROVER_ensures((g_eval_n == 1 && V_IS(ARG, NUMERIC) && V_LEVEL(ARG) == 0 && !V_ISNULL(ARG) && !(V_D(ARG) >= 0.0 && V_D(ARG) < 256.0)) ==> THROWN_RT(EXC_RT_OUT_OF_RANGE))
PROP(C10) __CPROVER_ensures((g_eval_n == 1 && V_IS(ARG, NUMERIC) && V_LEVEL(ARG) == 0 && !V_ISNULL(ARG) && V_D(ARG) >= 0.0 && V_D(ARG) < 256.0) ==> (OK && V_IS(RET, LITERAL) && !V_ISNULL(RET) && CW(RET->_value.p, 1) == 1))
/* a null code gives a null string */
PROP(C10) __CPROVER_ensures((g_eval_n == 1 && V_ISNULL(ARG) && (V_IS(ARG, NO_TYPE) || V_IS(ARG, INTEGER) || V_IS(ARG, NUMERIC))) ==> (OK && V_IS(RET, LITERAL) && V_ISNULL(RET)))
ENS_TYPE(LITERAL)
ENS_FRAME1
ENS_OWN1
;

#include FNS_C
