/* contract of bloc::StringReader::read (C13): one call hands the scanner the next chunk of the source text -- the
 * bytes from the current position up to and including the next line feed, or up to max_size bytes, or to the end,
 * whichever comes first, with carriage returns dropped -- and moves the position by exactly the bytes consumed: across
 * calls no byte is lost, duplicated or reordered, whatever the line lengths and the buffer size.
 * The text (std::string) is modelled WITH its contents by a ghost array of at most TEXT_MAX bytes and the loop is
 * unwound: BOUNDED (texts of at most TEXT_MAX bytes; every content, every position, every buffer size). */
#include "prelude_lite.h"
#define TEXT_MAX 6
char g_text[TEXT_MAX + 1]; unsigned long g_text_len;
char g_buf[TEXT_MAX + 2];
/* ---- ASSUMED model of std::string iteration: an iterator is a pointer into the ghost array ---- */
#define IT(p) (*(char **)(p))
struct str_iterator _ZNSt7__cxx1112basic_stringIcSt11char_traitsIcESaIcEE5beginEv(struct std_string *this) { struct str_iterator it; (void)this; IT(&it) = &g_text[0]; return it; }
struct str_iterator _ZNSt7__cxx1112basic_stringIcSt11char_traitsIcESaIcEE3endEv(struct std_string *this) { struct str_iterator it; (void)this; IT(&it) = &g_text[g_text_len]; return it; }
struct str_iterator _ZNK9__gnu_cxx17__normal_iteratorIPcNSt7__cxx1112basic_stringIcSt11char_traitsIcESaIcEEEEplEl(const struct str_iterator *this, long n)
{ struct str_iterator it; __CPROVER_assert(IT(this) + n >= &g_text[0] && IT(this) + n <= &g_text[g_text_len], "iterator + n stays within [begin, end] (undefined behaviour otherwise)"); IT(&it) = IT(this) + n; return it; }
_Bool _ZN9__gnu_cxxneIPcNSt7__cxx1112basic_stringIcSt11char_traitsIcESaIcEEEEEbRKNS_17__normal_iteratorIT_T0_EESD_(const struct str_iterator *a, const struct str_iterator *b) { return IT(a) != IT(b); }
char *_ZNK9__gnu_cxx17__normal_iteratorIPcNSt7__cxx1112basic_stringIcSt11char_traitsIcESaIcEEEEdeEv(const struct str_iterator *this)
{ __CPROVER_assert(IT(this) >= &g_text[0] && IT(this) < &g_text[g_text_len], "iterator dereferenced inside [begin, end)"); return IT(this); }
struct str_iterator *_ZN9__gnu_cxx17__normal_iteratorIPcNSt7__cxx1112basic_stringIcSt11char_traitsIcESaIcEEEEppEv(struct str_iterator *this)
{ __CPROVER_assert(IT(this) >= &g_text[0] && IT(this) < &g_text[g_text_len], "iterator incremented inside [begin, end)"); IT(this) = IT(this) + 1; return this; }

/* ... and of indexed access, for a reader written with positions instead of iterators */
unsigned long _ZNKSt7__cxx1112basic_stringIcSt11char_traitsIcESaIcEE4sizeEv(const struct std_string *this) { (void)this; return g_text_len; }
unsigned long _ZNKSt7__cxx1112basic_stringIcSt11char_traitsIcESaIcEE6lengthEv(const struct std_string *this) { (void)this; return g_text_len; }
char *_ZNSt7__cxx1112basic_stringIcSt11char_traitsIcESaIcEEixEm(struct std_string *this, unsigned long n)
{ (void)this; __CPROVER_assert(n <= g_text_len, "std::string::operator[]: index within [0, size()] (undefined behaviour otherwise)"); return &g_text[n]; }
char *_ZNSt7__cxx1112basic_stringIcSt11char_traitsIcESaIcEE2atEm(struct std_string *this, unsigned long n)
{ (void)this; __CPROVER_assert(n < g_text_len, "model: std::string::at inside the text (it throws otherwise)"); return &g_text[n]; }

/* ---- the specification, written from the property: scan from pos; CR is dropped, other bytes are copied, LF ends the chunk ---- */
int g_spec_n; unsigned long g_spec_pos; char g_spec_out[TEXT_MAX + 2];
static _Bool spec_chunk(unsigned long pos, int max_size)
{
  g_spec_n = 0; g_spec_pos = pos;
  for (int k = 0; k < TEXT_MAX + 1; ++k)
  {
    if (g_spec_pos >= g_text_len || g_spec_n >= max_size) break;
    char ch = g_text[g_spec_pos]; g_spec_pos++;
    if (ch != '\r') g_spec_out[g_spec_n++] = ch;
    if (ch == '\n') break;
  }
  return 1;
}
#define OUT_EQ(k) (g_spec_n <= (k) || g_buf[k] == g_spec_out[k])
#define TEXT_SAME(k) (g_text[k] == __CPROVER_old(g_text[k]))

int _ZN4bloc12StringReader4readEPNS_6ParserEPci(struct StringReader *this, struct Parser *parser, char *buf, int max_size)
__CPROVER_requires(IS_FRESH(this, sizeof(*this)))
__CPROVER_requires(INPUT_STATE(g_text_len, g_text[0], g_text[1], g_text[2], g_text[3], g_text[4], g_text[5], g_buf[0], g_buf[1], g_buf[2], g_buf[3], g_buf[4], g_buf[5], g_buf[6]))
__CPROVER_requires(PTR_EQ(buf, g_buf))
__CPROVER_requires(g_text_len <= TEXT_MAX && this->_pos <= g_text_len && max_size >= 0 && max_size <= TEXT_MAX + 1 && __exc == 0)
__CPROVER_assigns(this->_pos, __CPROVER_object_whole(g_buf))
PROP(C01, C13) __CPROVER_ensures(OK)
/* the chunk is what the specification says, the position moves by exactly the bytes consumed */
PROP(C13) __CPROVER_ensures(spec_chunk(__CPROVER_old(this->_pos), max_size) && RET == g_spec_n && this->_pos == g_spec_pos)
PROP(C13) __CPROVER_ensures(OUT_EQ(0) && OUT_EQ(1) && OUT_EQ(2) && OUT_EQ(3) && OUT_EQ(4) && OUT_EQ(5) && OUT_EQ(6))
/* progress: a call returns no byte only at the end of the text, for an empty buffer, or when only carriage returns were left */
PROP(C13) __CPROVER_ensures((RET == 0 && max_size > 0) ==> this->_pos == g_text_len)
PROP(C13) __CPROVER_ensures(RET >= 0 && RET <= max_size && this->_pos >= __CPROVER_old(this->_pos) && this->_pos <= g_text_len)
/* the text itself is not modified, and nothing is written beyond the bytes returned */
PROP(C13) __CPROVER_ensures(TEXT_SAME(0) && TEXT_SAME(1) && TEXT_SAME(2) && TEXT_SAME(3) && TEXT_SAME(4) && TEXT_SAME(5) && g_buf[TEXT_MAX + 1] == __CPROVER_old(g_buf[TEXT_MAX + 1]))
;

#include FNS_C
