/* rt.h -- runtime for g2c-rendered code: exception lowering (DESIGN 2.2), allocation, misc.
 * Generic part: nothing here knows a BLOC function.  */
#ifndef G2C_RT_H
#define G2C_RT_H
#include <stdint.h>
#include <stddef.h>

#define G2C_NOT(x) _Generic((x), _Bool: !(x), default: ~(x))

/* float -> integer conversions are defined exactly when the truncated value is representable */
#define G2C_F2I_OK_long(d)   ((d) >= -0x1p63 && (d) < 0x1p63)
#define G2C_F2I_OK_ulong(d)  ((d) > -1.0 && (d) < 0x1p64)
#define G2C_F2I_OK_int(d)    ((d) > -2147483649.0 && (d) < 2147483648.0)
#define G2C_F2I_OK_uint(d)   ((d) > -1.0 && (d) < 4294967296.0)
#define G2C_F2I_OK_short(d)  ((d) > -32769.0 && (d) < 32768.0)
#define G2C_F2I_OK_ushort(d) ((d) > -1.0 && (d) < 65536.0)
#define G2C_F2I_OK_schar(d)  ((d) > -129.0 && (d) < 128.0)
#define G2C_F2I_OK_uchar(d)  ((d) > -1.0 && (d) < 256.0)

/* *, / and % of 64-bit integers and doubles.  Default: the C operator.  With G2C_ABSTRACT_MULDIV the
 * machine operation is an uninterpreted function -- the same symbol in rendered code and in the spec
 * functions of contracts/arith.h -- so "the code applies the operation to exactly these operand
 * values" is decided by congruence instead of by comparing two multiplier circuits (which no SAT
 * back end here finishes). */
#ifdef G2C_ABSTRACT_MULDIV
unsigned long __CPROVER_uninterpreted_umul64(unsigned long, unsigned long);
long __CPROVER_uninterpreted_smul64(long, long);
double __CPROVER_uninterpreted_dmul(double, double);
unsigned long __CPROVER_uninterpreted_udiv64(unsigned long, unsigned long);
long __CPROVER_uninterpreted_sdiv64(long, long);
double __CPROVER_uninterpreted_ddiv(double, double);
unsigned long __CPROVER_uninterpreted_umod64(unsigned long, unsigned long);
long __CPROVER_uninterpreted_smod64(long, long);
#define G2C_MUL(x, y) _Generic((x), unsigned long: __CPROVER_uninterpreted_umul64((x), (y)), long: __CPROVER_uninterpreted_smul64((x), (y)), \
                               double: __CPROVER_uninterpreted_dmul((x), (y)), default: ((x) * (y)))
#define G2C_DIV(x, y) _Generic((x), unsigned long: __CPROVER_uninterpreted_udiv64((x), (y)), long: __CPROVER_uninterpreted_sdiv64((x), (y)), \
                               double: __CPROVER_uninterpreted_ddiv((x), (y)), default: ((x) / (y)))
#define G2C_MOD(x, y) _Generic((x), unsigned long: __CPROVER_uninterpreted_umod64((x), (y)), long: __CPROVER_uninterpreted_smod64((x), (y)), \
                               default: ((x) % (y)))
double __CPROVER_uninterpreted_dadd(double, double);
double __CPROVER_uninterpreted_dsub(double, double);
#define G2C_ADD(x, y) _Generic((x), double: __CPROVER_uninterpreted_dadd((x), (y)), default: ((x) + (y)))
#define G2C_SUB(x, y) _Generic((x), double: __CPROVER_uninterpreted_dsub((x), (y)), default: ((x) - (y)))
#else
#define G2C_ADD(x, y) ((x) + (y))
#define G2C_SUB(x, y) ((x) - (y))
#define G2C_MUL(x, y) ((x) * (y))
#define G2C_DIV(x, y) ((x) / (y))
#define G2C_MOD(x, y) ((x) % (y))
#endif

/* ---- pending exception (ghost state) ---- */
int   __exc;        /* 1 while an exception is propagating */
void *__exc_obj;    /* the exception object */
const void *__exc_type; /* address of its std::type_info object (_ZTI...) */
/* stack of caught (being handled) exceptions, for rethrow */
void *__caught_obj[4]; const void *__caught_type[4]; int __caught_n;

void __g2c_terminate(void)
{
  __CPROVER_assert(0, "exception escapes a noexcept region: std::terminate()");
  __CPROVER_assume(0);
}
void __g2c_landing_pad(void) { __exc = 0; /* in flight: landing-pad code runs with the flag down */ }
void __g2c_resume(void) { __exc = 1; /* resx: the exception resumes propagating */ }

void *__cxa_allocate_exception(unsigned long n)
{
  void *p = __CPROVER_allocate(n, 0);
  return p;
}
void __cxa_free_exception(void *p) { (void)p; }
void __cxa_throw(void *obj, const void *tinfo, void *dtor)
{
  (void)dtor;
  __exc = 1; __exc_obj = obj; __exc_type = tinfo;
}
void *__builtin_eh_pointer(int region) { (void)region; return __exc_obj; }
/* guarded initialisation of a function-local static (single thread): the guard's first byte says "initialised" */
unsigned char __atomic_load_1(const void *p, int order) { (void)order; return *(const unsigned char *)p; }
char __dso_handle;
void __g2c_atexit_dropped(void) { }   /* stands for a __cxa_atexit registration (dropped by the renderer) */
int __cxa_guard_acquire(long *g) { return *(unsigned char *)g == 0; }
void __cxa_guard_release(long *g) { *(unsigned char *)g = 1; }
void __cxa_guard_abort(long *g) { (void)g; }
void *__cxa_begin_catch(void *p)
{
  __CPROVER_assert(__caught_n < 4, "g2c: catch nesting deeper than the model's stack");
  __caught_obj[__caught_n] = __exc_obj; __caught_type[__caught_n] = __exc_type; __caught_n++;
  __exc = 0;
  return p;
}
void __cxa_end_catch(void)
{
  __CPROVER_assert(__caught_n > 0, "g2c: end_catch without begin_catch");
  __caught_n--;
}
void __cxa_rethrow(void)
{
  __CPROVER_assert(__caught_n > 0, "g2c: rethrow outside a handler");
  __exc = 1; __exc_obj = __caught_obj[__caught_n - 1]; __exc_type = __caught_type[__caught_n - 1];
}

/* libc character functions whose address is taken (std::transform(.., ::toupper)) */
int tolower(int); int toupper(int);

/* ---- operator new / delete: never fail (DESIGN 2.2 item 5) ---- */
#ifndef G2C_NEW_HOOK
#define G2C_NEW_HOOK(n)
#endif
void *_Znwm(unsigned long n) { G2C_NEW_HOOK(n) return __CPROVER_allocate(n, 0); }
void *_Znam(unsigned long n) { return __CPROVER_allocate(n, 0); }
#ifndef G2C_DELETE_HOOK
#define G2C_DELETE_HOOK(p)
#endif
void _ZdlPv(void *p) { G2C_DELETE_HOOK(p) if (p) __CPROVER_deallocate(p); }
void _ZdlPvm(void *p, unsigned long n) { (void)n; if (p) __CPROVER_deallocate(p); }
void _ZdaPv(void *p) { if (p) __CPROVER_deallocate(p); }

#endif
