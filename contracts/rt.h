/* rt.h -- runtime for g2c-rendered code: exception lowering (DESIGN 2.2), allocation, misc.
 * Generic part: nothing here knows a BLOC function.  */
#ifndef G2C_RT_H
#define G2C_RT_H
#include <stdint.h>
#include <stddef.h>

#define G2C_NOT(x) _Generic((x), _Bool: !(x), default: ~(x))

/* ---- pending exception (ghost state) ---- */
int   __exc;        /* 1 while an exception is propagating */
void *__exc_obj;    /* the exception object */
const void *__exc_type; /* address of its std::type_info object (_ZTI...) */
/* stack of caught (being handled) exceptions, for rethrow */
void *__caught_obj[4]; const void *__caught_type[4]; int __caught_n;

void __g2c_terminate(void)
{
  __CPROVER_assert(0, "exception escapes a noexcept region: std::terminate()");
  __CPROVER_assume(0);
}
void __g2c_resume(void) { /* resx: exception keeps propagating to the caller */ }

void *__cxa_allocate_exception(unsigned long n)
{
  void *p = __CPROVER_allocate(n, 0);
  return p;
}
void __cxa_free_exception(void *p) { (void)p; }
void __cxa_throw(void *obj, const void *tinfo, void *dtor)
{
  (void)dtor;
  __exc = 1; __exc_obj = obj; __exc_type = tinfo;
}
void *__builtin_eh_pointer(int region) { (void)region; return __exc_obj; }
void *__cxa_begin_catch(void *p)
{
  __CPROVER_assert(__caught_n < 4, "g2c: catch nesting deeper than the model's stack");
  __caught_obj[__caught_n] = __exc_obj; __caught_type[__caught_n] = __exc_type; __caught_n++;
  __exc = 0;
  return p;
}
void __cxa_end_catch(void)
{
  __CPROVER_assert(__caught_n > 0, "g2c: end_catch without begin_catch");
  __caught_n--;
}
void __cxa_rethrow(void)
{
  __CPROVER_assert(__caught_n > 0, "g2c: rethrow outside a handler");
  __exc = 1; __exc_obj = __caught_obj[__caught_n - 1]; __exc_type = __caught_type[__caught_n - 1];
}

/* ---- operator new / delete: never fail (DESIGN 2.2 item 5) ---- */
void *_Znwm(unsigned long n) { return __CPROVER_allocate(n, 0); }
void *_Znam(unsigned long n) { return __CPROVER_allocate(n, 0); }
void _ZdlPv(void *p) { if (p) __CPROVER_deallocate(p); }
void _ZdlPvm(void *p, unsigned long n) { (void)n; if (p) __CPROVER_deallocate(p); }
void _ZdaPv(void *p) { if (p) __CPROVER_deallocate(p); }

#endif
