/* contract of CSVParser::serialize (modules/csv/csvparser.cpp) (C18, C01): one CSV record is written so that reading it
 * back gives the same fields, whatever bytes they hold: the fields are joined by the separator; a field that contains
 * the separator, the quote character, a carriage return or a line feed is enclosed in quotes (RFC 4180) with every quote
 * character inside doubled; every other field is written as it is.
 * Fields and output are modelled WITH contents: a row of at most R_MAX fields of at most F_MAX bytes, an output of at
 * most O_MAX bytes, loops unwound: BOUNDED (every field content, every separator / quote character). */
#include "prelude_lite.h"
#define R_MAX 2
#define F_MAX 2
#define O_MAX (R_MAX * (2 * F_MAX + 2) + R_MAX)
struct std_string g_field_obj[R_MAX + 1]; char g_field[R_MAX + 1][F_MAX + 1]; unsigned long g_flen[R_MAX + 1], g_rows;
char g_out[O_MAX + 2]; unsigned long g_outlen; const void *g_out_obj, *g_tmp_obj, *g_row_obj;
char g_tmp[2 * F_MAX + 1]; unsigned long g_tmplen;
#ifndef G2C_HAVE_str_citerator
struct str_citerator { void *p; };
#endif
#ifndef G2C_HAVE_vstr_citerator
struct vstr_citerator { void *p; };
#endif
#define ITC(p) (*(char **)(p))
#define ITF(p) (*(struct std_string **)(p))
#define FIELD_IDX(s) ((unsigned long)((const struct std_string *)(s) - &g_field_obj[0]))
#define IS_FIELD(s) __CPROVER_same_object((s), g_field_obj)
/* ---- ASSUMED model of std::vector<std::string> (the row) and of std::string with contents ---- */
struct vstr_citerator _ZNKSt6vectorINSt7__cxx1112basic_stringIcSt11char_traitsIcESaIcEEESaIS5_EE5beginEv(const void *this) { struct vstr_citerator it; __CPROVER_assert(this == g_row_obj, "model: the row"); ITF(&it) = &g_field_obj[0]; return it; }
struct vstr_citerator _ZNKSt6vectorINSt7__cxx1112basic_stringIcSt11char_traitsIcESaIcEEESaIS5_EE3endEv(const void *this) { struct vstr_citerator it; (void)this; ITF(&it) = &g_field_obj[g_rows]; return it; }
_Bool _ZN9__gnu_cxxneIPKNSt7__cxx1112basic_stringIcSt11char_traitsIcESaIcEEESt6vectorIS6_SaIS6_EEEEbRKNS_17__normal_iteratorIT_T0_EESH_(const struct vstr_citerator *a, const struct vstr_citerator *b) { return ITF(a) != ITF(b); }
const struct std_string *_ZNK9__gnu_cxx17__normal_iteratorIPKNSt7__cxx1112basic_stringIcSt11char_traitsIcESaIcEEESt6vectorIS6_SaIS6_EEEdeEv(const struct vstr_citerator *this)
{ __CPROVER_assert(ITF(this) >= &g_field_obj[0] && ITF(this) < &g_field_obj[g_rows], "std::vector iterator dereferenced inside [begin, end)"); return ITF(this); }
struct vstr_citerator *_ZN9__gnu_cxx17__normal_iteratorIPKNSt7__cxx1112basic_stringIcSt11char_traitsIcESaIcEEESt6vectorIS6_SaIS6_EEEppEv(struct vstr_citerator *this) { ITF(this) = ITF(this) + 1; return this; }
/* a field: begin / end / iterator */
struct str_citerator _ZNKSt7__cxx1112basic_stringIcSt11char_traitsIcESaIcEE5beginEv(const struct std_string *this)
{ struct str_citerator it; __CPROVER_assert(IS_FIELD(this) && FIELD_IDX(this) < g_rows, "model: a field of the row is scanned"); ITC(&it) = &g_field[FIELD_IDX(this)][0]; return it; }
struct str_citerator _ZNKSt7__cxx1112basic_stringIcSt11char_traitsIcESaIcEE3endEv(const struct std_string *this)
{ struct str_citerator it; __CPROVER_assert(IS_FIELD(this) && FIELD_IDX(this) < g_rows, "model: a field of the row is scanned"); ITC(&it) = &g_field[FIELD_IDX(this)][g_flen[FIELD_IDX(this)]]; return it; }
_Bool _ZN9__gnu_cxxneIPKcNSt7__cxx1112basic_stringIcSt11char_traitsIcESaIcEEEEEbRKNS_17__normal_iteratorIT_T0_EESE_(const struct str_citerator *a, const struct str_citerator *b) { return ITC(a) != ITC(b); }
const char *_ZNK9__gnu_cxx17__normal_iteratorIPKcNSt7__cxx1112basic_stringIcSt11char_traitsIcESaIcEEEEdeEv(const struct str_citerator *this) { __CPROVER_assert(__CPROVER_r_ok(ITC(this), 1), "string iterator dereferenced inside the string"); return ITC(this); }
struct str_citerator *_ZN9__gnu_cxx17__normal_iteratorIPKcNSt7__cxx1112basic_stringIcSt11char_traitsIcESaIcEEEEppEv(struct str_citerator *this) { ITC(this) = ITC(this) + 1; return this; }
/* the output and the local tmp: string(), ~string, clear, push_back, append(const string&) */
void _ZNSt7__cxx1112basic_stringIcSt11char_traitsIcESaIcEEC1Ev(struct std_string *this) { g_tmp_obj = this; g_tmplen = 0; }
void _ZNSt7__cxx1112basic_stringIcSt11char_traitsIcESaIcEED1Ev(struct std_string *this) { (void)this; }
void _ZNSt7__cxx1112basic_stringIcSt11char_traitsIcESaIcEE5clearEv(struct std_string *this) { __CPROVER_assert((const void *)this == g_out_obj, "model: the output is cleared"); g_outlen = 0; }
void _ZNSt7__cxx1112basic_stringIcSt11char_traitsIcESaIcEE9push_backEc(struct std_string *this, char c)
{
  if ((const void *)this == g_out_obj) { __CPROVER_assert(g_outlen < O_MAX, "model: room in the output"); g_out[g_outlen++] = c; }
  else { __CPROVER_assert((const void *)this == g_tmp_obj, "model: output or tmp"); __CPROVER_assert(g_tmplen < 2 * F_MAX, "model: room in tmp"); g_tmp[g_tmplen++] = c; }
}
struct std_string *_ZNSt7__cxx1112basic_stringIcSt11char_traitsIcESaIcEE6appendERKS4_(struct std_string *this, const struct std_string *s)
{
  __CPROVER_assert((const void *)this == g_out_obj && (const void *)s == g_tmp_obj, "model: tmp is appended to the output");
  for (unsigned long k = 0; k < 2 * F_MAX; ++k) { if (k >= g_tmplen) break; __CPROVER_assert(g_outlen < O_MAX, "model: room in the output"); g_out[g_outlen++] = g_tmp[k]; }
  return this;
}

/* ---- the specification, from the sentence above ---- */
char g_spec[O_MAX + 2]; unsigned long g_speclen;
static _Bool needs_quotes(unsigned long f, char sep, char q) { for (unsigned long k = 0; k < F_MAX; ++k) { if (k >= g_flen[f]) break; char c = g_field[f][k]; if (c == sep || c == q || c == '\r' || c == '\n') return 1; } return 0; }
static _Bool spec(char sep, char q)
{
  g_speclen = 0;
  for (unsigned long f = 0; f < R_MAX; ++f)
  {
    if (f >= g_rows) break;
    if (f > 0) g_spec[g_speclen++] = sep;
    _Bool quote = needs_quotes(f, sep, q);
    if (quote) g_spec[g_speclen++] = q;
    for (unsigned long k = 0; k < F_MAX; ++k) { if (k >= g_flen[f]) break; if (g_field[f][k] == q) g_spec[g_speclen++] = q; g_spec[g_speclen++] = g_field[f][k]; }
    if (quote) g_spec[g_speclen++] = q;
  }
  return 1;
}
#define OUT_EQ(k) (g_speclen <= (k) || g_out[k] == g_spec[k])

void _ZN9CSVParser9serializeERNSt7__cxx1112basic_stringIcSt11char_traitsIcESaIcEEERKSt6vectorIS5_SaIS5_EE(struct CSVParser *this, struct std_string *out, const void *row)
__CPROVER_requires(IS_FRESH(this, sizeof(*this)) && IS_FRESH(out, sizeof(*out)) && IS_FRESH(row, 24))
__CPROVER_requires(INPUT_STATE(g_rows, g_flen[0], g_flen[1], g_field[0][0], g_field[0][1], g_field[1][0], g_field[1][1], g_outlen))
__CPROVER_requires(SET_EQ(g_out_obj, (const void *)out) && SET_EQ(g_row_obj, row))
__CPROVER_requires(g_rows <= R_MAX && g_flen[0] <= F_MAX && g_flen[1] <= F_MAX && g_outlen <= O_MAX && __exc == 0)
__CPROVER_assigns()
PROP(C01, C18) __CPROVER_ensures(OK)
/* the record is exactly what the quoting rule prescribes, byte for byte */
PROP(C18) __CPROVER_ensures(spec(this->m_separator, this->m_encapsulator) && g_outlen == g_speclen)
PROP(C18) __CPROVER_ensures(OUT_EQ(0) && OUT_EQ(1) && OUT_EQ(2) && OUT_EQ(3) && OUT_EQ(4) && OUT_EQ(5) && OUT_EQ(6) && OUT_EQ(7) && OUT_EQ(8) && OUT_EQ(9) && OUT_EQ(10) && OUT_EQ(11) && OUT_EQ(12) && OUT_EQ(13))
/* the row is only read */
PROP(C18) __CPROVER_ensures(g_rows == __CPROVER_old(g_rows) && g_flen[0] == __CPROVER_old(g_flen[0]) && g_flen[1] == __CPROVER_old(g_flen[1]) && g_field[0][0] == __CPROVER_old(g_field[0][0]) && g_field[0][1] == __CPROVER_old(g_field[0][1]) && g_field[1][0] == __CPROVER_old(g_field[1][0]) && g_field[1][1] == __CPROVER_old(g_field[1][1]))
;

#include FNS_C
