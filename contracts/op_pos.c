/* contract of bloc::OpPOSExpression::value  (unary plus) */
#include "prelude.h"

struct Value *_ZNK4bloc15OpPOSExpression5valueERNS_7ContextE(struct OpPOSExpression *this, struct Context *ctx)
EVAL_PRE_UNOP
EVAL_ASSIGNS
ENS_ONLY_RT
ENS_EVAL_ONE
/* unary plus hands its operand through */
PROP(C03) __CPROVER_ensures(OK ==> (RET == O1 && V_SAME(O1, A1)))
PROP(C02) __CPROVER_ensures(OK ==> (V_MAJOR(RET) == V_MAJOR(A1) && V_LEVEL(RET) == V_LEVEL(A1) && VALID_TAG(RET)))
ENS_FRAME1
ENS_OWN1
;

#include FNS_C
