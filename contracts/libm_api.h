/* libm_api.h -- libm / <cmath> templates reached from rendered code.  ASSUMED contracts: total, no trap,
 * no exception, result unconstrained (nothing in the claims depends on the numeric result). */
#ifndef LIBM_API_H
#define LIBM_API_H
double __g2c_nondet_double(void);
#define LIBM2(name, T1, T2) double name(T1 x, T2 y) { (void)x; (void)y; return __g2c_nondet_double(); }
/* std::pow<double,int>, <double,long>, <long,double>, <long,long> */
LIBM2(_ZSt3powIdiEN9__gnu_cxx11__promote_2IT_T0_NS0_9__promoteIS2_XsrSt12__is_integerIS2_E7__valueEE6__typeENS4_IS3_XsrS5_IS3_E7__valueEE6__typeEE6__typeES2_S3_, double, int)
LIBM2(_ZSt3powIdlEN9__gnu_cxx11__promote_2IT_T0_NS0_9__promoteIS2_XsrSt12__is_integerIS2_E7__valueEE6__typeENS4_IS3_XsrS5_IS3_E7__valueEE6__typeEE6__typeES2_S3_, double, long)
LIBM2(_ZSt3powIldEN9__gnu_cxx11__promote_2IT_T0_NS0_9__promoteIS2_XsrSt12__is_integerIS2_E7__valueEE6__typeENS4_IS3_XsrS5_IS3_E7__valueEE6__typeEE6__typeES2_S3_, long, double)
LIBM2(_ZSt3powIllEN9__gnu_cxx11__promote_2IT_T0_NS0_9__promoteIS2_XsrSt12__is_integerIS2_E7__valueEE6__typeENS4_IS3_XsrS5_IS3_E7__valueEE6__typeEE6__typeES2_S3_, long, long)
/* std::fmod<double,long>, <long,double> */
LIBM2(_ZSt4fmodIdlEN9__gnu_cxx11__promote_2IT_T0_NS0_9__promoteIS2_XsrSt12__is_integerIS2_E7__valueEE6__typeENS4_IS3_XsrS5_IS3_E7__valueEE6__typeEE6__typeES2_S3_, double, long)
LIBM2(_ZSt4fmodIldEN9__gnu_cxx11__promote_2IT_T0_NS0_9__promoteIS2_XsrSt12__is_integerIS2_E7__valueEE6__typeENS4_IS3_XsrS5_IS3_E7__valueEE6__typeEE6__typeES2_S3_, long, double)
/* one-argument libm functions: total, no trap, result unconstrained (own definitions: CBMC's library models of these are
 * floating-point programs no clause needs) */
#define LIBM1(name) double name(double x) { (void)x; return __g2c_nondet_double(); }
LIBM1(sin) LIBM1(cos) LIBM1(tan) LIBM1(asin) LIBM1(acos) LIBM1(atan) LIBM1(sinh) LIBM1(cosh) LIBM1(tanh) LIBM1(exp) LIBM1(log) LIBM1(log10) LIBM1(sqrt)
LIBM1(ceil) LIBM1(floor) LIBM1(round) LIBM1(trunc) LIBM1(fabs)
/* the integer overloads of <cmath> (std::sin<long> etc.): convert and call the double function */
#define LIBM1I(name) double name(long x) { (void)x; return __g2c_nondet_double(); }
LIBM1I(_ZSt3sinIlEN9__gnu_cxx11__enable_ifIXsrSt12__is_integerIT_E7__valueEdE6__typeES3_)
LIBM1I(_ZSt3cosIlEN9__gnu_cxx11__enable_ifIXsrSt12__is_integerIT_E7__valueEdE6__typeES3_)
LIBM1I(_ZSt3tanIlEN9__gnu_cxx11__enable_ifIXsrSt12__is_integerIT_E7__valueEdE6__typeES3_)
LIBM1I(_ZSt4asinIlEN9__gnu_cxx11__enable_ifIXsrSt12__is_integerIT_E7__valueEdE6__typeES3_)
LIBM1I(_ZSt4acosIlEN9__gnu_cxx11__enable_ifIXsrSt12__is_integerIT_E7__valueEdE6__typeES3_)
LIBM1I(_ZSt4atanIlEN9__gnu_cxx11__enable_ifIXsrSt12__is_integerIT_E7__valueEdE6__typeES3_)
LIBM1I(_ZSt4sinhIlEN9__gnu_cxx11__enable_ifIXsrSt12__is_integerIT_E7__valueEdE6__typeES3_)
LIBM1I(_ZSt4coshIlEN9__gnu_cxx11__enable_ifIXsrSt12__is_integerIT_E7__valueEdE6__typeES3_)
LIBM1I(_ZSt4tanhIlEN9__gnu_cxx11__enable_ifIXsrSt12__is_integerIT_E7__valueEdE6__typeES3_)
LIBM1I(_ZSt3expIlEN9__gnu_cxx11__enable_ifIXsrSt12__is_integerIT_E7__valueEdE6__typeES3_)
LIBM1I(_ZSt3logIlEN9__gnu_cxx11__enable_ifIXsrSt12__is_integerIT_E7__valueEdE6__typeES3_)
LIBM1I(_ZSt5log10IlEN9__gnu_cxx11__enable_ifIXsrSt12__is_integerIT_E7__valueEdE6__typeES3_)
LIBM1I(_ZSt4sqrtIlEN9__gnu_cxx11__enable_ifIXsrSt12__is_integerIT_E7__valueEdE6__typeES3_)
LIBM1I(_ZSt4ceilIlEN9__gnu_cxx11__enable_ifIXsrSt12__is_integerIT_E7__valueEdE6__typeES3_)
LIBM1I(_ZSt5floorIlEN9__gnu_cxx11__enable_ifIXsrSt12__is_integerIT_E7__valueEdE6__typeES3_)
LIBM1I(_ZSt5roundIlEN9__gnu_cxx11__enable_ifIXsrSt12__is_integerIT_E7__valueEdE6__typeES3_)
LIBM1I(_ZSt5truncIlEN9__gnu_cxx11__enable_ifIXsrSt12__is_integerIT_E7__valueEdE6__typeES3_)
LIBM1I(_ZSt4fabsIlEN9__gnu_cxx11__enable_ifIXsrSt12__is_integerIT_E7__valueEdE6__typeES3_)
LIBM1I(_ZSt3absIlEN9__gnu_cxx11__enable_ifIXsrSt12__is_integerIT_E7__valueEdE6__typeES3_)
double _ZSt3absd(double x) { (void)x; return __g2c_nondet_double(); }   /* std::abs(double) */
LIBM2(_ZSt3powIilEN9__gnu_cxx11__promote_2IT_T0_NS0_9__promoteIS2_XsrSt12__is_integerIS2_E7__valueEE6__typeENS4_IS3_XsrS5_IS3_E7__valueEE6__typeEE6__typeES2_S3_, int, long)
double atan2(double y, double x) { (void)x; (void)y; return __g2c_nondet_double(); }
double pow(double x, double y) { (void)x; (void)y; return __g2c_nondet_double(); }
double fmod(double x, double y) { (void)x; (void)y; return __g2c_nondet_double(); }
#endif
