/* libm_api.h -- libm / <cmath> templates reached from rendered code.  ASSUMED contracts: total, no trap,
 * no exception, result unconstrained (nothing in the claims depends on the numeric result). */
#ifndef LIBM_API_H
#define LIBM_API_H
double __g2c_nondet_double(void);
#define LIBM2(name, T1, T2) double name(T1 x, T2 y) { (void)x; (void)y; return __g2c_nondet_double(); }
/* std::pow<double,int>, <double,long>, <long,double>, <long,long> */
LIBM2(_ZSt3powIdiEN9__gnu_cxx11__promote_2IT_T0_NS0_9__promoteIS2_XsrSt12__is_integerIS2_E7__valueEE6__typeENS4_IS3_XsrS5_IS3_E7__valueEE6__typeEE6__typeES2_S3_, double, int)
LIBM2(_ZSt3powIdlEN9__gnu_cxx11__promote_2IT_T0_NS0_9__promoteIS2_XsrSt12__is_integerIS2_E7__valueEE6__typeENS4_IS3_XsrS5_IS3_E7__valueEE6__typeEE6__typeES2_S3_, double, long)
LIBM2(_ZSt3powIldEN9__gnu_cxx11__promote_2IT_T0_NS0_9__promoteIS2_XsrSt12__is_integerIS2_E7__valueEE6__typeENS4_IS3_XsrS5_IS3_E7__valueEE6__typeEE6__typeES2_S3_, long, double)
LIBM2(_ZSt3powIllEN9__gnu_cxx11__promote_2IT_T0_NS0_9__promoteIS2_XsrSt12__is_integerIS2_E7__valueEE6__typeENS4_IS3_XsrS5_IS3_E7__valueEE6__typeEE6__typeES2_S3_, long, long)
/* std::fmod<double,long>, <long,double> */
LIBM2(_ZSt4fmodIdlEN9__gnu_cxx11__promote_2IT_T0_NS0_9__promoteIS2_XsrSt12__is_integerIS2_E7__valueEE6__typeENS4_IS3_XsrS5_IS3_E7__valueEE6__typeEE6__typeES2_S3_, double, long)
LIBM2(_ZSt4fmodIldEN9__gnu_cxx11__promote_2IT_T0_NS0_9__promoteIS2_XsrSt12__is_integerIS2_E7__valueEE6__typeENS4_IS3_XsrS5_IS3_E7__valueEE6__typeEE6__typeES2_S3_, long, double)
double pow(double x, double y) { (void)x; (void)y; return __g2c_nondet_double(); }
double fmod(double x, double y) { (void)x; (void)y; return __g2c_nondet_double(); }
#endif
