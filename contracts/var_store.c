/* contract of bloc::VariableExpression::store(Context& d_ctx, Context& s_ctx, Expression*) (C08, C05): the expression is
 * evaluated exactly once, in the RUNNING context (for an argument: the caller's), and its value is bound once, under this
 * variable's id, in the STORAGE context (for an argument: the callee's); an error of either passes through unchanged. */
#include "prelude.h"
int g_store_n; unsigned g_store_id; const void *g_store_ctx, *g_store_val; _Bool g_store_throws; const void *g_eval_ctx;
struct Value *_ZN4bloc7Context13storeVariableEjONS_5ValueE(struct Context *this, unsigned id, struct Value *e)
{ g_store_n++; g_store_id = id; g_store_ctx = this; g_store_val = e; if (g_store_throws) { __cxa_throw(__CPROVER_allocate(sizeof(struct RuntimeError), 0), G2C_EXC_RuntimeError, 0); return 0; } return e; }

void _ZNK4bloc18VariableExpression5storeERNS_7ContextES2_PNS_10ExpressionE(struct VariableExpression *this, struct Context *d_ctx, struct Context *s_ctx, struct Expression *s_exp)
__CPROVER_requires(IS_FRESH(this, sizeof(*this)) && IS_FRESH(d_ctx, sizeof(*d_ctx)) && IS_FRESH(s_ctx, sizeof(*s_ctx)) && IS_FRESH(s_exp, sizeof(*s_exp)))
__CPROVER_requires(INPUT_STATE(g_store_throws))
__CPROVER_requires(__exc == 0 && __caught_n == 0 && g_eval_n == 0 && g_store_n == 0 && GLOBALS_PINNED)
EVAL_ASSIGNS
PROP(C01, C07) __CPROVER_ensures(ONLY_RUNTIME_ERROR)
PROP(C05, C08) __CPROVER_ensures(g_eval_n <= 1 && (g_eval_n == 1 ==> (g_eval_node[0] == s_exp && g_eval_ctx_seen == (const void *)s_ctx)))
PROP(C08) __CPROVER_ensures(g_eval_n == 1 ==> (g_store_n == 1 && g_store_ctx == (const void *)d_ctx && g_store_id == this->_id && g_store_val == (const void *)g_eval_ret[0]))
PROP(C07, C08) __CPROVER_ensures(g_eval_n == 0 ==> (g_store_n == 0 && !OK))
PROP(C07) __CPROVER_ensures((g_eval_n == 1 && g_store_throws) ==> !OK)
;

#include FNS_C
