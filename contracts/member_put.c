/* contract of bloc::MemberPUTExpression::value  --  receiver.put(position, element) on tables, strings and bytes (C09) */
#define PAYLOAD_LITERAL
#define PAYLOAD_TABCHAR
#define PAYLOAD_COLLECTION
#define PAYLOAD_TUPLE
#define HAVE_STD_STRING
#define CONTAINERS_MODEL
/* the table a member method receives is uniform: its (ghost) element has exactly the element type
 * (ownership -- LVALUE -- is inherited from the table each time an element is accessed, member_at.cpp) */
#define ELEM_INV(c) (VALID_TAG(&g_tab_elem) && V_MAJOR(&g_tab_elem) == (c)->_type._major && V_MINOR(&g_tab_elem) == (c)->_type._minor && \
                     V_LEVEL(&g_tab_elem) + 1 == (c)->_type._level)
#define RECEIVER_TABLE_INV(c) ELEM_INV(c)
#define ISCONST_PINNED
#include "prelude.h"
#include "containers.h"

#define RCV  A1                    /* the receiver (first evaluation) */
#define POS  A2                    /* the position */
#define ARG  A3                    /* the new element */
#define COLL ((struct Collection *)O1->_value.p)
#define TAB_SIZE(c) SZ(&(c)->v)
#define IS_TABLE(v) (V_LEVEL(v) > 0 && !V_ISNULL(v))
#define ELEM_UNCHANGED (g_tab_elem._flags == __CPROVER_old(g_tab_elem._flags) && g_tab_elem._value.i == __CPROVER_old(g_tab_elem._value.i) && V_MAJOR(&g_tab_elem) == __CPROVER_old(V_MAJOR(&g_tab_elem)) && \
                        V_LEVEL(&g_tab_elem) == __CPROVER_old(V_LEVEL(&g_tab_elem)))
#define POS_INT (V_IS(POS, INTEGER) && !V_ISNULL(POS))

struct Value *_ZNK4bloc19MemberPUTExpression5valueERNS_7ContextE(struct MemberPUTExpression *this, struct Context *ctx)
__CPROVER_requires(IS_FRESH(this, sizeof(*this)) && IS_FRESH(ctx, sizeof(*ctx)) && IS_FRESH(this->_base_MemberExpression._exp, sizeof(struct Expression)))
__CPROVER_requires(INPUT_STATE(g_isconst_answer))
__CPROVER_requires(INPUT_STATE(g_nargs, VALUE_FIELDS(&g_tab_elem)))
__CPROVER_requires(g_nargs == 2 && ARGS_PINNED && __exc == 0 && g_eval_n == 0 && __caught_n == 0 && GLOBALS_PINNED)
/* tables of pointers do not exist (pointers are forall iterators) */
__CPROVER_requires(VALID_TAG(&g_tab_elem) && V_MAJOR(&g_tab_elem) != POINTER)
EVAL_ASSIGNS
ENS_ONLY_RT
/* a null receiver or a null position is an index error */
PROP(C09) __CPROVER_ensures((g_eval_n >= 2 && (V_ISNULL(RCV) || V_ISNULL(POS))) ==> (THROWN_RT(EXC_RT_INDEX_RANGE_S) && ELEM_UNCHANGED))
/* tables: out-of-range position => index error, the table is unchanged */
PROP(C09) __CPROVER_ensures((g_eval_n == 3 && IS_TABLE(RCV) && POS_INT && (V_I(POS) < 0 || (unsigned long)V_I(POS) >= g_eval_size[0])) ==> (THROWN_RT(EXC_RT_INDEX_RANGE_S) && ELEM_UNCHANGED))
/* tables: whatever happens, the table stays uniform and keeps its length */
PROP(C09) __CPROVER_ensures((g_eval_n == 3 && IS_TABLE(RCV)) ==> (ELEM_INV(COLL) && TAB_SIZE(COLL) == g_eval_size[0]))
/* tables: success returns the receiver; failure is INDEX_RANGE, TYPE_MISMATCH or (decimal beyond the integer range) OUT_OF_RANGE and leaves the element alone */
PROP(C09) __CPROVER_ensures((g_eval_n == 3 && IS_TABLE(RCV) && OK) ==> RET == O1)
PROP(C09) __CPROVER_ensures((g_eval_n == 3 && IS_TABLE(RCV) && POS_INT && !OK) ==> ((THROWN_RT(EXC_RT_INDEX_RANGE_S) || THROWN_RT(EXC_RT_TYPE_MISMATCH_S) || THROWN_RT(EXC_RT_OUT_OF_RANGE)) && ELEM_UNCHANGED))
/* strings and bytes: position checked, code outside 0..255 rejected with OUT_OF_RANGE */
PROP(C09, C10) __CPROVER_ensures((g_eval_n == 3 && (V_IS(RCV, LITERAL) || V_IS(RCV, TABCHAR)) && !V_ISNULL(RCV) && POS_INT && V_I(POS) >= 0 && (unsigned long)V_I(POS) < g_eval_size[0] && V_IS(ARG, INTEGER) && !V_ISNULL(ARG) && (V_I(ARG) < 0 || V_I(ARG) > 255)) ==> THROWN_RT(EXC_RT_OUT_OF_RANGE))
PROP(C09) __CPROVER_ensures((g_eval_n == 3 && (V_IS(RCV, LITERAL) || V_IS(RCV, TABCHAR)) && !V_ISNULL(RCV) && POS_INT && (V_I(POS) < 0 || (unsigned long)V_I(POS) >= g_eval_size[0])) ==> THROWN_RT(EXC_RT_INDEX_RANGE_S))
ENS_FRAME2
/* (C17: an owned element value is copied into the table, never moved out of its variable -- the variable keeps its object) */
PROP(C05, C17) __CPROVER_ensures((g_eval_n >= 3 && V_LVALUE(A3)) ==> (V_SAME(O3, A3) && (FRAME_STR(O3, A3, 2))))
/* C02: the call is typed like its receiver, and a successful call returns a value of the receiver's (defined) type */
PROP(C02) __CPROVER_ensures((OK && g_eval_n >= 1 && V_MAJOR(A1) != NO_TYPE) ==> (V_MAJOR(RET) == V_MAJOR(A1) && V_LEVEL(RET) == V_LEVEL(A1) && (V_MINOR(RET) == V_MINOR(A1) || (V_MAJOR(A1) == ROWTYPE && V_MINOR(A1) == 0 /* opaque tuple declaration */))))
/* C05 / C14: a receiver that is a constant of the program (a string literal in the source, shared by every run and every clone of the compiled
 * program) is only read -- whether or not the code asks isConst() */
PROP(C05, C14) __CPROVER_ensures((g_isconst_answer && g_eval_n >= 1 && V_IS(A1, LITERAL) && !V_ISNULL(A1)) ==> (V_SAME(O1, A1) && (FRAME_STR(O1, A1, 0))))
/* (a constant node hands out owned storage: proved by the const_* jobs, so V_LVALUE(A1) is part of what 'constant receiver' means) */
PROP(C05, C14) __CPROVER_ensures((OK && g_isconst_answer && g_eval_n >= 1 && V_IS(A1, LITERAL) && !V_ISNULL(A1) && V_LVALUE(A1)) ==> (RET != O1 && !V_LVALUE(RET)))   /* ... and never handed out as the receiver of a further in-place method */
;

#include FNS_C
