/* contracts of the in-place assignments of the C API (blocc/bloc_capi.cpp, docs/BLOC-C-API.md): bloc_assign_literal.
 * The value handed in may be a script variable obtained with bloc_ctx_load_variable (an "lvalue"): the assignment
 * replaces the payload and must keep that ownership mark, whatever the new payload is -- a script reading the variable
 * afterwards would otherwise consume it (C15: values stored through the API are the values scripts read). */
#define PAYLOAD_LITERAL
#define HAVE_STD_STRING
#define CONTAINERS_MODEL
#define CONTAINERS_STRINGS_ONLY
/* the string built from the C string is remembered: it must be the new payload */
struct std_string *g_built; const char *g_built_from;
#define STR_FROM_CSTR_HOOK(str, cstr) g_built = (str); g_built_from = (cstr);
#include "prelude.h"
#include "containers.h"

#define VV ((struct Value *)v)
#define UNCHANGED (VV->_flags == __CPROVER_old(VV->_flags) && VV->_value.i == __CPROVER_old(VV->_value.i) && V_MAJOR(VV) == __CPROVER_old(V_MAJOR(VV)) && V_LEVEL(VV) == __CPROVER_old(V_LEVEL(VV)) && V_MINOR(VV) == __CPROVER_old(V_MINOR(VV)))

/* bloc_bool bloc_assign_literal(bloc_value*, const char*) */
char bloc_assign_literal(struct bloc_value *v, const char *s)
__CPROVER_requires(IS_FRESH(v, sizeof(struct Value)) && VALID_TAG(VV) && __exc == 0 && __caught_n == 0 && GLOBALS_PINNED)
__CPROVER_requires(s != 0 ==> IS_FRESH(s, 4))
__CPROVER_assigns(__CPROVER_object_whole(v), g_built, g_built_from)
PROP(C01, C15) __CPROVER_ensures(__exc == 0)
/* accepted exactly for a scalar string or an untyped value */
PROP(C15) __CPROVER_ensures((RET == 1) == (__CPROVER_old(V_LEVEL(VV)) == 0 && (__CPROVER_old(V_MAJOR(VV)) == LITERAL || __CPROVER_old(V_MAJOR(VV)) == NO_TYPE)))
PROP(C15) __CPROVER_ensures(RET != 1 ==> (RET == 0 && UNCHANGED))
/* the value becomes a string, null exactly for a NULL argument, holding the string built from the argument, and keeps its ownership mark */
PROP(C15) __CPROVER_ensures(RET == 1 ==> (V_IS(VV, LITERAL) && V_ISNULL(VV) == (s == 0) && V_LVALUE(VV) == __CPROVER_old(V_LVALUE(VV))))
PROP(C15) __CPROVER_ensures((RET == 1 && s != 0) ==> (g_built != 0 && PTR_EQ(VV->_value.p, g_built) && PTR_EQ(g_built_from, s)))
;

#include FNS_C
