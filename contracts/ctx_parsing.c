/* contract of bloc::Context::parsingEnd (C11): every symbol whose type was changed while a text was being compiled
 * gets back the type it had before (the oldest backup wins: backups are undone newest first), symbols without a
 * backup are not touched, and the backup list is emptied.  The backup list (std::vector<Symbol>) is modelled by a ghost
 * array of at most 3 backups over a symbol table of 2 symbols and the loop is unwound: BOUNDED. */
#define HAVE_STD_STRING
#define CONTAINERS_MODEL
#define CONTAINERS_STRINGS_ONLY
#include "prelude.h"
#include "containers.h"

#define BK_MAX 3
#define NSYM 2
struct Symbol g_backup[BK_MAX + 1]; unsigned long g_backup_len; int g_clear_n;
struct Symbol g_sym[NSYM]; struct Context__MemorySlot g_slots[NSYM];
#define ROWTYPE 7
/* ---- ASSUMED model of the backup vector and of the symbol table ----
 * every way of walking the vector is provided (const and non-const iterators, forwards and backwards) so that an
 * equivalent rewrite of the loop stays within the model */
#ifndef G2C_HAVE_vsym_citerator   /* the iterator types exist in the generated header only if the code uses them */
struct vsym_citerator { struct Symbol *p; };
#endif
#ifndef G2C_HAVE_vsym_iterator
struct vsym_iterator { struct Symbol *p; };
#endif
#define IT_PTR(it) (*(struct Symbol **)(it))
#define IN_RANGE(p) ((p) >= &g_backup[0] && (p) < &g_backup[g_backup_len])
struct vsym_citerator _ZNKSt6vectorIN4bloc6SymbolESaIS1_EE4cendEv(const struct vec_Symbol *this) { struct vsym_citerator it; (void)this; IT_PTR(&it) = &g_backup[g_backup_len]; return it; }
struct vsym_citerator _ZNKSt6vectorIN4bloc6SymbolESaIS1_EE6cbeginEv(const struct vec_Symbol *this) { struct vsym_citerator it; (void)this; IT_PTR(&it) = &g_backup[0]; return it; }
struct vsym_citerator _ZNKSt6vectorIN4bloc6SymbolESaIS1_EE3endEv(const struct vec_Symbol *this) { struct vsym_citerator it; (void)this; IT_PTR(&it) = &g_backup[g_backup_len]; return it; }
struct vsym_citerator _ZNKSt6vectorIN4bloc6SymbolESaIS1_EE5beginEv(const struct vec_Symbol *this) { struct vsym_citerator it; (void)this; IT_PTR(&it) = &g_backup[0]; return it; }
struct vsym_iterator _ZNSt6vectorIN4bloc6SymbolESaIS1_EE5beginEv(struct vec_Symbol *this) { struct vsym_iterator it; (void)this; IT_PTR(&it) = &g_backup[0]; return it; }
struct vsym_iterator _ZNSt6vectorIN4bloc6SymbolESaIS1_EE3endEv(struct vec_Symbol *this) { struct vsym_iterator it; (void)this; IT_PTR(&it) = &g_backup[g_backup_len]; return it; }
_Bool _ZN9__gnu_cxxneIPN4bloc6SymbolEPKS2_St6vectorIS2_SaIS2_EEEEbRKNS_17__normal_iteratorIT_T1_EERKNS9_IT0_SB_EE(const struct vsym_iterator *a, const struct vsym_citerator *b) { return IT_PTR(a) != IT_PTR(b); }
_Bool _ZN9__gnu_cxxneIPN4bloc6SymbolESt6vectorIS2_SaIS2_EEEEbRKNS_17__normal_iteratorIT_T0_EESC_(const struct vsym_iterator *a, const struct vsym_iterator *b) { return IT_PTR(a) != IT_PTR(b); }
_Bool _ZN9__gnu_cxxneIPKN4bloc6SymbolESt6vectorIS2_SaIS2_EEEEbRKNS_17__normal_iteratorIT_T0_EESD_(const struct vsym_citerator *a, const struct vsym_citerator *b) { return IT_PTR(a) != IT_PTR(b); }
struct vsym_citerator *_ZN9__gnu_cxx17__normal_iteratorIPKN4bloc6SymbolESt6vectorIS2_SaIS2_EEEmmEv(struct vsym_citerator *this)
{ __CPROVER_assert(IT_PTR(this) > &g_backup[0] && IT_PTR(this) <= &g_backup[g_backup_len], "std::vector iterator decremented inside (begin, end]"); IT_PTR(this) = IT_PTR(this) - 1; return this; }
struct vsym_iterator *_ZN9__gnu_cxx17__normal_iteratorIPN4bloc6SymbolESt6vectorIS2_SaIS2_EEEmmEv(struct vsym_iterator *this)
{ __CPROVER_assert(IT_PTR(this) > &g_backup[0] && IT_PTR(this) <= &g_backup[g_backup_len], "std::vector iterator decremented inside (begin, end]"); IT_PTR(this) = IT_PTR(this) - 1; return this; }
struct vsym_citerator *_ZN9__gnu_cxx17__normal_iteratorIPKN4bloc6SymbolESt6vectorIS2_SaIS2_EEEppEv(struct vsym_citerator *this)
{ __CPROVER_assert(IN_RANGE(IT_PTR(this)), "std::vector iterator incremented inside [begin, end)"); IT_PTR(this) = IT_PTR(this) + 1; return this; }
struct vsym_iterator *_ZN9__gnu_cxx17__normal_iteratorIPN4bloc6SymbolESt6vectorIS2_SaIS2_EEEppEv(struct vsym_iterator *this)
{ __CPROVER_assert(IN_RANGE(IT_PTR(this)), "std::vector iterator incremented inside [begin, end)"); IT_PTR(this) = IT_PTR(this) + 1; return this; }
const struct Symbol *_ZNK9__gnu_cxx17__normal_iteratorIPKN4bloc6SymbolESt6vectorIS2_SaIS2_EEEptEv(const struct vsym_citerator *this)
{ __CPROVER_assert(IN_RANGE(IT_PTR(this)), "std::vector iterator dereferenced inside [begin, end)"); return IT_PTR(this); }
const struct Symbol *_ZNK9__gnu_cxx17__normal_iteratorIPKN4bloc6SymbolESt6vectorIS2_SaIS2_EEEdeEv(const struct vsym_citerator *this)
{ __CPROVER_assert(IN_RANGE(IT_PTR(this)), "std::vector iterator dereferenced inside [begin, end)"); return IT_PTR(this); }
struct Symbol *_ZNK9__gnu_cxx17__normal_iteratorIPN4bloc6SymbolESt6vectorIS2_SaIS2_EEEptEv(const struct vsym_iterator *this)
{ __CPROVER_assert(IN_RANGE(IT_PTR(this)), "std::vector iterator dereferenced inside [begin, end)"); return IT_PTR(this); }
struct Symbol *_ZNK9__gnu_cxx17__normal_iteratorIPN4bloc6SymbolESt6vectorIS2_SaIS2_EEEdeEv(const struct vsym_iterator *this)
{ __CPROVER_assert(IN_RANGE(IT_PTR(this)), "std::vector iterator dereferenced inside [begin, end)"); return IT_PTR(this); }
/* ... backwards with reverse iterators ([reverse.iterators]: a reverse iterator holds `current`; *r is *(current - 1); ++r is --current) */
#ifndef G2C_HAVE_vsym_criterator
struct vsym_criterator { struct Symbol *p; };
#endif
struct vsym_criterator _ZNKSt6vectorIN4bloc6SymbolESaIS1_EE7crbeginEv(const struct vec_Symbol *this) { struct vsym_criterator it; (void)this; IT_PTR(&it) = &g_backup[g_backup_len]; return it; }
struct vsym_criterator _ZNKSt6vectorIN4bloc6SymbolESaIS1_EE5crendEv(const struct vec_Symbol *this) { struct vsym_criterator it; (void)this; IT_PTR(&it) = &g_backup[0]; return it; }
struct vsym_criterator _ZNKSt6vectorIN4bloc6SymbolESaIS1_EE6rbeginEv(const struct vec_Symbol *this) { struct vsym_criterator it; (void)this; IT_PTR(&it) = &g_backup[g_backup_len]; return it; }
struct vsym_criterator _ZNKSt6vectorIN4bloc6SymbolESaIS1_EE4rendEv(const struct vec_Symbol *this) { struct vsym_criterator it; (void)this; IT_PTR(&it) = &g_backup[0]; return it; }
const struct Symbol *_ZNKSt16reverse_iteratorIN9__gnu_cxx17__normal_iteratorIPKN4bloc6SymbolESt6vectorIS3_SaIS3_EEEEEdeEv(const struct vsym_criterator *this)
{ __CPROVER_assert(IT_PTR(this) > &g_backup[0] && IT_PTR(this) <= &g_backup[g_backup_len], "std::reverse_iterator dereferenced inside [rbegin, rend)"); return IT_PTR(this) - 1; }
const struct Symbol *_ZNKSt16reverse_iteratorIN9__gnu_cxx17__normal_iteratorIPKN4bloc6SymbolESt6vectorIS3_SaIS3_EEEEEptEv(const struct vsym_criterator *this)
{ __CPROVER_assert(IT_PTR(this) > &g_backup[0] && IT_PTR(this) <= &g_backup[g_backup_len], "std::reverse_iterator dereferenced inside [rbegin, rend)"); return IT_PTR(this) - 1; }
struct vsym_criterator *_ZNSt16reverse_iteratorIN9__gnu_cxx17__normal_iteratorIPKN4bloc6SymbolESt6vectorIS3_SaIS3_EEEEEppEv(struct vsym_criterator *this)
{ __CPROVER_assert(IT_PTR(this) > &g_backup[0] && IT_PTR(this) <= &g_backup[g_backup_len], "std::reverse_iterator incremented inside [rbegin, rend)"); IT_PTR(this) = IT_PTR(this) - 1; return this; }
_Bool _ZStneIN9__gnu_cxx17__normal_iteratorIPKN4bloc6SymbolESt6vectorIS3_SaIS3_EEEEEbRKSt16reverse_iteratorIT_ESE_(const struct vsym_criterator *a, const struct vsym_criterator *b) { return IT_PTR(a) != IT_PTR(b); }
_Bool _ZSteqIN9__gnu_cxx17__normal_iteratorIPKN4bloc6SymbolESt6vectorIS3_SaIS3_EEEEEbRKSt16reverse_iteratorIT_ESE_(const struct vsym_criterator *a, const struct vsym_criterator *b) { return IT_PTR(a) == IT_PTR(b); }
/* ... and by position: size, empty, operator[], at, front, back */
unsigned long _ZNKSt6vectorIN4bloc6SymbolESaIS1_EE4sizeEv(const struct vec_Symbol *this) { (void)this; return g_backup_len; }
_Bool _ZNKSt6vectorIN4bloc6SymbolESaIS1_EE5emptyEv(const struct vec_Symbol *this) { (void)this; return g_backup_len == 0; }
struct Symbol *_ZNSt6vectorIN4bloc6SymbolESaIS1_EEixEm(struct vec_Symbol *this, unsigned long n)
{ (void)this; __CPROVER_assert(n < g_backup_len, "std::vector<Symbol>::operator[]: index within size() (undefined behaviour otherwise)"); return &g_backup[n]; }
const struct Symbol *_ZNKSt6vectorIN4bloc6SymbolESaIS1_EEixEm(const struct vec_Symbol *this, unsigned long n)
{ (void)this; __CPROVER_assert(n < g_backup_len, "std::vector<Symbol>::operator[]: index within size() (undefined behaviour otherwise)"); return &g_backup[n]; }
struct Symbol *_ZNSt6vectorIN4bloc6SymbolESaIS1_EE4backEv(struct vec_Symbol *this)
{ (void)this; __CPROVER_assert(g_backup_len > 0, "std::vector<Symbol>::back on an empty vector is undefined"); return &g_backup[g_backup_len - 1]; }
const struct Symbol *_ZNKSt6vectorIN4bloc6SymbolESaIS1_EE4backEv(const struct vec_Symbol *this)
{ (void)this; __CPROVER_assert(g_backup_len > 0, "std::vector<Symbol>::back on an empty vector is undefined"); return &g_backup[g_backup_len - 1]; }
void _ZNSt6vectorIN4bloc6SymbolESaIS1_EE8pop_backEv(struct vec_Symbol *this)
{ (void)this; __CPROVER_assert(g_backup_len > 0, "std::vector<Symbol>::pop_back on an empty vector is undefined"); g_backup_len--; }
void _ZNSt6vectorIN4bloc6SymbolESaIS1_EE5clearEv(struct vec_Symbol *this) { (void)this; g_backup_len = 0; g_clear_n++; }
struct Context__MemorySlot *_ZNSt6vectorIN4bloc7Context10MemorySlotESaIS2_EEixEm(struct vec_MemorySlot *this, unsigned long n)
{ (void)this; __CPROVER_assert(n < NSYM, "std::vector<MemorySlot>::operator[]: index within size() (undefined behaviour otherwise)"); return &g_slots[n]; }
/* const Decl& Symbol::tuple_decl() const (virtual): the symbol's own tuple declaration */
const struct TupleDecl__Decl *VCALL_Symbol_tuple_decl(const struct Symbol *s) { return &s->_decl; }
/* void Symbol::upgrade(const Type&): takes the type, drops the tuple declaration (symbol.cpp:27) */
void _ZN4bloc6Symbol7upgradeERKNS_4TypeE(struct Symbol *this, const struct Type *t)
{ this->_base_Type._major = t->_major; this->_base_Type._minor = t->_minor; this->_base_Type._level = t->_level; CW(&this->_decl._base_vec_Type, 0) = 0; }
/* void Symbol::upgrade(const Decl&, TypeLevel): a tuple type of that declaration and level (symbol.cpp:38) */
void _ZN4bloc6Symbol7upgradeERKNS_9TupleDecl4DeclEh(struct Symbol *this, const struct TupleDecl__Decl *d, unsigned char level)
{ this->_base_Type._major = ROWTYPE; this->_base_Type._minor = 0; this->_base_Type._level = level; CW(&this->_decl._base_vec_Type, 0) = CW(&d->_base_vec_Type, 0); }

#define DECL_ID(s) CW(&(s)->_decl._base_vec_Type, 0)
#define BK_IS(k, id) ((k) < __CPROVER_old(g_backup_len) && g_backup[k]._id == (id))
/* the type symbol `id` had before the compilation started: its oldest backup */
#define RESTORED_FROM(id, k) (g_sym[id]._base_Type._major == g_backup[k]._base_Type._major && g_sym[id]._base_Type._level == g_backup[k]._base_Type._level && \
                              (g_backup[k]._base_Type._major == ROWTYPE ? DECL_ID(&g_sym[id]) == DECL_ID(&g_backup[k]) : (g_sym[id]._base_Type._minor == g_backup[k]._base_Type._minor && DECL_ID(&g_sym[id]) == 0)))
#define RESTORED(id) ((BK_IS(0, id) ==> RESTORED_FROM(id, 0)) && ((!BK_IS(0, id) && BK_IS(1, id)) ==> RESTORED_FROM(id, 1)) && ((!BK_IS(0, id) && !BK_IS(1, id) && BK_IS(2, id)) ==> RESTORED_FROM(id, 2)))
#define UNTOUCHED(id) ((!BK_IS(0, id) && !BK_IS(1, id) && !BK_IS(2, id)) ==> (g_sym[id]._base_Type._major == __CPROVER_old(g_sym[id]._base_Type._major) && g_sym[id]._base_Type._minor == __CPROVER_old(g_sym[id]._base_Type._minor) && \
                       g_sym[id]._base_Type._level == __CPROVER_old(g_sym[id]._base_Type._level) && DECL_ID(&g_sym[id]) == __CPROVER_old(DECL_ID(&g_sym[id]))))
#define TY_INPUT(s) (s)._base_Type._major, (s)._base_Type._minor, (s)._base_Type._level, DECL_ID(&(s)), (s)._id

void _ZN4bloc7Context10parsingEndEv(struct Context *this)
__CPROVER_requires(IS_FRESH(this, sizeof(*this)))
__CPROVER_requires(INPUT_STATE(g_backup_len, TY_INPUT(g_backup[0]), TY_INPUT(g_backup[1]), TY_INPUT(g_backup[2]), TY_INPUT(g_sym[0]), TY_INPUT(g_sym[1])))
__CPROVER_requires(SET_EQ(g_slots[0].symbol, &g_sym[0]) && SET_EQ(g_slots[1].symbol, &g_sym[1]))
/* backups are copies of symbols of this table (registerSymbol pushes *s) */
__CPROVER_requires(g_backup_len <= BK_MAX && g_backup[0]._id < NSYM && g_backup[1]._id < NSYM && g_backup[2]._id < NSYM && g_sym[0]._id == 0 && g_sym[1]._id == 1)
__CPROVER_requires(__exc == 0 && __caught_n == 0 && g_clear_n == 0 && GLOBALS_PINNED)
__CPROVER_assigns(__CPROVER_object_whole(this))
PROP(C01, C11) __CPROVER_ensures(OK)
PROP(C02, C11, C15) __CPROVER_ensures(RESTORED(0) && RESTORED(1))
PROP(C11) __CPROVER_ensures(UNTOUCHED(0) && UNTOUCHED(1))
PROP(C11) __CPROVER_ensures(g_backup_len == 0 && g_clear_n == 1 && this->_parsing == 0)
/* names, ids and constraints are never touched by the restore */
PROP(C11) __CPROVER_ensures(g_sym[0]._id == 0 && g_sym[1]._id == 1 && g_sym[0]._safety == __CPROVER_old(g_sym[0]._safety) && g_sym[0]._locked == __CPROVER_old(g_sym[0]._locked) && g_sym[1]._safety == __CPROVER_old(g_sym[1]._safety) && g_sym[1]._locked == __CPROVER_old(g_sym[1]._locked))
;

#include FNS_C
