/* contract of bloc::OpADDExpression::value  (operator +, also string concatenation) */
#define PAYLOAD_IMAGINARY
#define PAYLOAD_LITERAL
#include "prelude.h"

struct Value *_ZNK4bloc15OpADDExpression5valueERNS_7ContextE(struct OpADDExpression *this, struct Context *ctx)
EVAL_PRE_BINOP
EVAL_ASSIGNS
ENS_ONLY_RT
ENS_EVAL_BOTH
ENS_ARITH_II((C03), SPEC_ADD)
ENS_ARITH_D((C03, UF), D_ADD)
ENS_TYPE_ARITH
/* string + string gives a string */
PROP(C02) __CPROVER_ensures((OK && g_eval_n == 2 && V_IS(A1, LITERAL)) ==> V_IS(RET, LITERAL))
ENS_FRAME1
ENS_FRAME2
ENS_OWN2
;

#include FNS_C
