/* contracts of bloc::Context::clone and of the copy constructor of Context::MemorySlot (C14):
 * a clone is a new context with the flags of the original; every variable slot of the original is copied into it, in
 * order, through MemorySlot's copy constructor -- which makes a new Symbol object and a deep copy of the value
 * (Value::clone, contract in value_clone.c) -- and its function declarations are reset from the original's
 * (FunctorManager::reset, contract in fm_reset.c); the original is not modified.
 * The symbol table is modelled by a ghost array of at most 2 slots: Context::clone is BOUNDED. */
#define HAVE_STD_STRING
#define CONTAINERS_MODEL
#define CONTAINERS_STRINGS_ONLY
#include "prelude.h"
#include "containers.h"

#ifdef JOB_CLONE
#define POOL_MAX 2
struct Context__MemorySlot g_pool[POOL_MAX + 1]; unsigned long g_pool_len;
struct FunctorManager *g_new_fctm_ptr; char g_new_fctm_obj[64];
int g_ctor_n, g_push_n, g_reset_n, g_reserve_n; const void *g_push_arg[POOL_MAX + 1], *g_push_vec[POOL_MAX + 1], *g_reset_this, *g_reset_arg; struct Context *g_ctor_this;
#ifndef G2C_HAVE_vslot_citerator
struct vslot_citerator { void *p; };
#endif
#define IT_PTR(it) (*(struct Context__MemorySlot **)(it))
int fileno(struct _IO_FILE *f) { (void)f; return __g2c_nondet_int(); }
/* Context::Context(int fd_out, int fd_err): a new root context, untrusted, with its own (empty) function manager */
void _ZN4bloc7ContextC1Eii(struct Context *this, int fd_out, int fd_err)
{ (void)fd_out; (void)fd_err; g_ctor_n++; g_ctor_this = this; this->_flags = 0; this->_fctm = (struct FunctorManager *)g_new_fctm_obj; this->_root = this; }
unsigned long _ZNKSt6vectorIN4bloc7Context10MemorySlotESaIS2_EE4sizeEv(const struct vec_MemorySlot *this) { (void)this; return g_pool_len; }
void _ZNSt6vectorIN4bloc7Context10MemorySlotESaIS2_EE7reserveEm(struct vec_MemorySlot *this, unsigned long n) { (void)this; (void)n; g_reserve_n++; }
struct vslot_citerator _ZNKSt6vectorIN4bloc7Context10MemorySlotESaIS2_EE5beginEv(const struct vec_MemorySlot *this) { struct vslot_citerator it; (void)this; IT_PTR(&it) = &g_pool[0]; return it; }
struct vslot_citerator _ZNKSt6vectorIN4bloc7Context10MemorySlotESaIS2_EE3endEv(const struct vec_MemorySlot *this) { struct vslot_citerator it; (void)this; IT_PTR(&it) = &g_pool[g_pool_len]; return it; }
_Bool _ZN9__gnu_cxxneIPKN4bloc7Context10MemorySlotESt6vectorIS3_SaIS3_EEEEbRKNS_17__normal_iteratorIT_T0_EESE_(const struct vslot_citerator *a, const struct vslot_citerator *b) { return IT_PTR(a) != IT_PTR(b); }
const struct Context__MemorySlot *_ZNK9__gnu_cxx17__normal_iteratorIPKN4bloc7Context10MemorySlotESt6vectorIS3_SaIS3_EEEdeEv(const struct vslot_citerator *this)
{ __CPROVER_assert(IT_PTR(this) >= &g_pool[0] && IT_PTR(this) < &g_pool[g_pool_len], "std::vector iterator dereferenced inside [begin, end)"); return IT_PTR(this); }
struct vslot_citerator *_ZN9__gnu_cxx17__normal_iteratorIPKN4bloc7Context10MemorySlotESt6vectorIS3_SaIS3_EEEppEv(struct vslot_citerator *this) { IT_PTR(this) = IT_PTR(this) + 1; return this; }
/* push_back(const MemorySlot&): copy-constructs the slot at the end (MemorySlot's copy constructor: job ctx_memoryslot_copy) */
void _ZNSt6vectorIN4bloc7Context10MemorySlotESaIS2_EE9push_backERKS2_(struct vec_MemorySlot *this, const struct Context__MemorySlot *s)
{ __CPROVER_assert(g_push_n < POOL_MAX, "model: one push per slot"); g_push_vec[g_push_n] = this; g_push_arg[g_push_n] = s; g_push_n++; }
void _ZN4bloc14FunctorManager5resetERKS0_(struct FunctorManager *this, const struct FunctorManager *fm) { g_reset_n++; g_reset_this = this; g_reset_arg = fm; }

struct Context *_ZNK4bloc7Context5cloneEv(struct Context *this)
__CPROVER_requires(IS_FRESH(this, sizeof(*this)) && IS_FRESH(this->_fctm, 64))
__CPROVER_requires(INPUT_STATE(g_pool_len))
__CPROVER_requires(g_pool_len <= POOL_MAX && __exc == 0 && __caught_n == 0 && g_ctor_n == 0 && g_push_n == 0 && g_reset_n == 0 && GLOBALS_PINNED)
__CPROVER_assigns()
PROP(C01, C14) __CPROVER_ensures(OK && RET != 0 && RET != this && g_ctor_n == 1 && RET == g_ctor_this)
/* the trusted flag (and every other flag) is inherited */
PROP(C14, C16) __CPROVER_ensures(RET->_flags == this->_flags)
/* every variable slot is copied, in order, into the clone's own table */
PROP(C14) __CPROVER_ensures(g_push_n == (int)g_pool_len && (g_push_n >= 1 ==> (g_push_arg[0] == &g_pool[0] && g_push_vec[0] == (const void *)&RET->_storage_pool)) && (g_push_n >= 2 ==> (g_push_arg[1] == &g_pool[1] && g_push_vec[1] == (const void *)&RET->_storage_pool)))
/* the clone's own function manager takes the declarations of the original's */
PROP(C14) __CPROVER_ensures(g_reset_n == 1 && g_reset_this == (const void *)RET->_fctm && g_reset_arg == (const void *)this->_fctm && RET->_fctm != this->_fctm)
/* the original is not modified */
PROP(C14) __CPROVER_ensures(this->_flags == __CPROVER_old(this->_flags) && this->_fctm == __CPROVER_old(this->_fctm))
;
#endif

#ifdef JOB_SLOT
void _ZNSt6vectorIN4bloc4TypeESaIS1_EEC2ERKS3_(struct vec_Type *this, const struct vec_Type *o) { CW(this, 0) = CW(o, 0); }
#define M_SYM (m->symbol)
void _ZN4bloc7Context10MemorySlotC2ERKS1_(struct Context__MemorySlot *this, struct Context__MemorySlot *m)
__CPROVER_requires(IS_FRESH(this, sizeof(*this)) && IS_FRESH(m, sizeof(*m)) && IS_FRESH(m->symbol, sizeof(struct Symbol)))
__CPROVER_requires(VALID_TAG(&m->value) && __exc == 0 && __caught_n == 0 && GLOBALS_PINNED)
__CPROVER_assigns(__CPROVER_object_whole(this))
PROP(C01, C14) __CPROVER_ensures(OK)
/* the value is a deep copy (Value::clone) marked as owned storage */
/* (C05: the copied variable is owned storage -- evaluating an expression over it must not consume it) */
PROP(C05, C14) __CPROVER_ensures(V_MAJOR(&this->value) == V_MAJOR(&m->value) && V_MINOR(&this->value) == V_MINOR(&m->value) && V_LEVEL(&this->value) == V_LEVEL(&m->value) &&
                            this->value._flags == ((m->value._flags & F_NOTNULL) | F_LVALUE))
/* the symbol is a new object with the same declaration */
PROP(C14) __CPROVER_ensures(this->symbol != 0 && this->symbol != m->symbol && this->symbol->_id == M_SYM->_id && this->symbol->_base_Type._major == M_SYM->_base_Type._major &&
                            this->symbol->_base_Type._minor == M_SYM->_base_Type._minor && this->symbol->_base_Type._level == M_SYM->_base_Type._level &&
                            this->symbol->_safety == M_SYM->_safety && this->symbol->_locked == M_SYM->_locked && CW(&this->symbol->_name, 0) == CW(&M_SYM->_name, 0))
/* the source slot is not modified */
PROP(C14) __CPROVER_ensures(m->value._flags == __CPROVER_old(m->value._flags) && m->value._value.i == __CPROVER_old(m->value._value.i) && m->symbol == __CPROVER_old(m->symbol))
;
#endif

#include FNS_C
