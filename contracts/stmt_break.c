/* contracts of bloc::BREAKStatement::doit and bloc::CONTINUEStatement::doit (C06): inside a loop (some loop has the
 * control) the break / continue condition is raised -- the loop statement's own step then leaves or re-enters (stmt_for,
 * stmt_forall_doit, stmt_while) --; outside any loop the statement does nothing; either way execution goes on with the
 * next statement and nothing else changes. */
#include "prelude.h"
#include "ctx_api.h"
#define FLAGS_EXCEPT(brk, cnt) ((brk || ctx->_breakCondition == __CPROVER_old(ctx->_breakCondition)) && (cnt || ctx->_continueCondition == __CPROVER_old(ctx->_continueCondition)) && ctx->_returnCondition == __CPROVER_old(ctx->_returnCondition))
#ifdef JOB_BREAK
const struct Statement *_ZNK4bloc14BREAKStatement4doitERNS_7ContextE(struct BREAKStatement *this, struct Context *ctx)
__CPROVER_requires(IS_FRESH(this, sizeof(*this)) && IS_FRESH(ctx, sizeof(*ctx)))
__CPROVER_requires(INPUT_STATE(g_ctl_depth, g_ctl_top_stmt))
__CPROVER_requires(IS_FRESH(g_ctl_top_stmt, sizeof(struct Controller)))
__CPROVER_requires(g_ctl_depth >= 0 && *(unsigned char *)&ctx->_breakCondition <= 1 && __exc == 0 && g_ctl_pushes == 0 && g_ctl_pops == 0 && GLOBALS_PINNED)
__CPROVER_assigns(__CPROVER_object_whole(ctx))
PROP(C01, C06) __CPROVER_ensures(OK && RET == this->_base_Statement._next && g_ctl_pushes == 0 && g_ctl_pops == 0)
PROP(C06) __CPROVER_ensures(ctx->_breakCondition == (__CPROVER_old(g_ctl_depth > 0) ? 1 : __CPROVER_old(ctx->_breakCondition)) && FLAGS_EXCEPT(1, 0))
;
#endif
#ifdef JOB_CONTINUE
const struct Statement *_ZNK4bloc17CONTINUEStatement4doitERNS_7ContextE(struct CONTINUEStatement *this, struct Context *ctx)
__CPROVER_requires(IS_FRESH(this, sizeof(*this)) && IS_FRESH(ctx, sizeof(*ctx)))
__CPROVER_requires(INPUT_STATE(g_ctl_depth, g_ctl_top_stmt))
__CPROVER_requires(IS_FRESH(g_ctl_top_stmt, sizeof(struct Controller)))
__CPROVER_requires(g_ctl_depth >= 0 && *(unsigned char *)&ctx->_continueCondition <= 1 && __exc == 0 && g_ctl_pushes == 0 && g_ctl_pops == 0 && GLOBALS_PINNED)
__CPROVER_assigns(__CPROVER_object_whole(ctx))
PROP(C01, C06) __CPROVER_ensures(OK && RET == this->_base_Statement._next && g_ctl_pushes == 0 && g_ctl_pops == 0)
PROP(C06) __CPROVER_ensures(ctx->_continueCondition == (__CPROVER_old(g_ctl_depth > 0) ? 1 : __CPROVER_old(ctx->_continueCondition)) && FLAGS_EXCEPT(0, 1))
;
#endif

#include FNS_C
