/* contract of ReadFile::read (apps/read_file.cpp) (C13): the file reader of the CLI has the same chunking rule as
 * StringReader::read -- bytes up to and including the next line feed, or max_size bytes, or the end of the file,
 * carriage returns dropped -- and consumes from the file exactly the bytes it accounts for.
 * The file is modelled by a ghost byte array of at most TEXT_MAX bytes read through a stub of fread: BOUNDED. */
#include "prelude_lite.h"
#define TEXT_MAX 6
char g_text[TEXT_MAX + 1]; unsigned long g_text_len, g_file_pos;
char g_buf[TEXT_MAX + 2];
/* size_t fread(void *ptr, size_t size, size_t n, FILE *f): the next byte of the ghost file, or 0 at its end */
unsigned long fread(void *ptr, unsigned long size, unsigned long n, struct _IO_FILE *f)
{
  (void)f; __CPROVER_assert(size == 1 && n == 1, "model: the reader asks for one byte at a time");
  __CPROVER_assert(__CPROVER_w_ok(ptr, 1), "fread writes inside the caller's buffer");
  if (g_file_pos >= g_text_len) return 0;
  *(char *)ptr = g_text[g_file_pos++];
  return 1;
}
int g_spec_n; unsigned long g_spec_pos; char g_spec_out[TEXT_MAX + 2];
static _Bool spec_chunk(unsigned long pos, int max_size)
{
  g_spec_n = 0; g_spec_pos = pos;
  for (int k = 0; k < TEXT_MAX + 1; ++k)
  {
    if (g_spec_pos >= g_text_len || g_spec_n >= max_size) break;
    char ch = g_text[g_spec_pos]; g_spec_pos++;
    if (ch != '\r') g_spec_out[g_spec_n++] = ch;
    if (ch == '\n') break;
  }
  return 1;
}
#define OUT_EQ(k) (g_spec_n <= (k) || g_buf[k] == g_spec_out[k])

int _ZN8ReadFile4readEPN4bloc6ParserEPci(struct ReadFile *this, struct Parser *parser, char *buf, int max_size)
__CPROVER_requires(IS_FRESH(this, sizeof(*this)))
__CPROVER_requires(INPUT_STATE(g_text_len, g_file_pos, g_text[0], g_text[1], g_text[2], g_text[3], g_text[4], g_text[5], g_buf[0], g_buf[1], g_buf[2], g_buf[3], g_buf[4], g_buf[5], g_buf[6]))
__CPROVER_requires(PTR_EQ(buf, g_buf))
__CPROVER_requires(g_text_len <= TEXT_MAX && g_file_pos <= g_text_len && max_size >= 0 && max_size <= TEXT_MAX + 1 && __exc == 0)
__CPROVER_assigns(__CPROVER_object_whole(g_buf), g_file_pos)
PROP(C01, C13) __CPROVER_ensures(OK)
PROP(C13) __CPROVER_ensures(spec_chunk(__CPROVER_old(g_file_pos), max_size) && RET == g_spec_n && g_file_pos == g_spec_pos)
PROP(C13) __CPROVER_ensures(OUT_EQ(0) && OUT_EQ(1) && OUT_EQ(2) && OUT_EQ(3) && OUT_EQ(4) && OUT_EQ(5) && OUT_EQ(6))
PROP(C13) __CPROVER_ensures(RET >= 0 && RET <= max_size && g_buf[TEXT_MAX + 1] == __CPROVER_old(g_buf[TEXT_MAX + 1]))
;

#include FNS_C
