/* contract of bloc::MemberATExpression::type (C02): the compiled type of receiver.at(i) -- an integer for a string or
 * bytes receiver, the element type (one level down) for a table, opaque for an opaque receiver.  The reference handed out
 * for a table is to an object OF THIS NODE: the compiler compares the types of two operands while it holds both
 * references (ParseExpression::assertType / typeChecking), so two `.at()` nodes must not answer with one shared object. */
#include "prelude.h"
const struct Type *_ZNK4bloc18MemberATExpression4typeERNS_7ContextE(struct MemberATExpression *this, struct Context *ctx)
__CPROVER_requires(IS_FRESH(this, sizeof(*this)) && IS_FRESH(ctx, sizeof(*ctx)) && IS_FRESH(this->_base_MemberExpression._exp, sizeof(struct Expression)))
__CPROVER_requires(__exc == 0 && g_type_n == 0 && GLOBALS_PINNED)
__CPROVER_assigns(g_type_n, __CPROVER_object_whole(g_stype), __CPROVER_object_whole(g_type_node), __CPROVER_object_whole(this))
PROP(C01, C02) __CPROVER_ensures(__exc == 0 && RET != 0 && g_type_n == 1 && g_type_node[0] == this->_base_MemberExpression._exp)
/* a table: the element type, in an object that belongs to this node */
PROP(C02) __CPROVER_ensures(ST1->_level > 0 ==> (RET->_major == ST1->_major && RET->_minor == ST1->_minor && RET->_level == ST1->_level - 1 && __CPROVER_same_object(RET, this)))
/* a string or bytes: a byte is an integer; an opaque receiver: opaque; anything else has no at() */
PROP(C02) __CPROVER_ensures((ST1->_level == 0 && (ST1->_major == LITERAL || ST1->_major == TABCHAR)) ==> (RET->_major == INTEGER && RET->_level == 0))
PROP(C02) __CPROVER_ensures((ST1->_level == 0 && ST1->_major != LITERAL && ST1->_major != TABCHAR) ==> (RET->_major == NO_TYPE && RET->_level == 0))
;

#include FNS_C
