/* contract of bloc::IMPORTStatement::parse (C16): in a context that is not trusted, `import` accepts a module name
 * (a keyword token) and nothing else: a path expression is refused without being compiled. */
#define HAVE_STD_STRING
#define CONTAINERS_MODEL
#define CONTAINERS_STRINGS_ONLY
#include "prelude.h"
#include "containers.h"
#include "strid.h"
#include "parser_api.h"
const char *_ZN4bloc9Statement8KEYWORDSE[64];
int g_type_calls; unsigned char g_type_major; struct Type g_type_ret;
const struct Type *VCALL_Expression_type(struct Expression *e, struct Context *ctx) { (void)e; (void)ctx; g_type_calls++; g_type_ret._major = g_type_major; return &g_type_ret; }
void VCALL_IMPORTStatement__IMPORTStatement(struct IMPORTStatement *s) { (void)s; }   /* delete s */
void _ZN4bloc9StatementD2Ev(struct Statement *this) { (void)this; }

#define TRUSTED(c) (((c)->_flags & 1) != 0)
#define TOKEN_KEYWORD 305
struct IMPORTStatement *_ZN4bloc15IMPORTStatement5parseERNS_6ParserERNS_7ContextE(struct Parser *p, struct Context *ctx)
__CPROVER_requires(IS_FRESH(ctx, sizeof(*ctx)))
__CPROVER_requires(INPUT_STATE(g_tok[0].code, g_tok[1].code, g_tok[2].code, g_type_major))
__CPROVER_requires(__exc == 0 && __caught_n == 0 && g_pop_n == 0 && g_parse_expr_n == 0 && GLOBALS_PINNED)
__CPROVER_assigns()
PROP(C16) __CPROVER_ensures(OK || (__exc == 1 && __exc_type == G2C_EXC_ParseError))
/* not trusted: only `import <name>` compiles; anything else is refused and no path expression is compiled */
PROP(C16) __CPROVER_ensures(!TRUSTED(ctx) ==> (g_parse_expr_n == 0 && (OK == (g_tok[0].code == TOKEN_KEYWORD))))
PROP(C16) __CPROVER_ensures((OK && !TRUSTED(ctx)) ==> (RET != 0 && RET->_exp == 0))
/* trusted: a path expression is accepted when it is a string */
PROP(C16) __CPROVER_ensures((OK && g_tok[0].code != TOKEN_KEYWORD) ==> (TRUSTED(ctx) && g_parse_expr_n == 1 && RET->_exp == &g_arg_expr[0]))
;

#include FNS_C
