/* contract of bloc::OpNEGExpression::value  (unary minus) */
#define PAYLOAD_IMAGINARY
#include "prelude.h"

struct Value *_ZNK4bloc15OpNEGExpression5valueERNS_7ContextE(struct OpNEGExpression *this, struct Context *ctx)
EVAL_PRE_UNOP
EVAL_ASSIGNS
ENS_ONLY_RT
ENS_EVAL_ONE
PROP(C03) __CPROVER_ensures((g_eval_n == 1 && IS_INT(A1)) ==> (OK && V_IS(RET, INTEGER) && !V_ISNULL(RET) && V_I(RET) == SPEC_NEG(V_I(A1))))
PROP(C03, UF) __CPROVER_ensures((g_eval_n == 1 && IS_NUM(A1)) ==> (OK && V_IS(RET, NUMERIC) && !V_ISNULL(RET) && D_SAME(V_D(RET), D_SUB(0.0, V_D(A1)))))
/* the operand's type is the result's type */
PROP(C02) __CPROVER_ensures(OK ==> (V_MAJOR(RET) == V_MAJOR(A1) && V_LEVEL(RET) == 0 && VALID_TAG(RET)))
ENS_FRAME1
ENS_OWN1
;

#include FNS_C
