/* vocab.h -- shared contract vocabulary over the generated struct mirrors (DESIGN section 3).
 * Included after <tag>.types.h. */
#ifndef VOCAB_H
#define VOCAB_H

#ifdef MODE_B
/* Mode B (tools/c2h.py): is_fresh in an assumed position allocates; in an asserted position it is
 * readability of the bytes (callee pre-condition) */
_Bool __modeb_fresh(void **pp, unsigned long n) { *pp = __CPROVER_allocate(n, 0); return 1; }
#define MODEB_FRESH_ASSUME(p, n) __modeb_fresh((void **)&(p), (n))
#define MODEB_FRESH_ASSERT(p, n) __CPROVER_r_ok((p), (n))
#define MODEB_FRESH_POST(p, n)   __CPROVER_r_ok((p), (n))
#define RET __ret
/* PTR_EQ is handled by c2h: assignment where assumed, equality where asserted */
#else
#define PTR_EQ(a, b) __CPROVER_pointer_equals((a), (b))
#define SET_EQ(a, b) ((a) == (b))
#define IS_FRESH(p, n) __CPROVER_is_fresh((p), (n))
#define INPUT_STATE(...) 1   /* dfcc havocs all statics itself */
#define RET __CPROVER_return_value
#endif

#define IMPLIES(a, b) (!(a) || (b))
#ifndef MODE_B
#define PROP(...)
#endif

#define F_NOTNULL 1
#define F_LVALUE  2

#define V_MAJOR(v)  ((v)->_type._major)
#define V_MINOR(v)  ((v)->_type._minor)
#define V_LEVEL(v)  ((v)->_type._level)
#define V_ISNULL(v) (((v)->_flags & F_NOTNULL) == 0)
#define V_LVALUE(v) (((v)->_flags & F_LVALUE) != 0)
#define V_SCALAR(v) (V_LEVEL(v) == 0 && (V_MAJOR(v) == NO_TYPE || V_MAJOR(v) == BOOLEAN || V_MAJOR(v) == INTEGER || V_MAJOR(v) == NUMERIC))
#define V_IS(v, M)  (V_LEVEL(v) == 0 && V_MAJOR(v) == (M))

/* tag/flag part of validity: what every producer of a Value guarantees */
#define VALID_TAG(v) (V_MAJOR(v) <= IMAGINARY && ((v)->_flags & ~(F_NOTNULL | F_LVALUE)) == 0 && \
                      IMPLIES(V_IS(v, NO_TYPE), V_ISNULL(v)) && \
                      IMPLIES(V_MAJOR(v) != COMPLEX && V_MAJOR(v) != ROWTYPE, V_MINOR(v) == 0) && \
                      IMPLIES(V_IS(v, BOOLEAN) && !V_ISNULL(v), (((v)->_value.i) & 0xff) <= 1))

/* Kleene abstraction of a value in the boolean domain */
#define K_F 0
#define K_T 1
#define K_N 2
#define IN_BOOL_DOMAIN(v) (V_LEVEL(v) == 0 && (V_MAJOR(v) == NO_TYPE || V_MAJOR(v) == BOOLEAN))
#define V_BOOL(v) ((((v)->_value.i) & 0xff) != 0)
#define KLEENE(v) (V_ISNULL(v) ? K_N : (V_BOOL(v) ? K_T : K_F))
#define K_OR(a, b)  (((a) == K_T || (b) == K_T) ? K_T : (((a) == K_F && (b) == K_F) ? K_F : K_N))
#define K_AND(a, b) (((a) == K_F || (b) == K_F) ? K_F : (((a) == K_T && (b) == K_T) ? K_T : K_N))
#define K_XOR(a, b) (((a) == K_N || (b) == K_N) ? K_N : (((a) != (b)) ? K_T : K_F))
#define K_NOT(a)    ((a) == K_N ? K_N : ((a) == K_T ? K_F : K_T))

/* the fields of a Value as assigns targets.  Never havoc a whole struct that contains a union:
 * CBMC then treats the union's members as unrelated variables. */
#define VALUE_FIELDS(v) (v)->_value.i, (v)->_type._major, (v)->_type._minor, (v)->_type._level, (v)->_flags

/* payload views */
#define V_I(v) ((v)->_value.i)
#define V_U(v) ((unsigned long)(v)->_value.i)
#define V_D(v) (*(double *)&(v)->_value.i)
#define INT_DOMAIN(v) (V_LEVEL(v) == 0 && (V_MAJOR(v) == NO_TYPE || V_MAJOR(v) == INTEGER))
#define D_SAME(x, y) ((x) == (y) || ((x) != (x) && (y) != (y)))   /* equal, or both NaN */

/* bitwise equality of two Values (tag, flags, payload bits) */
#define V_SAME(a, b) ((a)->_flags == (b)->_flags && V_MAJOR(a) == V_MAJOR(b) && V_MINOR(a) == V_MINOR(b) && \
                      V_LEVEL(a) == V_LEVEL(b) && (V_ISNULL(a) || (a)->_value.i == (b)->_value.i))

#define THROWN_RT(code) (__exc == 1 && __exc_type == G2C_EXC_RuntimeError && ((struct RuntimeError *)__exc_obj)->no == (code))
#define ONLY_RUNTIME_ERROR (__exc == 0 || (__exc == 1 && __exc_type == G2C_EXC_RuntimeError))

#endif
