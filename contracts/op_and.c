/* contract of bloc::OpANDExpression::value  (operator &, integers only) */
#include "prelude.h"
#define SPEC_OP(a, b) ((a) & (b))

struct Value *_ZNK4bloc15OpANDExpression5valueERNS_7ContextE(struct OpANDExpression *this, struct Context *ctx)
EVAL_PRE_BINOP
EVAL_ASSIGNS
ENS_ONLY_RT
ENS_EVAL_BOTH
ENS_INTOP2(SPEC_OP)
ENS_TYPE(INTEGER)
ENS_FRAME1
ENS_FRAME2
ENS_OWN2
;

#include FNS_C
