/* evalnode.h -- clause macros shared by the contracts of Expression::value() overriders.
 * Operand k of the node is what the k-th child evaluation returned: snapshot A<k>, object g_eval_ret[k-1]. */
#ifndef EVALNODE_H
#define EVALNODE_H
#define A1 (&g_eval_snap[0])
#define A2 (&g_eval_snap[1])
#define A3 (&g_eval_snap[2])
#define O1 (g_eval_ret[0])
#define O2 (g_eval_ret[1])
#define O3 (g_eval_ret[2])
#define OK (__exc == 0)

/* pre-condition of a node with two children */
#define EVAL_PRE_BINOP \
  __CPROVER_requires(IS_FRESH(this, sizeof(*this)) && IS_FRESH(ctx, sizeof(*ctx))) \
  __CPROVER_requires(IS_FRESH(this->arg1, sizeof(struct Expression)) && IS_FRESH(this->arg2, sizeof(struct Expression))) \
  __CPROVER_requires(__exc == 0 && g_eval_n == 0 && __caught_n == 0 && GLOBALS_PINNED)
#define EVAL_PRE_UNOP \
  __CPROVER_requires(IS_FRESH(this, sizeof(*this)) && IS_FRESH(ctx, sizeof(*ctx))) \
  __CPROVER_requires(IS_FRESH(this->arg1, sizeof(struct Expression))) \
  __CPROVER_requires(__exc == 0 && g_eval_n == 0 && __caught_n == 0 && GLOBALS_PINNED)
#define EVAL_ASSIGNS \
  __CPROVER_assigns(g_eval_n, __CPROVER_object_whole(g_eval_ret), __CPROVER_object_whole(g_eval_snap), __CPROVER_object_whole(g_eval_node), g_eval_payload, __exc, __exc_type, __exc_obj, VALUE_FIELDS(&g_operand0), VALUE_FIELDS(&g_operand1), VALUE_FIELDS(&g_operand2), VALUE_FIELDS(&g_operand3))

/* C01: nothing but a BLOC runtime error leaves an evaluator */
#define ENS_ONLY_RT  PROP(C01) __CPROVER_ensures(ONLY_RUNTIME_ERROR) ENS_EVAL_IN_CTX
/* C05 / C14: a node evaluates its children in the context it is itself evaluated in (for a program run in a clone: the clone) */
#ifndef ENS_EVAL_IN_CTX
#define ENS_EVAL_IN_CTX PROP(C05) __CPROVER_ensures(g_eval_n >= 1 ==> g_eval_ctx_seen == (const void *)ctx)
#endif
/* both children evaluated exactly once, left to right (no short cut) */
#define ENS_EVAL_BOTH PROP(C05) __CPROVER_ensures((g_eval_n <= 2) && (g_eval_n >= 1 ==> g_eval_node[0] == this->arg1) && (g_eval_n == 2 ==> g_eval_node[1] == this->arg2) && (OK ==> g_eval_n == 2))
/* arg1 first; arg2 at most once (short cut allowed) */
#define ENS_EVAL_SHORTCUT PROP(C05) __CPROVER_ensures((g_eval_n <= 2) && (g_eval_n >= 1 ==> g_eval_node[0] == this->arg1) && (g_eval_n == 2 ==> g_eval_node[1] == this->arg2) && (OK ==> g_eval_n >= 1))
#define ENS_EVAL_ONE PROP(C05) __CPROVER_ensures((g_eval_n <= 1) && (g_eval_n == 1 ==> g_eval_node[0] == this->arg1) && (OK ==> g_eval_n == 1))
/* builtin with one argument: evaluated exactly once */
#define ENS_EVAL_ONE_ARG PROP(C05) __CPROVER_ensures((g_eval_n <= 1) && (g_eval_n == 1 ==> g_eval_node[0] == g_args[0]) && (OK ==> g_eval_n == 1))
/* C05: operands owned by a variable / constant / container (LVALUE) are left bit-for-bit unchanged,
 * on normal and on exceptional return */
/* (FRAME_TAGS: the properties an untouched operand belongs to; C10 joins for the builtins that property names) */
#ifndef FRAME_TAGS
#define FRAME_TAGS C05
#endif
#define ENS_FRAME1 PROP(FRAME_TAGS) __CPROVER_ensures((g_eval_n >= 1 && V_LVALUE(A1)) ==> (V_SAME(O1, A1) && (FRAME_IMAG(O1, A1, 0)) && (FRAME_STR(O1, A1, 0))))
#define ENS_FRAME2 PROP(FRAME_TAGS) __CPROVER_ensures((g_eval_n >= 2 && V_LVALUE(A2)) ==> (V_SAME(O2, A2) && (FRAME_IMAG(O2, A2, 1)) && (FRAME_STR(O2, A2, 1))))
/* C05 (IC-own): the result is a temporary, or it is one of the operands handed through untouched */
#define ENS_OWN2 PROP(C05) __CPROVER_ensures(OK ==> (!V_LVALUE(RET) || (g_eval_n >= 1 && RET == O1 && V_LVALUE(A1)) || (g_eval_n >= 2 && RET == O2 && V_LVALUE(A2))))
#define ENS_OWN1 PROP(C05) __CPROVER_ensures(OK ==> (!V_LVALUE(RET) || (g_eval_n >= 1 && RET == O1 && V_LVALUE(A1))))
/* C02: the run-time type is the compiled type */
#define ENS_TYPE(M) PROP(C02) __CPROVER_ensures(OK ==> (V_IS(RET, M) && VALID_TAG(RET)))
#endif
