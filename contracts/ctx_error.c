/* contract of bloc::Context::onRuntimeError (C07): after an error, every loop opened at or above the current
 * execution level is closed (its finalizeControl has run, once, with its own data) and temporaries are purged.
 * The control stack (std::vector<Control>) is modelled by a ghost array of at most CTL_MAX entries and the purge
 * loop is unwound: the result is BOUNDED (at most CTL_MAX loops open at the time of the error). */
#include "prelude.h"

#define CTL_MAX 4
struct Controller g_ctl_stmt[CTL_MAX]; struct Context__Control g_ctl[CTL_MAX]; unsigned long g_ctl_depth;
unsigned long g_exec_depth;
int g_fin_n; const void *g_fin_stmt[CTL_MAX + 1]; void *g_fin_data[CTL_MAX + 1]; unsigned long g_fin_depth[CTL_MAX + 1];
int g_purge_n; unsigned long g_purge_depth;
/* ---- ASSUMED model of std::vector<Control> / std::vector<const Statement*> over the ghost state ---- */
_Bool _ZNKSt6vectorIN4bloc7Context7ControlESaIS2_EE5emptyEv(const struct vec_Control *this) { (void)this; return g_ctl_depth == 0; }
const struct Context__Control *_ZNKSt6vectorIN4bloc7Context7ControlESaIS2_EE4backEv(const struct vec_Control *this)
{ (void)this; __CPROVER_assert(g_ctl_depth > 0, "std::vector::back on an empty vector is undefined"); return &g_ctl[g_ctl_depth - 1]; }
void _ZNSt6vectorIN4bloc7Context7ControlESaIS2_EE8pop_backEv(struct vec_Control *this)
{ (void)this; __CPROVER_assert(g_ctl_depth > 0, "std::vector::pop_back on an empty vector is undefined"); g_ctl_depth--; }
unsigned long _ZNKSt6vectorIPKN4bloc9StatementESaIS3_EE4sizeEv(const struct vec_StatementPtr *this) { (void)this; return g_exec_depth; }
/* void Controller::finalizeControl(Context&, void * data) const (virtual): ASSUMED not to throw and not to touch the two stacks */
void VCALL_Controller_finalizeControl(const struct Controller *stmt, struct Context *ctx, void *data)
{
  (void)ctx;
  __CPROVER_assert(g_fin_n < CTL_MAX, "finalizeControl runs at most once per open loop");
  g_fin_stmt[g_fin_n] = stmt; g_fin_data[g_fin_n] = data; g_fin_depth[g_fin_n] = g_ctl_depth; g_fin_n++;
}
/* void Context::Pool::purge(): releases the temporaries of the interrupted evaluation */
void _ZN4bloc7Context4Pool5purgeEv(struct Context__Pool *this) { (void)this; g_purge_n++; g_purge_depth = g_ctl_depth; }

#define LEVEL(k) (g_ctl_stmt[k]._base_Statement._level)
#define CTL_PINNED (g_ctl[0].stmt == &g_ctl_stmt[0] && g_ctl[1].stmt == &g_ctl_stmt[1] && g_ctl[2].stmt == &g_ctl_stmt[2] && g_ctl[3].stmt == &g_ctl_stmt[3])
/* loops are stacked at the execution level current when they start: levels never decrease towards the top */
#define CTL_MONOTONE (LEVEL(0) <= LEVEL(1) && LEVEL(1) <= LEVEL(2) && LEVEL(2) <= LEVEL(3))
#define OPEN_ABOVE(k) ((k) < __CPROVER_old(g_ctl_depth) && LEVEL(k) >= g_exec_depth)   /* entry k is a loop of the interrupted region */
#define CLOSED(k) (g_ctl_depth <= (k))
#define FINALIZED_ONCE(k) (g_fin_n >= (int)(__CPROVER_old(g_ctl_depth) - (k)) && g_fin_stmt[__CPROVER_old(g_ctl_depth) - 1 - (k)] == (const void *)&g_ctl_stmt[k] && \
                           g_fin_data[__CPROVER_old(g_ctl_depth) - 1 - (k)] == g_ctl[k].data && g_fin_depth[__CPROVER_old(g_ctl_depth) - 1 - (k)] == (k) + 1)

void _ZN4bloc7Context14onRuntimeErrorEv(struct Context *this)
__CPROVER_requires(IS_FRESH(this, sizeof(*this)))
__CPROVER_requires(INPUT_STATE(g_ctl_depth, g_exec_depth, LEVEL(0), LEVEL(1), LEVEL(2), LEVEL(3), g_ctl[0].data, g_ctl[1].data, g_ctl[2].data, g_ctl[3].data))
__CPROVER_requires(SET_EQ(g_ctl[0].stmt, &g_ctl_stmt[0]) && SET_EQ(g_ctl[1].stmt, &g_ctl_stmt[1]) && SET_EQ(g_ctl[2].stmt, &g_ctl_stmt[2]) && SET_EQ(g_ctl[3].stmt, &g_ctl_stmt[3]))
__CPROVER_requires(g_ctl_depth <= CTL_MAX && CTL_MONOTONE)
__CPROVER_requires(__exc == 0 && __caught_n == 0 && g_fin_n == 0 && g_purge_n == 0 && GLOBALS_PINNED)
__CPROVER_assigns(__CPROVER_object_whole(this))
PROP(C07) __CPROVER_ensures(OK)
/* every loop of the interrupted region is closed ... */
PROP(C07) __CPROVER_ensures((OPEN_ABOVE(0) ==> CLOSED(0)) && (OPEN_ABOVE(1) ==> CLOSED(1)) && (OPEN_ABOVE(2) ==> CLOSED(2)) && (OPEN_ABOVE(3) ==> CLOSED(3)))
/* ... by its own finalizeControl, exactly once, with its own data, top-down, while it is still the top of the stack */
PROP(C07) __CPROVER_ensures((OPEN_ABOVE(0) ==> FINALIZED_ONCE(0)) && (OPEN_ABOVE(1) ==> FINALIZED_ONCE(1)) && (OPEN_ABOVE(2) ==> FINALIZED_ONCE(2)) && (OPEN_ABOVE(3) ==> FINALIZED_ONCE(3)))
PROP(C07) __CPROVER_ensures(g_fin_n == (int)(__CPROVER_old(g_ctl_depth) - g_ctl_depth))
/* loops of the enclosing region are left alone */
PROP(C07) __CPROVER_ensures(g_ctl_depth <= __CPROVER_old(g_ctl_depth) && (g_ctl_depth > 0 ==> LEVEL(g_ctl_depth - 1) < g_exec_depth) &&
                            (g_ctl_depth < __CPROVER_old(g_ctl_depth) ==> LEVEL(g_ctl_depth) >= g_exec_depth))
/* temporaries of the interrupted evaluation are purged, after the loops are closed */
PROP(C07) __CPROVER_ensures(g_purge_n == 1 && g_purge_depth == g_ctl_depth)
;

#include FNS_C
