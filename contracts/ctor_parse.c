/* contract of bloc::ComplexCTORExpression::parse (C16): in a context that is not trusted, a constructor call of a
 * module that is not granted is refused before anything is built: no object node is allocated and no argument
 * expression is compiled.  The parser, the expression compiler and the module table are stubs; the argument loop is
 * bounded by the stub of Parser::pop (at most POP_MAX tokens): the result is BOUNDED. */
#define HAVE_STD_STRING
#define CONTAINERS_MODEL
#define CONTAINERS_STRINGS_ONLY
#define OWN_VEC_EXPRESSION_MODEL
int g_new_node_n;
#define G2C_NEW_HOOK(n) if ((n) == 56ul) g_new_node_n++;
char g_plug_name[8];
#define PLUG_NAME_ID 77ul
#define STR_FROM_CSTR_HOOK(str, cstr) if (__CPROVER_same_object((cstr), g_plug_name)) (((unsigned long *)(str))[0]) = PLUG_NAME_ID;
#include "prelude.h"
#include "containers.h"
#include "strid.h"
_Static_assert(sizeof(struct ComplexCTORExpression) == 56, "G2C_NEW_HOOK counts allocations of the node's size");

struct PluginManager g_pm; struct PLUGGED_MODULE g_module; struct PLUGIN_CTOR g_ctor; struct PLUGIN_TYPE g_ctor_args[2];
unsigned long g_nmodules; _Bool g_banned; int g_banned_calls; unsigned long g_banned_arg_id;
int g_typecheck_n;
/* ---- stubs of the surroundings ---- */
struct PluginManager *_ZN4bloc13PluginManager8instanceEv(void) { return &g_pm; }
unsigned long _ZNKSt6vectorIN4bloc14PLUGGED_MODULEESaIS1_EE4sizeEv(const struct vec_PLUGGED_MODULE *this) { (void)this; return g_nmodules; }
const struct PLUGGED_MODULE *_ZNKSt6vectorIN4bloc14PLUGGED_MODULEESaIS1_EEixEm(const struct vec_PLUGGED_MODULE *this, unsigned long n)
{ (void)this; __CPROVER_assert(n < g_nmodules, "std::vector<PLUGGED_MODULE>::operator[]: index within size()"); return &g_module; }
/* bool PluginManager::bannedPlugin(const std::string&): its contract is job pm_bannedPlugin; here: any answer, the question is recorded */
_Bool _ZN4bloc13PluginManager12bannedPluginERKNSt7__cxx1112basic_stringIcSt11char_traitsIcESaIcEEE(struct PluginManager *this, const struct std_string *name)
{ (void)this; g_banned_calls++; g_banned_arg_id = STR_ID(name); return g_banned; }
#include "parser_api.h"
_Bool _ZN4bloc15ParseExpression12typeCheckingEPNS_10ExpressionERKNS_4TypeERNS_6ParserERNS_7ContextE(struct Expression *e, const struct Type *t, struct Parser *p, struct Context *ctx)
{ (void)e; (void)t; (void)p; (void)ctx; g_typecheck_n++; return __g2c_nondet_bool(); }
struct Type _ZN4bloc6plugin9make_typeE11PLUGIN_TYPEt(struct PLUGIN_TYPE decl, unsigned short type_id)
{ struct Type t; (void)decl; t._vptr_Type = 0; t._major = 0; t._minor = type_id; t._level = 0; return t; }
/* ---- the local std::vector<Expression*> args: size in word[1], elements in a ghost array ---- */
struct Expression *g_argv[4];
void _ZNSt6vectorIPN4bloc10ExpressionESaIS2_EEC1Ev(struct vec_ExpressionPtr *this) { SZ(this) = 0; }
void _ZNSt6vectorIPN4bloc10ExpressionESaIS2_EED1Ev(struct vec_ExpressionPtr *this) { (void)this; }
void _ZNSt6vectorIPN4bloc10ExpressionESaIS2_EEC1EOS4_(struct vec_ExpressionPtr *this, struct vec_ExpressionPtr *o) { SZ(this) = SZ(o); SZ(o) = 0; }
unsigned long _ZNKSt6vectorIPN4bloc10ExpressionESaIS2_EE4sizeEv(const struct vec_ExpressionPtr *this) { return SZ(this); }
void _ZNSt6vectorIPN4bloc10ExpressionESaIS2_EE9push_backEOS2_(struct vec_ExpressionPtr *this, struct Expression **e)
{ __CPROVER_assert(SZ(this) < 3, "model: room in the argument vector"); g_argv[SZ(this)] = *e; SZ(this) = SZ(this) + 1; }
struct Expression **_ZNSt6vectorIPN4bloc10ExpressionESaIS2_EEixEm(struct vec_ExpressionPtr *this, unsigned long n)
{ __CPROVER_assert(n < SZ(this), "std::vector<Expression*>::operator[]: index within size()"); return &g_argv[n]; }
struct vexp_iterator _ZNSt6vectorIPN4bloc10ExpressionESaIS2_EE5beginEv(struct vec_ExpressionPtr *this) { struct vexp_iterator it; (void)this; *(void **)&it = (void *)&g_argv[0]; return it; }
struct vexp_iterator _ZNSt6vectorIPN4bloc10ExpressionESaIS2_EE3endEv(struct vec_ExpressionPtr *this) { struct vexp_iterator it; *(void **)&it = (void *)&g_argv[SZ(this)]; return it; }
_Bool _ZN9__gnu_cxxneIPPN4bloc10ExpressionESt6vectorIS3_SaIS3_EEEEbRKNS_17__normal_iteratorIT_T0_EESD_(const struct vexp_iterator *a, const struct vexp_iterator *b) { return *(void *const *)a != *(void *const *)b; }
struct Expression **_ZNK9__gnu_cxx17__normal_iteratorIPPN4bloc10ExpressionESt6vectorIS3_SaIS3_EEEdeEv(const struct vexp_iterator *this) { return *(struct Expression ***)this; }
struct vexp_iterator *_ZN9__gnu_cxx17__normal_iteratorIPPN4bloc10ExpressionESt6vectorIS3_SaIS3_EEEppEv(struct vexp_iterator *this) { *(struct Expression ***)this = *(struct Expression ***)this + 1; return this; }

#define TRUSTED(c) (((c)->_flags & 1) != 0)
struct ComplexCTORExpression *_ZN4bloc21ComplexCTORExpression5parseERNS_6ParserERNS_7ContextEj(struct Parser *p, struct Context *ctx, unsigned type_id)
__CPROVER_requires(IS_FRESH(ctx, sizeof(*ctx)))
__CPROVER_requires(INPUT_STATE(g_nmodules, g_banned, g_tok[0].code, g_tok[1].code, g_tok[2].code, g_tok[3].code, g_tok[4].code, g_tok[5].code, g_module.interface.ctors_count, g_ctor.args_count, g_ctor.id))
__CPROVER_requires(SET_EQ(g_module.interface.name, g_plug_name) && SET_EQ(g_module.interface.ctors, &g_ctor) && SET_EQ(g_ctor.args, g_ctor_args))
__CPROVER_requires(g_nmodules >= 1 && g_module.interface.ctors_count <= 1 && g_ctor.args_count <= 2)
__CPROVER_requires(__exc == 0 && __caught_n == 0 && g_new_node_n == 0 && g_pop_n == 0 && g_parse_expr_n == 0 && g_banned_calls == 0 && GLOBALS_PINNED)
__CPROVER_assigns()
/* only a ParseError leaves the compiler of a constructor call */
PROP(C16) __CPROVER_ensures(OK || (__exc == 1 && __exc_type == G2C_EXC_ParseError))
/* not trusted and not granted: refused, and nothing was built or compiled on the way */
PROP(C16) __CPROVER_ensures((type_id != 0 && !TRUSTED(ctx) && g_banned) ==> (!OK && g_new_node_n == 0 && g_parse_expr_n == 0 && g_pop_n == 0))
/* the question is asked about the module the type id denotes */
PROP(C16) __CPROVER_ensures((type_id != 0 && !TRUSTED(ctx)) ==> (g_banned_calls >= 1 && g_banned_arg_id == PLUG_NAME_ID))
/* an object node exists only on success, and then exactly one */
PROP(C16) __CPROVER_ensures((OK ==> (g_new_node_n == 1 && RET != 0)) && (!OK ==> g_del_n == g_parse_expr_n))
;

#include FNS_C
