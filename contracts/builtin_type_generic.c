/* generic contract of bloc::<X>Expression::type (C02) -- the compiled type of a builtin function call, instantiated
 * per builtin by BUILTIN_TYPE_FN (mangled name), BUILTIN_CLASS and one of
 *   BUILTIN_TYPE=<major>            the type is that scalar type whatever the arguments
 *   BUILTIN_TYPE_SAME_AS_ARG1       the compiled type of the first argument (BUILTIN_ABS: decimal when that is complex)
 *   BUILTIN_TYPE_ARITH2             integer when the compiled types of both arguments are integer, decimal otherwise
 *   BUILTIN_TYPE_FOLLOWS_COMPLEX    complex when the compiled type of the first argument is complex, decimal otherwise
 * This is the static half of the pair whose dynamic half is the C02 clause of contracts/builtin_generic.c. */
#include "prelude.h"
/* std::vector<Expression*>::operator[] const on the argument vector: the one child */
struct Expression g_child2[2]; struct Expression *g_child_p2[2];
#define g_child (g_child2[0])
struct Expression *const *_ZNKSt6vectorIPN4bloc10ExpressionESaIS2_EEixEm(const void *this, unsigned long n)
{ (void)this; __CPROVER_assert(n < 2, "type() consults the first two arguments at most"); g_child_p2[n] = &g_child2[n]; return &g_child_p2[n]; }
/* bool Type::operator==(TypeMajor) and friends are rendered from the repository */

const struct Type *BUILTIN_TYPE_FN(struct BUILTIN_CLASS *this, struct Context *ctx)
__CPROVER_requires(IS_FRESH(this, sizeof(*this)) && IS_FRESH(ctx, sizeof(*ctx)))
__CPROVER_requires(__exc == 0 && g_type_n == 0 && GLOBALS_PINNED)
__CPROVER_assigns(g_type_n, __CPROVER_object_whole(g_stype), __CPROVER_object_whole(g_type_node))
PROP(C01, C02) __CPROVER_ensures(__exc == 0 && RET != 0)
#ifdef BUILTIN_TYPE
PROP(C02) __CPROVER_ensures(RET->_level == 0 && RET->_major == BUILTIN_TYPE && RET->_minor == 0)
#endif
#ifdef BUILTIN_TYPE_SAME_AS_ARG1
/* the compiled type of the first argument itself (abs: decimal for a complex) */
PROP(C02) __CPROVER_ensures(g_type_n == 1 && g_type_node[0] == &g_child)
#ifdef BUILTIN_ABS
PROP(C02) __CPROVER_ensures(ST1->_major == IMAGINARY ? (RET->_major == NUMERIC && RET->_level == 0) : RET == ST1)
#else
PROP(C02) __CPROVER_ensures(RET == ST1)
#endif
#endif
#ifdef BUILTIN_TYPE_ARITH2
PROP(C02) __CPROVER_ensures(g_type_n == 2 && g_type_node[0] == &g_child2[0] && g_type_node[1] == &g_child2[1])
PROP(C02) __CPROVER_ensures(RET->_level == 0 && RET->_minor == 0 && RET->_major == ((ST1->_major == INTEGER && ST2->_major == INTEGER) ? INTEGER : NUMERIC))
#endif
#ifdef BUILTIN_TYPE_POW
PROP(C02) __CPROVER_ensures(g_type_n == 2 && g_type_node[0] == &g_child2[0] && g_type_node[1] == &g_child2[1])
PROP(C02) __CPROVER_ensures(RET->_level == 0 && RET->_minor == 0 && RET->_major == ((ST1->_major == IMAGINARY || ST2->_major == IMAGINARY) ? IMAGINARY : (ST1->_major == INTEGER && ST2->_major == INTEGER) ? INTEGER : NUMERIC))
#endif
#ifdef BUILTIN_TYPE_FOLLOWS_COMPLEX
PROP(C02) __CPROVER_ensures(g_type_n == 1 && g_type_node[0] == &g_child)
PROP(C02) __CPROVER_ensures(RET->_level == 0 && RET->_minor == 0 && RET->_major == ((ST1->_major == IMAGINARY) ? IMAGINARY : NUMERIC))
#endif
;

#include FNS_C
