/* contracts of bloc::HASHExpression::value and of the DJB hash loop bloc_builtin_hash (C10) */
#define PAYLOAD_LITERAL
#define PAYLOAD_TABCHAR
#define HAVE_STD_STRING
#define CONTAINERS_MODEL
#define FRAME_TAGS C05, C10   /* C10: "leave their arguments unchanged" */
#include "prelude.h"
#include "containers.h"

/* static uint32_t bloc_builtin_hash(uint32_t maxsize, const char * buf, unsigned len):
 * reads exactly buf[0 .. len), needs a non-zero modulus, result below the modulus */
unsigned _ZN4blocL17bloc_builtin_hashEjPKcj(unsigned maxsize, const char *buf, unsigned len)
#ifdef HASH_LOOP_JOB
__CPROVER_requires(IS_FRESH(buf, HASH_LEN_MAX) && len <= HASH_LEN_MAX && maxsize != 0 && __exc == 0)
#else
__CPROVER_requires(maxsize != 0 && __CPROVER_r_ok(buf, len) && __exc == 0)
#endif
__CPROVER_assigns()
PROP(C01, C10) __CPROVER_ensures(__exc == 0 && __CPROVER_return_value < maxsize)
;

#define ARG A1
#define MOD A2
struct Value *_ZNK4bloc14HASHExpression5valueERNS_7ContextE(struct HASHExpression *this, struct Context *ctx)
__CPROVER_requires(IS_FRESH(this, sizeof(*this)) && IS_FRESH(ctx, sizeof(*ctx)))
__CPROVER_requires(INPUT_STATE(g_nargs))
__CPROVER_requires(this->_base_BuiltinExpression.oper >= 0 && this->_base_BuiltinExpression.oper < 128)
__CPROVER_requires(g_nargs >= 1 && g_nargs <= 2 && ARGS_PINNED && __exc == 0 && g_eval_n == 0 && __caught_n == 0 && GLOBALS_PINNED)
EVAL_ASSIGNS
ENS_ONLY_RT
/* hash of a string or of bytes: an integer in [0, modulus) -- for every modulus the caller can write, a result or a BLOC error */
PROP(C10) __CPROVER_ensures((OK && (V_IS(ARG, LITERAL) || V_IS(ARG, TABCHAR)) && !V_ISNULL(ARG)) ==> (V_IS(RET, INTEGER) && !V_ISNULL(RET) && V_I(RET) >= 0 && V_I(RET) <= 4294967295l))
PROP(C10) __CPROVER_ensures((OK && g_eval_n == 2 && IS_INT(MOD) && (V_IS(ARG, LITERAL) || V_IS(ARG, TABCHAR)) && !V_ISNULL(ARG)) ==> (V_I(MOD) >= 1 && V_I(MOD) <= 4294967295l && V_I(RET) < V_I(MOD)))
PROP(C10) __CPROVER_ensures((g_eval_n == 2 && IS_INT(MOD) && (V_I(MOD) < 1 || V_I(MOD) > 4294967295l)) ==> THROWN_RT(EXC_RT_OUT_OF_RANGE))
ENS_TYPE(INTEGER)
ENS_FRAME1
ENS_FRAME2
;

#include FNS_C
