/* contract of bloc::Value::_clear (C17, C01): the payload of a non-null value is destroyed exactly once, by the
 * destructor of its own kind, and its storage released exactly once; scalars and forall pointers own nothing; the
 * value is null afterwards.  (Deleting a module object's handle runs Complex::~Complex, contract in complex.c: the
 * module's destroyObject is reached exactly when the last handle goes.) */
#define ENFORCING_VALUE_CLEAR
enum { K_NONE, K_COLLECTION, K_TUPLE, K_COMPLEX, K_TABCHAR, K_LITERAL };
int g_dtor_n, g_dtor_kind, g_delete_n; void *g_dtor_obj, *g_delete_obj;
#define G2C_DELETE_HOOK(p) if ((p) != 0) { g_delete_n++; g_delete_obj = (void *)(p); }
#include "prelude.h"
#define DTOR_STUB(name, kind) void name(void *this) { g_dtor_n++; g_dtor_kind = kind; g_dtor_obj = this; }
/* the deleting destructors of Collection / Tuple (virtual) destroy and release */
void VCALL_Collection__Collection(void *this) { g_dtor_n++; g_dtor_kind = K_COLLECTION; g_dtor_obj = this; g_delete_n++; g_delete_obj = this; }
void VCALL_Tuple__Tuple(void *this) { g_dtor_n++; g_dtor_kind = K_TUPLE; g_dtor_obj = this; g_delete_n++; g_delete_obj = this; }
DTOR_STUB(_ZN4bloc7ComplexD1Ev, K_COMPLEX)
DTOR_STUB(_ZNSt6vectorIcSaIcEED1Ev, K_TABCHAR)
DTOR_STUB(_ZNSt7__cxx1112basic_stringIcSt11char_traitsIcESaIcEED1Ev, K_LITERAL)

#define WAS(M) (__CPROVER_old(V_MAJOR(this)) == (M) && __CPROVER_old(V_LEVEL(this)) == 0)
#define DESTROYED(kind) (g_dtor_n == 1 && g_dtor_kind == (kind) && g_dtor_obj == __CPROVER_old(this->_value.p) && g_delete_n == 1 && g_delete_obj == __CPROVER_old(this->_value.p))
void _ZN4bloc5Value6_clearEv(struct Value *this)
__CPROVER_requires(IS_FRESH(this, sizeof(*this)))
__CPROVER_requires(VALID_TAG(this) && !V_ISNULL(this) && __exc == 0 && __caught_n == 0 && g_dtor_n == 0 && g_delete_n == 0 && GLOBALS_PINNED)
__CPROVER_requires((V_LEVEL(this) > 0 || V_IS(this, IMAGINARY) || V_IS(this, LITERAL) || V_IS(this, COMPLEX) || V_IS(this, TABCHAR) || V_IS(this, ROWTYPE)) ==> IS_FRESH(this->_value.p, 64))
__CPROVER_assigns(this->_flags)
PROP(C01, C17) __CPROVER_ensures(OK && this->_flags == (__CPROVER_old(this->_flags) & ~F_NOTNULL))
PROP(C17) __CPROVER_ensures(__CPROVER_old(V_LEVEL(this)) > 0 ==> DESTROYED(K_COLLECTION))
PROP(C17) __CPROVER_ensures(WAS(ROWTYPE) ==> DESTROYED(K_TUPLE))
PROP(C17) __CPROVER_ensures(WAS(COMPLEX) ==> DESTROYED(K_COMPLEX))
PROP(C17) __CPROVER_ensures(WAS(TABCHAR) ==> DESTROYED(K_TABCHAR))
PROP(C17) __CPROVER_ensures(WAS(LITERAL) ==> DESTROYED(K_LITERAL))
/* a complex number is plain data: released, no destructor */
PROP(C17) __CPROVER_ensures(WAS(IMAGINARY) ==> (g_dtor_n == 0 && g_delete_n == 1 && g_delete_obj == __CPROVER_old(this->_value.p)))
/* scalars, untyped values and forall pointers own nothing */
PROP(C17) __CPROVER_ensures((WAS(NO_TYPE) || WAS(BOOLEAN) || WAS(INTEGER) || WAS(NUMERIC) || WAS(POINTER)) ==> (g_dtor_n == 0 && g_delete_n == 0))
;

#include FNS_C
