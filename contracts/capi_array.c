/* contracts of the table accessors of the C API (blocc/bloc_capi.cpp): element access is bounds-checked (C15, C01) */
#define PAYLOAD_COLLECTION
#define HAVE_STD_STRING
#define CONTAINERS_MODEL
#include "prelude.h"
#include "containers.h"
struct { const char *msg; int no; } _ZL10bloc_error;     /* static bloc_error of bloc_capi.cpp */
/* bloc_array_item / bloc_tuple_item: an index below the size yields the address of that element, any other index
 * yields bloc_false and leaves *v alone; bloc_array_size / bloc_tuple_size report the size; nothing is modified */
#define ARR ((struct Collection *)array)
#define ROW ((struct Tuple *)row)
char bloc_array_item(struct bloc_array *array, unsigned index, struct bloc_value **v)
__CPROVER_requires(IS_FRESH(array, sizeof(struct Collection)) && IS_FRESH(v, sizeof(void *)) && __exc == 0 && __caught_n == 0 && GLOBALS_PINNED)
__CPROVER_requires(SZ(&ARR->v) <= 0xfffffffful)
__CPROVER_assigns(*v)
PROP(C01, C15) __CPROVER_ensures(__exc == 0)
PROP(C15) __CPROVER_ensures((RET == 1) == (index < SZ(&ARR->v)) && (RET == 0 || RET == 1))
PROP(C15) __CPROVER_ensures(RET == 1 ==> (void *)*v == (void *)&g_tab_elem)
PROP(C15) __CPROVER_ensures(RET == 0 ==> *v == __CPROVER_old(*v))
PROP(C15) __CPROVER_ensures(SZ(&ARR->v) == __CPROVER_old(SZ(&ARR->v)))
;
unsigned bloc_array_size(struct bloc_array *array)
__CPROVER_requires(IS_FRESH(array, sizeof(struct Collection)) && __exc == 0 && GLOBALS_PINNED)
__CPROVER_requires(SZ(&ARR->v) <= 0xfffffffful)
__CPROVER_assigns()
PROP(C01, C15) __CPROVER_ensures(__exc == 0 && RET == SZ(&ARR->v))
;

#include FNS_C
