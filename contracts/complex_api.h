/* complex_api.h -- std::complex<double> as used by op_exp.cpp (ASSUMED: total, no exception; values unconstrained) */
#ifndef COMPLEX_API_H
#define COMPLEX_API_H
struct std_complex_double;
void _ZNSt7complexIdEC1Edd(struct std_complex_double *this, double re, double im) { double *p = (double *)this; p[0] = re; p[1] = im; }
double _ZNKSt7complexIdE4realB5cxx11Ev(const struct std_complex_double *this) { return ((const double *)this)[0]; }
double _ZNKSt7complexIdE4imagB5cxx11Ev(const struct std_complex_double *this) { return ((const double *)this)[1]; }
#define CPOW(name, T1, T2) struct std_complex_double name(T1 x, T2 y) { struct std_complex_double r; double *p = (double *)&r; p[0] = __g2c_nondet_double(); p[1] = __g2c_nondet_double(); (void)x; (void)y; return r; }
CPOW(_ZSt3powIdESt7complexIT_ERKS1_RKS2_, const double *, const struct std_complex_double *)
CPOW(_ZSt3powIdESt7complexIT_ERKS2_RKS1_, const struct std_complex_double *, const double *)
CPOW(_ZSt3powIdESt7complexIT_ERKS2_S4_, const struct std_complex_double *, const struct std_complex_double *)
/* one-argument functions of std::complex<double>: total, result unconstrained */
#define CFN1(name) struct std_complex_double name(const struct std_complex_double *z) { struct std_complex_double r; double *p = (double *)&r; p[0] = __g2c_nondet_double(); p[1] = __g2c_nondet_double(); (void)z; return r; }
CFN1(_ZSt3sinIdESt7complexIT_ERKS2_)
CFN1(_ZSt3cosIdESt7complexIT_ERKS2_)
CFN1(_ZSt3tanIdESt7complexIT_ERKS2_)
CFN1(_ZSt4asinIdESt7complexIT_ERKS2_)
CFN1(_ZSt4acosIdESt7complexIT_ERKS2_)
CFN1(_ZSt4atanIdESt7complexIT_ERKS2_)
CFN1(_ZSt4sinhIdESt7complexIT_ERKS2_)
CFN1(_ZSt4coshIdESt7complexIT_ERKS2_)
CFN1(_ZSt4tanhIdESt7complexIT_ERKS2_)
CFN1(_ZSt3expIdESt7complexIT_ERKS2_)
CFN1(_ZSt3logIdESt7complexIT_ERKS2_)
CFN1(_ZSt5log10IdESt7complexIT_ERKS2_)
CFN1(_ZSt4sqrtIdESt7complexIT_ERKS2_)
double _ZSt3absIdET_RKSt7complexIS0_E(const struct std_complex_double *z) { (void)z; return __g2c_nondet_double(); }
double _ZSt3argIdET_RKSt7complexIS0_E(const struct std_complex_double *z) { (void)z; return __g2c_nondet_double(); }
#endif
