/* contract of bloc::IFStatement::doit.
 * The rule list (condition, block) is a std::list; it is modelled by a ghost array of at most RULES_MAX rules
 * and the list iteration is unwound: the result is BOUNDED (if / elsif / else chains of at most RULES_MAX rules). */
#include "prelude.h"
#include "ctx_api.h"

#define RULES_MAX 3
struct pair_Expr_Exec g_rules[RULES_MAX + 1]; int g_rules_len;
/* ---- ASSUMED model of std::list<pair<Expression*,Executable*>> iteration over the ghost array ---- */
struct list_citer_rules _ZNKSt7__cxx114listISt4pairIPN4bloc10ExpressionEPNS2_10ExecutableEESaIS7_EE5beginEv(const struct list_rules *this)
{ struct list_citer_rules it; *(void **)&it = (void *)&g_rules[0]; (void)this; return it; }
struct list_citer_rules _ZNKSt7__cxx114listISt4pairIPN4bloc10ExpressionEPNS2_10ExecutableEESaIS7_EE3endEv(const struct list_rules *this)
{ struct list_citer_rules it; *(void **)&it = (void *)&g_rules[g_rules_len]; (void)this; return it; }
_Bool _ZStneRKSt20_List_const_iteratorISt4pairIPN4bloc10ExpressionEPNS1_10ExecutableEEES9_(const struct list_citer_rules *a, const struct list_citer_rules *b)
{ return *(void *const *)a != *(void *const *)b; }
const struct pair_Expr_Exec *_ZNKSt20_List_const_iteratorISt4pairIPN4bloc10ExpressionEPNS1_10ExecutableEEEdeEv(const struct list_citer_rules *this)
{
  const struct pair_Expr_Exec *p = *(struct pair_Expr_Exec *const *)this;
  __CPROVER_assert(p >= &g_rules[0] && p < &g_rules[g_rules_len], "std::list iterator dereferenced inside [begin, end)");
  return p;
}
struct list_citer_rules *_ZNSt20_List_const_iteratorISt4pairIPN4bloc10ExpressionEPNS1_10ExecutableEEEppEv(struct list_citer_rules *this)
{
  struct pair_Expr_Exec *p = *(struct pair_Expr_Exec **)this;
  __CPROVER_assert(p >= &g_rules[0] && p < &g_rules[g_rules_len], "std::list iterator incremented inside [begin, end)");
  *(struct pair_Expr_Exec **)this = p + 1;
  return this;
}

#define NEXT (this->_base_Statement._next)
#define HAS_COND(k) (g_rules[k].first != 0)
#define COND_TRUE(k) (IN_BOOL_DOMAIN(&g_eval_snap[k]) && KLEENE(&g_eval_snap[k]) == K_T)
#define COND_FALSE(k) (IN_BOOL_DOMAIN(&g_eval_snap[k]) && KLEENE(&g_eval_snap[k]) != K_T)
#define STMTS(k) ((const void *)&g_rules[k].second->_statements)
/* rule k is the one taken: every earlier rule has a condition that evaluated to false or null */
#define SKIPPED(k) (HAS_COND(k) && g_eval_n > (k) && COND_FALSE(k))
#define TAKEN0 (g_rules_len > 0 && (!HAS_COND(0) || (g_eval_n > 0 && COND_TRUE(0))))
#define TAKEN1 (g_rules_len > 1 && SKIPPED(0) && (!HAS_COND(1) || (g_eval_n > 1 && COND_TRUE(1))))
#define TAKEN2 (g_rules_len > 2 && SKIPPED(0) && SKIPPED(1) && (!HAS_COND(2) || (g_eval_n > 2 && COND_TRUE(2))))

const struct Statement *_ZNK4bloc11IFStatement4doitERNS_7ContextE(struct IFStatement *this, struct Context *ctx)
__CPROVER_requires(IS_FRESH(this, sizeof(*this)) && IS_FRESH(ctx, sizeof(*ctx)) && IS_FRESH(ctx->_root, sizeof(struct Context)))
__CPROVER_requires(INPUT_STATE(g_rules_len, g_rules[0].first, g_rules[1].first, g_rules[2].first))
__CPROVER_requires(g_rules_len >= 0 && g_rules_len <= RULES_MAX)
__CPROVER_requires(IS_FRESH(g_rules[0].second, sizeof(struct Executable)) && IS_FRESH(g_rules[1].second, sizeof(struct Executable)) && IS_FRESH(g_rules[2].second, sizeof(struct Executable)))
__CPROVER_requires(__exc == 0 && g_eval_n == 0 && __caught_n == 0 && GLOBALS_PINNED && g_run_count == 0)
__CPROVER_assigns(__CPROVER_object_whole(ctx))
PROP(C01) __CPROVER_ensures(ONLY_RUNTIME_ERROR)
/* conditions are evaluated in order, each at most once; at most one block runs; control continues after the statement */
PROP(C06) __CPROVER_ensures(g_run_count <= 1 && g_eval_n <= g_rules_len && (g_eval_n >= 1 ==> g_eval_node[0] == g_rules[0].first) && (g_eval_n >= 2 ==> g_eval_node[1] == g_rules[1].first) && (g_eval_n == 3 ==> g_eval_node[2] == g_rules[2].first))
PROP(C06) __CPROVER_ensures(OK ==> RET == NEXT)
/* C04: the block of the first rule whose condition is true (or absent: else) runs; a null or false condition skips its block */
PROP(C04, C06) __CPROVER_ensures(TAKEN0 ==> (g_run_count == 1 && g_run_arg == STMTS(0) && g_eval_n == (HAS_COND(0) ? 1 : 0)))
PROP(C04, C06) __CPROVER_ensures(TAKEN1 ==> (g_run_count == 1 && g_run_arg == STMTS(1) && g_eval_n == (HAS_COND(1) ? 2 : 1)))
PROP(C04, C06) __CPROVER_ensures(TAKEN2 ==> (g_run_count == 1 && g_run_arg == STMTS(2) && g_eval_n == (HAS_COND(2) ? 3 : 2)))
PROP(C04, C06) __CPROVER_ensures((OK && (g_rules_len == 0 || (g_rules_len == 1 && SKIPPED(0)) || (g_rules_len == 2 && SKIPPED(0) && SKIPPED(1)) || (g_rules_len == 3 && SKIPPED(0) && SKIPPED(1) && SKIPPED(2)))) ==> g_run_count == 0)
;

#include FNS_C
