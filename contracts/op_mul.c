/* contract of bloc::OpMULExpression::value  (operator *) */
#define PAYLOAD_IMAGINARY
#include "prelude.h"

struct Value *_ZNK4bloc15OpMULExpression5valueERNS_7ContextE(struct OpMULExpression *this, struct Context *ctx)
EVAL_PRE_BINOP
EVAL_ASSIGNS
ENS_ONLY_RT
ENS_EVAL_BOTH
ENS_ARITH_II((C03, UF), SPEC_MUL)
ENS_ARITH_D((C03, UF), D_MUL)
ENS_TYPE_ARITH
ENS_FRAME1
ENS_FRAME2
ENS_OWN2
;

#include FNS_C
