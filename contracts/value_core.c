/* contracts of the move operations of bloc::Value, proved on the real bodies (blocc/value.cpp) (C05, C17, C01): these
 * are the same clauses every other job ASSUMES for them (contracts/value_api.h), plus: the payload the destination
 * held before is released exactly when the destination was non-null, and exactly once. */
#define ENFORCING_VALUE_CORE
#include "prelude.h"
int g_clear_n; struct Value *g_clear_arg;
/* void Value::_clear(): its own contract is job value_clear */
void _ZN4bloc5Value6_clearEv(struct Value *this) { g_clear_n++; g_clear_arg = this; this->_flags &= ~F_NOTNULL; }

#define PRE2 __CPROVER_requires(IS_FRESH(this, sizeof(*this)) && IS_FRESH(v, sizeof(*v))) __CPROVER_requires(VALID_TAG(this) && VALID_TAG(v) && __exc == 0 && __caught_n == 0 && g_clear_n == 0 && GLOBALS_PINNED)
#define MOVED (this->_flags == __CPROVER_old(v->_flags) && V_MAJOR(this) == __CPROVER_old(V_MAJOR(v)) && V_MINOR(this) == __CPROVER_old(V_MINOR(v)) && V_LEVEL(this) == __CPROVER_old(V_LEVEL(v)) && \
               this->_value.i == __CPROVER_old(v->_value.i) && v->_flags == 0 && v->_value.i == __CPROVER_old(v->_value.i))
#define RELEASED_OLD (g_clear_n == (__CPROVER_old(V_ISNULL(this)) ? 0 : 1) && (g_clear_n == 1 ==> g_clear_arg == this))

#ifdef JOB_MOVE_ASSIGN
struct Value *_ZN4bloc5ValueaSEOS0_(struct Value *this, struct Value *v)
PRE2
__CPROVER_assigns(VALUE_FIELDS(this), v->_flags)
PROP(C01, C05, C17) __CPROVER_ensures(OK && RET == this)
PROP(C05, C17) __CPROVER_ensures(MOVED && RELEASED_OLD)
;
#endif
#ifdef JOB_SWAP_RV
void _ZN4bloc5Value4swapEOS0_(struct Value *this, struct Value *v)
PRE2
__CPROVER_assigns(VALUE_FIELDS(this), v->_flags)
PROP(C01, C05, C17) __CPROVER_ensures(OK)
PROP(C05, C17) __CPROVER_ensures(MOVED && RELEASED_OLD)
;
#endif
#ifdef JOB_MOVE_CTOR
void _ZN4bloc5ValueC2EOS0_(struct Value *this, struct Value *v)
__CPROVER_requires(IS_FRESH(this, sizeof(*this)) && IS_FRESH(v, sizeof(*v)))
__CPROVER_requires(VALID_TAG(v) && __exc == 0 && __caught_n == 0 && g_clear_n == 0 && GLOBALS_PINNED)
__CPROVER_assigns(__CPROVER_object_whole(this), v->_flags)
PROP(C01, C05, C17) __CPROVER_ensures(OK)
PROP(C05, C17) __CPROVER_ensures(MOVED && g_clear_n == 0)
;
#endif
#ifdef JOB_SWAP_LV
void _ZN4bloc5Value4swapERS0_(struct Value *this, struct Value *v)
PRE2
__CPROVER_assigns(VALUE_FIELDS(this), VALUE_FIELDS(v))
PROP(C01, C05, C17) __CPROVER_ensures(OK && g_clear_n == 0)
/* a plain exchange: nothing is released, nothing is lost */
PROP(C05, C17) __CPROVER_ensures(this->_flags == __CPROVER_old(v->_flags) && V_MAJOR(this) == __CPROVER_old(V_MAJOR(v)) && V_MINOR(this) == __CPROVER_old(V_MINOR(v)) && V_LEVEL(this) == __CPROVER_old(V_LEVEL(v)) && this->_value.i == __CPROVER_old(v->_value.i) &&
                                 v->_flags == __CPROVER_old(this->_flags) && V_MAJOR(v) == __CPROVER_old(V_MAJOR(this)) && V_MINOR(v) == __CPROVER_old(V_MINOR(this)) && V_LEVEL(v) == __CPROVER_old(V_LEVEL(this)) && v->_value.i == __CPROVER_old(this->_value.i))
;
#endif

#include FNS_C
