/* contract of bloc::INCLUDEStatement::doit (C14, C07): the statements compiled from the included file run, once, in the
 * context the INCLUDE statement itself is executed in -- the one handed to doit(), which for a program run in a clone is
 * the clone -- not in the context the file happened to be compiled in; an error of theirs is passed on unchanged. */
#include "prelude.h"
int g_run_n, g_run0_n; const void *g_run_ctx, *g_run_stmts; _Bool g_run_throws;
/* static int Executable::run(Context&, const std::list<const Statement*>&) */
struct std_list_StatementPtr;
int _ZN4bloc10Executable3runERNS_7ContextERKNSt7__cxx114listIPKNS_9StatementESaIS7_EEE(struct Context *ctx, const struct std_list_StatementPtr *stmts)
{
  g_run_n++; g_run_ctx = ctx; g_run_stmts = stmts;
  if (g_run_throws) { __cxa_throw(__CPROVER_allocate(sizeof(struct RuntimeError), 0), G2C_EXC_RuntimeError, 0); return 0; }
  return 0;
}
/* int Executable::run(): the same with the context the executable was built with (never the right one for an included file) */
int _ZN4bloc10Executable3runEv(struct Executable *this) { (void)this; g_run0_n++; return 0; }

const struct Statement *_ZNK4bloc16INCLUDEStatement4doitERNS_7ContextE(struct INCLUDEStatement *this, struct Context *ctx)
__CPROVER_requires(IS_FRESH(this, sizeof(*this)) && IS_FRESH(ctx, sizeof(*ctx)) && IS_FRESH(this->_exec, sizeof(struct Executable)))
__CPROVER_requires(INPUT_STATE(g_run_throws))
__CPROVER_requires(__exc == 0 && __caught_n == 0 && g_run_n == 0 && g_run0_n == 0 && GLOBALS_PINNED)
__CPROVER_assigns()
PROP(C01, C07) __CPROVER_ensures(ONLY_RUNTIME_ERROR)
/* once, in the given context, over the executable's own statement list */
PROP(C14) __CPROVER_ensures(g_run_n == 1 && g_run0_n == 0 && g_run_ctx == (const void *)ctx && g_run_stmts == (const void *)&this->_exec->_statements)
PROP(C07) __CPROVER_ensures(g_run_throws ? !OK : (OK && RET == this->_base_Statement._next))
;

#include FNS_C
