/* contract of bloc::Context::createChildShell (and the copy constructor it uses) (C16): the context in which a
 * function body is compiled inherits the trusted flag of its parent unchanged. */
#define HAVE_STD_STRING
#define CONTAINERS_MODEL
#define CONTAINERS_STRINGS_ONLY
#include "prelude.h"
#include "containers.h"
void _ZNSt6vectorIN4bloc6SymbolESaIS1_EEC1Ev(void *this) { (void)this; }
void _ZNSt6vectorIN4bloc7Context10MemorySlotESaIS2_EEC1Ev(void *this) { (void)this; }
void _ZNSt6vectorIN4bloc7Context7ControlESaIS2_EEC1Ev(void *this) { (void)this; }
void _ZNSt6vectorIPKN4bloc9StatementESaIS3_EEC1Ev(void *this) { (void)this; }
void _ZNSt6vectorIPN4bloc5ValueESaIS2_EEC1Ev(void *this) { (void)this; }
void _ZNSt9exceptionC2Ev(void *this) { (void)this; }

struct Context *_ZNK4bloc7Context16createChildShellERS0_(struct Context *this, struct Context *root)
__CPROVER_requires(IS_FRESH(this, sizeof(*this)) && IS_FRESH(root, sizeof(*root)))
__CPROVER_requires(__exc == 0 && __caught_n == 0 && GLOBALS_PINNED)
__CPROVER_assigns()
PROP(C16) __CPROVER_ensures(OK && RET != 0 && RET != this && RET->_flags == this->_flags && this->_flags == __CPROVER_old(this->_flags))
PROP(C16) __CPROVER_ensures(RET->_root == this->_root && RET->_fctm == root->_fctm)
;

#include FNS_C
