/* contract of bloc::Context::createChildShell (and the copy constructor it uses) (C16): the context in which a
 * function body is compiled inherits the trusted flag of its parent unchanged. */
#define HAVE_STD_STRING
#define CONTAINERS_MODEL
#define CONTAINERS_STRINGS_ONLY
#include "prelude.h"
#include "containers.h"
void _ZNSt6vectorIN4bloc6SymbolESaIS1_EEC1Ev(void *this) { (void)this; }
void _ZNSt6vectorIN4bloc7Context10MemorySlotESaIS2_EEC1Ev(void *this) { (void)this; }
void _ZNSt6vectorIN4bloc7Context7ControlESaIS2_EEC1Ev(void *this) { (void)this; }
void _ZNSt6vectorIPKN4bloc9StatementESaIS3_EEC1Ev(void *this) { (void)this; }
void _ZNSt6vectorIPN4bloc5ValueESaIS2_EEC1Ev(void *this) { (void)this; }
void _ZNSt9exceptionC2Ev(void *this) { (void)this; }

#ifdef JOB_TRUSTED
/* void Context::trusted(bool b): the trusted flag becomes b -- whatever it was --, the other flags are not touched */
void _ZN4bloc7Context7trustedEb(struct Context *this, _Bool b)
__CPROVER_requires(IS_FRESH(this, sizeof(*this)) && *(unsigned char *)&b <= 1 && __exc == 0 && GLOBALS_PINNED)
__CPROVER_assigns(__CPROVER_object_whole(this))
PROP(C01, C16) __CPROVER_ensures(OK)
PROP(C16) __CPROVER_ensures(((this->_flags & 1) != 0) == (b != 0) && (this->_flags & ~1u) == (__CPROVER_old(this->_flags) & ~1u))
;
#elif defined(JOB_RUNTIME)
/* Context* Context::createChildRuntime(Context& root, uint8_t recursion) const (C08, C14): the context a function body runs in is a new
 * context that resolves functions through the table of the root it was asked for -- the root of the *calling* context, which for a
 * clone is the clone's own table --, carries the recursion level given, has the flags and root of the parse context, and one new
 * slot per declared symbol.  BOUNDED: the declared symbol table is a ghost array of at most 2 slots. */
#define DECL_MAX 2
struct Symbol g_decl_sym[DECL_MAX + 1];
struct Context__MemorySlot g_decl[DECL_MAX + 1]; unsigned long g_decl_len; int g_push_n, g_slot_ctor_n; const void *g_push_vec;
#ifndef G2C_HAVE_vslot_citerator
struct vslot_citerator { struct Context__MemorySlot *p; };
#endif
unsigned long _ZNKSt6vectorIN4bloc7Context10MemorySlotESaIS2_EE4sizeEv(const struct vec_MemorySlot *this) { (void)this; return g_decl_len; }
/* const operator[]: by position (an index loop over the declared table is as good as an iterator loop) */
const struct Context__MemorySlot *_ZNKSt6vectorIN4bloc7Context10MemorySlotESaIS2_EEixEm(const struct vec_MemorySlot *this, unsigned long n)
{ (void)this; __CPROVER_assert(n < g_decl_len, "std::vector<MemorySlot>::operator[] const: index within size() (undefined behaviour otherwise)"); return &g_decl[n]; }
void _ZNSt6vectorIN4bloc7Context10MemorySlotESaIS2_EE7reserveEm(struct vec_MemorySlot *this, unsigned long n) { (void)this; (void)n; }
struct vslot_citerator _ZNKSt6vectorIN4bloc7Context10MemorySlotESaIS2_EE5beginEv(const struct vec_MemorySlot *this)
{ struct vslot_citerator it; (void)this; *(void **)&it = (void *)&g_decl[0]; return it; }
struct vslot_citerator _ZNKSt6vectorIN4bloc7Context10MemorySlotESaIS2_EE3endEv(const struct vec_MemorySlot *this)
{ struct vslot_citerator it; (void)this; *(void **)&it = (void *)&g_decl[g_decl_len]; return it; }
_Bool _ZN9__gnu_cxxneIPKN4bloc7Context10MemorySlotESt6vectorIS3_SaIS3_EEEEbRKNS_17__normal_iteratorIT_T0_EESE_(const struct vslot_citerator *a, const struct vslot_citerator *b)
{ return *(void *const *)a != *(void *const *)b; }
const struct Context__MemorySlot *_ZNK9__gnu_cxx17__normal_iteratorIPKN4bloc7Context10MemorySlotESt6vectorIS3_SaIS3_EEEdeEv(const struct vslot_citerator *this)
{
  const struct Context__MemorySlot *p = *(struct Context__MemorySlot *const *)this;
  __CPROVER_assert(p >= &g_decl[0] && p < &g_decl[g_decl_len], "std::vector iterator dereferenced inside [begin, end)");
  return p;
}
struct vslot_citerator *_ZN9__gnu_cxx17__normal_iteratorIPKN4bloc7Context10MemorySlotESt6vectorIS3_SaIS3_EEEppEv(struct vslot_citerator *this)
{ *(struct Context__MemorySlot **)this = *(struct Context__MemorySlot **)this + 1; return this; }
void _ZNSt6vectorIN4bloc7Context10MemorySlotESaIS2_EE9push_backEOS2_(struct vec_MemorySlot *this, struct Context__MemorySlot *s)
{ (void)s; g_push_vec = (const void *)this; g_push_n++; }

/* std::vector<Type> (the tuple declaration of a symbol): identity in word[0]; delete symbol */
void _ZNSt6vectorIN4bloc4TypeESaIS1_EEC2ERKS3_(struct vec_Type *this, const struct vec_Type *o) { CW(this, 0) = CW(o, 0); }
void VCALL_Symbol__Symbol(struct Symbol *s) { (void)s; }

struct Context *_ZNK4bloc7Context18createChildRuntimeERS0_h(struct Context *this, struct Context *root, unsigned char recursion)
__CPROVER_requires(IS_FRESH(this, sizeof(*this)) && IS_FRESH(root, sizeof(*root)))
#define SYM_INPUT(s) (s)._base_Type._major, (s)._base_Type._minor, (s)._base_Type._level, (s)._id, (s)._safety, (s)._locked
__CPROVER_requires(INPUT_STATE(g_decl_len, SYM_INPUT(g_decl_sym[0]), SYM_INPUT(g_decl_sym[1])))
__CPROVER_requires(SET_EQ(g_decl[0].symbol, &g_decl_sym[0]) && SET_EQ(g_decl[1].symbol, &g_decl_sym[1]))
__CPROVER_requires(*(unsigned char *)&g_decl_sym[0]._safety <= 1 && *(unsigned char *)&g_decl_sym[0]._locked <= 1 && *(unsigned char *)&g_decl_sym[1]._safety <= 1 && *(unsigned char *)&g_decl_sym[1]._locked <= 1)
__CPROVER_requires(g_decl_len <= DECL_MAX && recursion > 0 && g_push_n == 0 && g_slot_ctor_n == 0 && __exc == 0 && __caught_n == 0 && GLOBALS_PINNED)
__CPROVER_assigns()
PROP(C01) __CPROVER_ensures(OK && RET != 0 && RET != this && RET != root)
/* functions are resolved through the table of the root handed in (C14: never through another context's table) */
PROP(C08, C14) __CPROVER_ensures(RET->_fctm == root->_fctm && RET->_root == this->_root && RET->_flags == this->_flags)
PROP(C08) __CPROVER_ensures(RET->_recursion == recursion)
/* one new slot per declared symbol, pushed onto the new context's own table; the parse context is not touched */
PROP(C08, C14) __CPROVER_ensures(g_push_n == (int)g_decl_len && (g_decl_len > 0 ==> g_push_vec == (const void *)&RET->_storage_pool))
PROP(C14) __CPROVER_ensures(this->_fctm == __CPROVER_old(this->_fctm) && this->_root == __CPROVER_old(this->_root) && root->_fctm == __CPROVER_old(root->_fctm))
;
#else
struct Context *_ZNK4bloc7Context16createChildShellERS0_(struct Context *this, struct Context *root)
__CPROVER_requires(IS_FRESH(this, sizeof(*this)) && IS_FRESH(root, sizeof(*root)))
__CPROVER_requires(__exc == 0 && __caught_n == 0 && GLOBALS_PINNED)
__CPROVER_assigns()
PROP(C16) __CPROVER_ensures(OK && RET != 0 && RET != this && RET->_flags == this->_flags && this->_flags == __CPROVER_old(this->_flags))
PROP(C16) __CPROVER_ensures(RET->_root == this->_root && RET->_fctm == root->_fctm)
;
#endif

#include FNS_C
