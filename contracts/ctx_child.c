/* contract of bloc::Context::createChildShell (and the copy constructor it uses) (C16): the context in which a
 * function body is compiled inherits the trusted flag of its parent unchanged. */
#define HAVE_STD_STRING
#define CONTAINERS_MODEL
#define CONTAINERS_STRINGS_ONLY
#include "prelude.h"
#include "containers.h"
void _ZNSt6vectorIN4bloc6SymbolESaIS1_EEC1Ev(void *this) { (void)this; }
void _ZNSt6vectorIN4bloc7Context10MemorySlotESaIS2_EEC1Ev(void *this) { (void)this; }
void _ZNSt6vectorIN4bloc7Context7ControlESaIS2_EEC1Ev(void *this) { (void)this; }
void _ZNSt6vectorIPKN4bloc9StatementESaIS3_EEC1Ev(void *this) { (void)this; }
void _ZNSt6vectorIPN4bloc5ValueESaIS2_EEC1Ev(void *this) { (void)this; }
void _ZNSt9exceptionC2Ev(void *this) { (void)this; }

#ifdef JOB_TRUSTED
/* void Context::trusted(bool b): the trusted flag becomes b -- whatever it was --, the other flags are not touched */
void _ZN4bloc7Context7trustedEb(struct Context *this, _Bool b)
__CPROVER_requires(IS_FRESH(this, sizeof(*this)) && *(unsigned char *)&b <= 1 && __exc == 0 && GLOBALS_PINNED)
__CPROVER_assigns(__CPROVER_object_whole(this))
PROP(C01, C16) __CPROVER_ensures(OK)
PROP(C16) __CPROVER_ensures(((this->_flags & 1) != 0) == (b != 0) && (this->_flags & ~1u) == (__CPROVER_old(this->_flags) & ~1u))
;
#else
struct Context *_ZNK4bloc7Context16createChildShellERS0_(struct Context *this, struct Context *root)
__CPROVER_requires(IS_FRESH(this, sizeof(*this)) && IS_FRESH(root, sizeof(*root)))
__CPROVER_requires(__exc == 0 && __caught_n == 0 && GLOBALS_PINNED)
__CPROVER_assigns()
PROP(C16) __CPROVER_ensures(OK && RET != 0 && RET != this && RET->_flags == this->_flags && this->_flags == __CPROVER_old(this->_flags))
PROP(C16) __CPROVER_ensures(RET->_root == this->_root && RET->_fctm == root->_fctm)
;
#endif

#include FNS_C
