/* contract of tokenizer_buf (blocc/tokenizer.lex, as generated into blocc/lex._tokenizer.c) (C13, C01): the glue between
 * the stream reader and the flex scanner.  One call asks the reader once for at most 1023 bytes (they and the terminator
 * fit the 1024-byte chunk), and hands flex EXACTLY those bytes as a new scan buffer in the state flex itself gives a
 * new buffer (owned by the scanner, current, at the beginning of a line, nothing consumed); no bytes means no buffer.
 * The translation unit is C: it is included UNCHANGED (flex's yy_scan_string / yy_scan_bytes / yy_scan_buffer run as
 * they are); the reader is a stub that delivers at most N_MAX arbitrary bytes: BOUNDED. */
#define MODE_B_C_SOURCE
#include <stddef.h>
_Bool __modeb_fresh(void **pp, unsigned long n) { *pp = __CPROVER_allocate(n, 0); return 1; }
#define MODEB_FRESH_ASSUME(p, n) __modeb_fresh((void **)&(p), (n))
#define MODEB_FRESH_ASSERT(p, n) __CPROVER_r_ok((p), (n))
#define MODEB_FRESH_POST(p, n)   __CPROVER_r_ok((p), (n))
#define RET __ret
int __exc;   /* C: no exceptions; kept for the harness generator */
#include FNS_C

#define N_MAX 3
int g_read_n, g_read_max, g_calls; void *g_read_handle; char g_bytes[N_MAX + 1]; char *g_read_buf;
int __g2c_nondet_int(void); char __g2c_nondet_char(void);
/* void reader(void *handle, char *buf, int *len, int maxsize): delivers g_read_n bytes (any values but NUL -- flex scans C strings) */
#ifdef TOK_LONG_LINE
char g_first_last;   /* the last byte of the full first chunk (not a line feed: the line goes on) */
#endif
void reader_stub(void *handle, char *buf, int *len, int maxsize)
{
  g_calls++; g_read_handle = handle; g_read_max = maxsize; g_read_buf = buf;
  __CPROVER_assert(maxsize >= 0 && __CPROVER_w_ok(buf, (size_t)maxsize + 1), "the reader may write maxsize bytes and the caller one terminator");
#ifdef TOK_LONG_LINE
  if (g_calls == 1)
  { /* a full chunk in the middle of a line: maxsize bytes, none of them NUL, the last one not a line feed */
    for (int k = 0; k < 1023; ++k) buf[k] = 'a';
    buf[maxsize - 1] = g_first_last; *len = maxsize; return;
  }
#endif
  for (int k = 0; k < N_MAX; ++k) if (k < g_read_n) buf[k] = g_bytes[k];
  *len = g_read_n;
}
#define GUTS ((struct yyguts_t *)scanner->scanner)
#define BUF_HOLDS(k) (g_read_n <= (k) || RET->yy_ch_buf[k] == g_bytes[k])

YY_BUFFER_STATE tokenizer_buf(TOKEN_SCANNER scanner)
__CPROVER_requires(IS_FRESH(scanner, sizeof(*scanner)) && IS_FRESH(scanner->scanner, sizeof(struct yyguts_t)))
__CPROVER_requires(INPUT_STATE(g_read_n, g_bytes[0], g_bytes[1], g_bytes[2]))
__CPROVER_requires(SET_EQ(scanner->reader, reader_stub))
/* the scanner as yylex_init leaves it: no buffer stack yet */
__CPROVER_requires(SET_EQ(GUTS->yy_buffer_stack, 0) && SET_EQ(GUTS->yy_buffer_stack_top, 0) && SET_EQ(GUTS->yy_buffer_stack_max, 0))
#ifdef TOK_LONG_LINE
__CPROVER_requires(INPUT_STATE(g_first_last))
__CPROVER_requires(g_read_n >= 0 && g_read_n <= 2 && g_first_last != 0 && g_first_last != '\n')
#endif
__CPROVER_requires(g_read_n <= N_MAX && g_bytes[0] != 0 && g_bytes[1] != 0 && g_bytes[2] != 0 && g_calls == 0)
__CPROVER_assigns()
#ifdef TOK_LONG_LINE
/* a full chunk that does not end the line is continued: the reader is asked again and the scanner gets the line in one piece */
PROP(C01, C13) __CPROVER_ensures(g_calls == 2 && g_read_max == 1023 && g_read_handle == scanner->handle)
PROP(C13) __CPROVER_ensures(RET != 0 && RET->yy_buf_size == 1023 + g_read_n && RET->yy_ch_buf[0] == 'a' && RET->yy_ch_buf[1021] == 'a' && RET->yy_ch_buf[1022] == g_first_last &&
                            (g_read_n <= 0 || RET->yy_ch_buf[1023] == g_bytes[0]) && (g_read_n <= 1 || RET->yy_ch_buf[1024] == g_bytes[1]) && RET->yy_ch_buf[1023 + g_read_n] == 0 && RET->yy_ch_buf[1024 + g_read_n] == 0)
PROP(C13) __CPROVER_ensures(RET->yy_is_our_buffer == 1 && RET->yy_at_bol == 1 && RET->yy_buf_pos == RET->yy_ch_buf)
;
#else
/* the reader is asked once, for at most 1023 bytes, with the scanner's own handle */
PROP(C01, C13) __CPROVER_ensures(g_calls == 1 && g_read_max == 1023 && g_read_handle == scanner->handle)
/* no byte: no buffer */
PROP(C13) __CPROVER_ensures(g_read_n <= 0 ==> RET == 0)
/* otherwise a new buffer with exactly the bytes read, terminated as flex wants it, current, owned, at the beginning of a line */
PROP(C13) __CPROVER_ensures(g_read_n > 0 ==> (RET != 0 && RET->yy_buf_size == g_read_n && RET->yy_n_chars == g_read_n && BUF_HOLDS(0) && BUF_HOLDS(1) && BUF_HOLDS(2) &&
                            RET->yy_ch_buf[g_read_n] == 0 && RET->yy_ch_buf[g_read_n + 1] == 0 && RET->yy_buf_pos == RET->yy_ch_buf))
PROP(C13) __CPROVER_ensures(g_read_n > 0 ==> (RET->yy_is_our_buffer == 1 && RET->yy_at_bol == 1 && RET->yy_fill_buffer == 0 && RET->yy_input_file == 0 &&
                            GUTS->yy_buffer_stack != 0 && GUTS->yy_buffer_stack[GUTS->yy_buffer_stack_top] == RET))
;
#endif
