/* contract of bloc::FORALLStatement::doit -- one step of the FORALL loop (C06).
 * Executable::run re-enters doit() while it returns `this`, so the loop is a transition function and the contract is
 * its one-step relation:
 *  first entry: the table expression is evaluated exactly once; a null or empty table means zero iterations; otherwise
 *    the loop record starts at the first (ASC / AUTO) or last (DESC) position with step +1 / -1, the iterator variable
 *    becomes a pointer to THAT element, is type-protected and inherits the lock of the table, the table's symbol is
 *    locked (or a temporary table is moved into the record), and the former constraints are saved in the record;
 *  re-entry: the position advances by the step; outside [0, count) the loop is left and its record popped without
 *    running the body; inside, the iterator points to the element at the new position and the body runs once;
 *  after the body: continue / break / return as for the other loops. */
#define PAYLOAD_COLLECTION
#define HAVE_STD_STRING
#define CONTAINERS_MODEL
#define OWN_SYMBOL_MODEL
unsigned long g_at_n, g_at_idx; const void *g_at_vec;
#define VEC_AT_HOOK(vec, n) g_at_n++; g_at_idx = (n); g_at_vec = (vec);
void *g_new_rt; int g_new_rt_n;
#define RT_SIZE 48ul
#define G2C_NEW_HOOK(n) if ((n) == RT_SIZE) { g_new_rt_n++; }
#include "prelude.h"
#include "containers.h"
#include "ctx_api.h"
#define NID 0xffffffffu
_Static_assert(sizeof(struct FORALLStatement__RT) == RT_SIZE, "G2C_NEW_HOOK counts allocations of the loop record's size");
unsigned g_var_id, g_exp_id; struct Symbol g_var_sym, g_exp_sym; struct Context__MemorySlot g_var_slot;
struct Symbol *_ZN4bloc7Context9getSymbolEj(struct Context *this, unsigned id)
{ (void)this; __CPROVER_assert(id == g_var_id || (id == g_exp_id && g_exp_id != NID), "getSymbol: the iterator variable or the table's symbol"); return id == g_var_id ? &g_var_sym : &g_exp_sym; }
unsigned VCALL_VariableExpression_symbolId(const struct VariableExpression *e) { (void)e; return g_var_id; }
unsigned VCALL_Expression_symbolId(const struct Expression *e) { (void)e; return g_exp_id; }
struct Context__MemorySlot *_ZNSt6vectorIN4bloc7Context10MemorySlotESaIS2_EEixEm(struct vec_MemorySlot *this, unsigned long n)
{ (void)this; __CPROVER_assert(n == g_var_id, "the slot of the iterator variable"); return &g_var_slot; }

/* Value::Value(Value * v) (value.cpp:160, ASSUMED): a POINTER value, non-null exactly when v is; it owns nothing */
void _ZN4bloc5ValueC1EPS0_(struct Value *this, struct Value *v)
{ this->_type._major = POINTER; this->_type._minor = 0; this->_type._level = 0; this->_flags = v ? F_NOTNULL : 0; this->_value.p = v; }

#define SELF       ((const void *)this)
#define NEXT       (this->_base_Controller._base_Statement._next)
#define ORDER_DESC 2u
#define RTD        ((struct FORALLStatement__RT *)g_ctl_top_data)
#define REENTRY0   (g_ctl_depth > 0 && g_ctl_top_stmt == SELF)
#define WAS_REENTRY __CPROVER_old(g_ctl_depth > 0 && g_ctl_top_stmt == SELF)
#define SAFETY(s)  ((s)._safety || (s)._locked)
#define TBL        A1
#define TBL_SIZE   (g_eval_size[0])
#define TBLOBJ     (g_eval_ret[0])            /* the object the evaluation returned (TBL is its snapshot at that time) */
#define ITER       (&g_var_slot.value)
#define VEC_OF(x)  ((const void *)&((struct Collection *)(x)->_value.p)->v)
#define SIZE_OF(x) (((unsigned long *)&((struct Collection *)(x)->_value.p)->v)[1])
#define LEFT_WITHOUT_ENTERING (OK && RET == NEXT && g_ctl_pushes == 0 && g_ctl_pops == 0 && g_run_count == 0 && g_ctl_depth == __CPROVER_old(g_ctl_depth))
#define SYMBOLS_UNTOUCHED (g_var_sym._safety == __CPROVER_old(g_var_sym._safety) && g_var_sym._locked == __CPROVER_old(g_var_sym._locked) && g_exp_sym._locked == __CPROVER_old(g_exp_sym._locked) && g_exp_sym._safety == __CPROVER_old(g_exp_sym._safety))
#define ENTERABLE (g_eval_n == 1 && !V_ISNULL(TBL) && V_LEVEL(TBL) > 0 && TBL_SIZE > 0 && !__CPROVER_old(SAFETY(g_var_sym)) && (g_exp_id != NID || !V_LVALUE(TBL)))

const struct Statement *_ZNK4bloc15FORALLStatement4doitERNS_7ContextE(struct FORALLStatement *this, struct Context *ctx)
__CPROVER_requires(IS_FRESH(this, sizeof(*this)) && IS_FRESH(ctx, sizeof(*ctx)) && IS_FRESH(ctx->_root, sizeof(struct Context)))
__CPROVER_requires(IS_FRESH(this->_var, sizeof(struct VariableExpression)) && IS_FRESH(this->_exp, sizeof(struct Expression)) && IS_FRESH(this->_exec, sizeof(struct Executable)))
__CPROVER_requires(INPUT_STATE(g_ctl_depth, g_ctl_top_stmt, g_ctl_top_data, VALUE_FIELDS(&g_var_slot.value), g_var_id, g_exp_id, g_var_sym._safety, g_var_sym._locked, g_exp_sym._locked, g_exp_sym._safety, g_var_sym._id, VALUE_FIELDS(&g_tab_elem)))
__CPROVER_requires(this->_order <= ORDER_DESC && g_var_id != g_exp_id && g_var_id != NID && SET_EQ(g_var_sym._id, g_var_id) && VALID_TAG(ITER) && V_LVALUE(ITER) && VALID_TAG(&g_tab_elem))
__CPROVER_requires(*(unsigned char *)&g_var_sym._safety <= 1 && *(unsigned char *)&g_var_sym._locked <= 1 && *(unsigned char *)&g_exp_sym._locked <= 1 && *(unsigned char *)&g_exp_sym._safety <= 1)
__CPROVER_requires(NEXT != (const struct Statement *)this)
__CPROVER_requires(__exc == 0 && g_eval_n == 0 && __caught_n == 0 && GLOBALS_PINNED && g_ctl_depth >= 0 && g_ctl_depth < 1000 && g_ctl_pushes == 0 && g_ctl_pops == 0 && g_run_count == 0 && g_at_n == 0 && g_new_rt_n == 0)
/* on re-entry the top of the control stack is this loop's record as the previous step left it: a live table, a unit step, a position inside it */
__CPROVER_requires(IS_FRESH(g_ctl_top_data, sizeof(struct FORALLStatement__RT)))
__CPROVER_requires(IS_FRESH(RTD->target, sizeof(struct Value)))
__CPROVER_requires(IS_FRESH(RTD->target->_value.p, sizeof(struct Collection)))
__CPROVER_requires(REENTRY0 ==> ((RTD->step == 1 || RTD->step == -1) && RTD->index >= 0 && RTD->index <= 0xfffffffel && V_LEVEL(RTD->target) > 0 && !V_ISNULL(RTD->target) && VALID_TAG(RTD->target) && SIZE_OF(RTD->target) <= 0xfffffffful))
/* while the loop runs the iterator variable is a pointer (owns nothing) */
__CPROVER_requires(REENTRY0 ==> (V_IS(ITER, POINTER)))
/* before the loop the variable is not a pointer left behind by another loop (finalizeControl restores its type: stmt_forall.c) */
__CPROVER_requires(!REENTRY0 ==> !V_IS(ITER, POINTER))
__CPROVER_assigns(__CPROVER_object_whole(ctx))
PROP(C01) __CPROVER_ensures(ONLY_RUNTIME_ERROR)
/* ---- first entry ---- */
PROP(C06) __CPROVER_ensures(!WAS_REENTRY ==> (g_eval_n <= 1 && (g_eval_n == 1 ==> g_eval_node[0] == this->_exp)))
PROP(C06) __CPROVER_ensures(WAS_REENTRY ==> g_eval_n == 0)
/* a null or empty table: zero iterations, nothing is constrained */
PROP(C06) __CPROVER_ensures((!WAS_REENTRY && g_eval_n == 1 && (V_ISNULL(TBL) || (V_LEVEL(TBL) > 0 && TBL_SIZE == 0))) ==> (LEFT_WITHOUT_ENTERING && SYMBOLS_UNTOUCHED))
/* an iterator variable that a running loop already protects, or an owned table without a name: refused, nothing is constrained */
PROP(C06) __CPROVER_ensures((!WAS_REENTRY && g_eval_n == 1 && !V_ISNULL(TBL) && V_LEVEL(TBL) > 0 && TBL_SIZE > 0 && (__CPROVER_old(SAFETY(g_var_sym)) || (g_exp_id == NID && V_LVALUE(TBL)))) ==>
                            (THROWN_RT(EXC_RT_NOT_IMPLEMENTED) && g_ctl_pushes == 0 && g_run_count == 0 && SYMBOLS_UNTOUCHED))
/* entered: the record, the iterator and the constraints */
PROP(C06) __CPROVER_ensures((!WAS_REENTRY && ENTERABLE) ==> (g_ctl_pushes == 1 && g_new_rt_n == 1 && g_run_count == 1 && g_at_n == 1))
PROP(C06) __CPROVER_ensures((!WAS_REENTRY && ENTERABLE && g_ctl_pops == 0) ==> (g_ctl_top_stmt == SELF && g_ctl_depth == __CPROVER_old(g_ctl_depth) + 1 &&
                             RTD->step == (this->_order == ORDER_DESC ? -1 : 1) && RTD->index == (this->_order == ORDER_DESC ? (long)TBL_SIZE - 1 : 0) && g_at_idx == (unsigned long)RTD->index &&
                             RTD->it_safety_bak == 0 && RTD->it_locked_bak == 0 && RTD->it_type_bak._major == __CPROVER_old(V_MAJOR(ITER)) && RTD->it_type_bak._level == __CPROVER_old(V_LEVEL(ITER)) &&
                             RTD->ex_locked_bak == (g_exp_id != NID ? __CPROVER_old(g_exp_sym._locked) : 0)))
PROP(C06) __CPROVER_ensures((!WAS_REENTRY && ENTERABLE) ==> (g_var_sym._safety == 1 && g_var_sym._locked == (g_exp_id != NID ? __CPROVER_old(g_exp_sym._locked) : 0) && (g_exp_id != NID ==> g_exp_sym._locked == 1)))
/* the iterator is a pointer to the element, owned storage */
PROP(C06) __CPROVER_ensures((!WAS_REENTRY && ENTERABLE) ==> (V_IS(ITER, POINTER) && !V_ISNULL(ITER) && V_LVALUE(ITER) && ITER->_value.p == (void *)&g_tab_elem))
/* a named table is iterated in place; a temporary one is moved into the record */
PROP(C06) __CPROVER_ensures((!WAS_REENTRY && ENTERABLE && g_ctl_pops == 0 && g_exp_id != NID) ==> (RTD->target == TBLOBJ && g_at_vec == (const void *)&((struct Collection *)TBL->_value.i)->v))
PROP(C06) __CPROVER_ensures((!WAS_REENTRY && ENTERABLE && g_ctl_pops == 0 && g_exp_id == NID) ==> (RTD->target != TBLOBJ && RTD->target != 0 && V_ISNULL(TBLOBJ) && V_LEVEL(RTD->target) > 0 && !V_ISNULL(RTD->target) && V_LVALUE(RTD->target)))
/* ---- re-entry ---- */
#define NEW_INDEX (__CPROVER_old(RTD->index) + __CPROVER_old(RTD->step))
#define OLD_SIZE  __CPROVER_old(SIZE_OF(RTD->target))
PROP(C06) __CPROVER_ensures((WAS_REENTRY && (NEW_INDEX < 0 || (unsigned long)NEW_INDEX >= OLD_SIZE)) ==>
                            (OK && RET == NEXT && g_ctl_pops == 1 && g_ctl_popped_data == __CPROVER_old(g_ctl_top_data) && g_run_count == 0 && g_at_n == 0 && g_ctl_depth == __CPROVER_old(g_ctl_depth) - 1))
PROP(C06) __CPROVER_ensures((WAS_REENTRY && NEW_INDEX >= 0 && (unsigned long)NEW_INDEX < OLD_SIZE) ==>
                            (g_run_count == 1 && g_at_n == 1 && g_at_idx == (unsigned long)NEW_INDEX && g_at_vec == __CPROVER_old(VEC_OF(RTD->target)) && V_IS(ITER, POINTER) && !V_ISNULL(ITER) && V_LVALUE(ITER) && ITER->_value.p == (void *)&g_tab_elem))
PROP(C06) __CPROVER_ensures((WAS_REENTRY && NEW_INDEX >= 0 && (unsigned long)NEW_INDEX < OLD_SIZE && g_ctl_pops == 0) ==> (RTD->index == NEW_INDEX && RTD->step == __CPROVER_old(RTD->step)))
/* the symbols' constraints are not touched between two steps */
PROP(C06) __CPROVER_ensures(WAS_REENTRY ==> SYMBOLS_UNTOUCHED)
/* ---- after the body ---- */
PROP(C06, C08) __CPROVER_ensures((OK && g_run_count == 1 && !(ctx->_breakCondition || ctx->_continueCondition || ctx->_returnCondition || ctx->_root->_returnCondition)) ==> (RET == (const struct Statement *)this || g_ctl_pops == 1))
PROP(C06, C08) __CPROVER_ensures((OK && g_run_count == 1 && g_ctl_pops == 0) ==> RET == (const struct Statement *)this)
PROP(C06, C08) __CPROVER_ensures((OK && g_run_count == 1 && g_ctl_pops == 1) ==> (RET == NEXT && !ctx->_breakCondition))
PROP(C06, C08) __CPROVER_ensures(g_ctl_pops <= 1 && g_run_count <= 1)
;

#include FNS_C
