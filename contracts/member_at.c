/* contract of bloc::MemberATExpression::value  --  receiver.at(position) on tables, strings and bytes (C09) */
#define PAYLOAD_LITERAL
#define PAYLOAD_TABCHAR
#define PAYLOAD_COLLECTION
#define HAVE_STD_STRING
#define CONTAINERS_MODEL
#define ELEM_INV(c) (VALID_TAG(&g_tab_elem) && V_MAJOR(&g_tab_elem) == (c)->_type._major && V_MINOR(&g_tab_elem) == (c)->_type._minor && V_LEVEL(&g_tab_elem) + 1 == (c)->_type._level)
#define RECEIVER_TABLE_INV(c) ELEM_INV(c)
#include "prelude.h"
#include "containers.h"

#define RCV  A1
#define POS  A2
#define POS_INT (V_IS(POS, INTEGER) && !V_ISNULL(POS))
#define IN_RANGE (V_I(POS) >= 0 && (unsigned long)V_I(POS) < g_eval_size[0])
#define CONTAINER(v) (!V_ISNULL(v) && (V_LEVEL(v) > 0 || V_IS(v, LITERAL) || V_IS(v, TABCHAR)))

struct Value *_ZNK4bloc18MemberATExpression5valueERNS_7ContextE(struct MemberATExpression *this, struct Context *ctx)
__CPROVER_requires(IS_FRESH(this, sizeof(*this)) && IS_FRESH(ctx, sizeof(*ctx)) && IS_FRESH(this->_base_MemberExpression._exp, sizeof(struct Expression)))
__CPROVER_requires(INPUT_STATE(g_nargs, VALUE_FIELDS(&g_tab_elem)))
/* node invariant: the only constructor passes BTM_AT (= 2) to MemberExpression (member_at.h:38) */
__CPROVER_requires(this->_base_MemberExpression._builtin == 2)
__CPROVER_requires(g_nargs == 1 && ARGS_PINNED && __exc == 0 && g_eval_n == 0 && __caught_n == 0 && GLOBALS_PINNED && VALID_TAG(&g_tab_elem))
EVAL_ASSIGNS
ENS_ONLY_RT
PROP(C09) __CPROVER_ensures((g_eval_n == 2 && (V_ISNULL(RCV) || V_ISNULL(POS))) ==> THROWN_RT(EXC_RT_INDEX_RANGE_S))
/* every position outside [0, count) is an index error */
PROP(C09) __CPROVER_ensures((g_eval_n == 2 && CONTAINER(RCV) && POS_INT && !IN_RANGE) ==> THROWN_RT(EXC_RT_INDEX_RANGE_S))
/* tables: an in-range position yields the element itself; it is owned storage exactly when the table is */
PROP(C09, C05) __CPROVER_ensures((g_eval_n == 2 && V_LEVEL(RCV) > 0 && !V_ISNULL(RCV) && POS_INT && IN_RANGE) ==> (OK && RET == &g_tab_elem && V_LVALUE(RET) == V_LVALUE(RCV)))
/* C02: the element has the table's element type */
PROP(C02, C09) __CPROVER_ensures((OK && g_eval_n == 2 && V_LEVEL(RCV) > 0) ==> (V_MAJOR(RET) == V_MAJOR(RCV) && V_MINOR(RET) == V_MINOR(RCV) && V_LEVEL(RET) + 1 == V_LEVEL(RCV)))
/* strings and bytes: an in-range position yields the byte as an integer in 0..255 (a temporary) */
PROP(C09, C10) __CPROVER_ensures((g_eval_n == 2 && (V_IS(RCV, LITERAL) || V_IS(RCV, TABCHAR)) && !V_ISNULL(RCV) && POS_INT && IN_RANGE) ==> (OK && V_IS(RET, INTEGER) && !V_ISNULL(RET) && V_I(RET) >= 0 && V_I(RET) <= 255 && !V_LVALUE(RET)))
ENS_FRAME1
ENS_FRAME2
;

#include FNS_C
