/* contracts of bloc::RuntimeError::throwable and bloc::RuntimeError::findThrowable: the catchable set (C07).
 * The table RuntimeError::THROWABLES is read from the object file the repository's compiler produced
 * (tools/gdb_globals.py), not copied by hand; both loops run over that constant table and are unwound completely. */
#define HAVE_STD_STRING
#define CONTAINERS_MODEL
#define CONTAINERS_STRINGS_ONLY
#include "prelude_lite.h"
#include "containers.h"
#include "strid.h"

/* unsigned RuntimeError::throwable(EXC_RT no): index in the table of catchable built-in errors, 0 if `no` is not one */
unsigned _ZN4bloc12RuntimeError9throwableENS_6EXC_RTE(unsigned no)
__CPROVER_requires(__exc == 0)
__CPROVER_assigns()
__CPROVER_ensures(__exc == 0)
/* exactly OUT_OF_RANGE and DIVIDE_BY_ZERO are catchable built-in errors */
PROP(C07) __CPROVER_ensures((RET > 0) == (no == EXC_RT_OUT_OF_RANGE || no == EXC_RT_DIVIDE_BY_ZERO))
PROP(C07) __CPROVER_ensures(RET == (no == EXC_RT_OUT_OF_RANGE ? 1 : no == EXC_RT_DIVIDE_BY_ZERO ? 2 : 0))
/* error@1 names it: the table row carries the error's own keyword */
PROP(C07) __CPROVER_ensures(RET < 3 && (RET > 0 ==> _ZN4bloc12RuntimeError10THROWABLESE[RET].no == no))
PROP(C07) __CPROVER_ensures((no == EXC_RT_OUT_OF_RANGE ==> __cstr_id(_ZN4bloc12RuntimeError10THROWABLESE[RET].keyword) == STRID_OUT_OF_RANGE) && (no == EXC_RT_DIVIDE_BY_ZERO ==> __cstr_id(_ZN4bloc12RuntimeError10THROWABLESE[RET].keyword) == STRID_DIVIDE_BY_ZERO))
;

/* EXC_RT RuntimeError::findThrowable(const std::string& keyword): the error a handler / raise name stands for */
unsigned _ZN4bloc12RuntimeError13findThrowableERKNSt7__cxx1112basic_stringIcSt11char_traitsIcESaIcEEE(struct std_string *keyword)
__CPROVER_requires(IS_FRESH(keyword, sizeof(*keyword)))
__CPROVER_requires(__exc == 0)
__CPROVER_assigns()
__CPROVER_ensures(__exc == 0)
PROP(C07) __CPROVER_ensures(RET == (STR_ID(keyword) == STRID_OUT_OF_RANGE ? EXC_RT_OUT_OF_RANGE : STR_ID(keyword) == STRID_DIVIDE_BY_ZERO ? EXC_RT_DIVIDE_BY_ZERO : STR_ID(keyword) == STRID_EMPTY ? EXC_RT_NOERROR : EXC_RT_USER_S))
;

#include FNS_C
