/* contracts of bloc::FunctorManager::createOrReplace and bloc::FunctorManager::rollback (C11): a function definition
 * that fails to compile leaves every earlier declaration as it was.
 * The declaration list (std::vector<Entry>) is modelled by a ghost array of at most ENT_MAX entries: BOUNDED.
 * A FunctorPtr (std::shared_ptr<Functor>) keeps the Functor it points to in word[0]; a functor is identified by its
 * name (content identity, strid.h) and its number of parameters. */
#define HAVE_STD_STRING
#define CONTAINERS_MODEL
#define CONTAINERS_STRINGS_ONLY
#include "prelude.h"
#include "containers.h"
#include "strid.h"

#define ENT_MAX 3
struct FunctorManager__Entry g_decls[ENT_MAX + 2]; unsigned long g_decls_len;
struct Functor g_fun[ENT_MAX + 1];     /* g_fun[k] is what entry k points to; g_fun[ENT_MAX] is the saved (backed-up) definition */
int g_pop_n, g_emplace_n, g_reset_n;
#define FP(p) (*(struct Functor **)(p))
#define KEY_NAME(f) STR_ID(&(f)->name)
#define KEY_ARGS(f) SZ(&(f)->params)
/* ---- ASSUMED model of std::shared_ptr<Functor> ---- */
_Bool _ZNKSt12__shared_ptrIN4bloc7FunctorELN9__gnu_cxx12_Lock_policyE2EEcvbEv(const struct FunctorPtrBase *this) { return FP(this) != 0; }
struct Functor *_ZNKSt19__shared_ptr_accessIN4bloc7FunctorELN9__gnu_cxx12_Lock_policyE2ELb0ELb0EEptEv(const void *this)
{ __CPROVER_assert(FP(this) != 0, "std::shared_ptr::operator-> on an empty pointer is undefined"); return FP(this); }
void _ZNSt12__shared_ptrIN4bloc7FunctorELN9__gnu_cxx12_Lock_policyE2EE4swapERS4_(struct FunctorPtrBase *this, struct FunctorPtrBase *o) { struct Functor *t = FP(this); FP(this) = FP(o); FP(o) = t; }
void _ZNSt12__shared_ptrIN4bloc7FunctorELN9__gnu_cxx12_Lock_policyE2EE5resetEv(struct FunctorPtrBase *this) { FP(this) = 0; g_reset_n++; }
void _ZNSt10shared_ptrIN4bloc7FunctorEEC1ERKS2_(struct FunctorPtr *this, const struct FunctorPtr *o) { FP(this) = FP(o); }
void _ZNSt10shared_ptrIN4bloc7FunctorEEC1IS1_vEEPT_(struct FunctorPtr *this, struct Functor *p) { FP(this) = p; }
void _ZNSt10shared_ptrIN4bloc7FunctorEED1Ev(struct FunctorPtr *this) { (void)this; }
/* shared_ptr& operator=(shared_ptr&&): the pointer moves, the source is left empty */
struct FunctorPtr *_ZNSt10shared_ptrIN4bloc7FunctorEEaSEOS2_(struct FunctorPtr *this, struct FunctorPtr *o) { FP(this) = FP(o); FP(o) = 0; return this; }
/* ---- ASSUMED model of std::vector<Entry> over the ghost array ---- */
#ifndef G2C_HAVE_vent_iterator
struct vent_iterator { void *p; };
#define G2C_HAVE_vent_iterator 1
#endif
#define IT_PTR(it) (*(struct FunctorManager__Entry **)(it))
#define IN_RANGE(p) ((p) >= &g_decls[0] && (p) < &g_decls[g_decls_len])
struct vent_iterator _ZNSt6vectorIN4bloc14FunctorManager5EntryESaIS2_EE5beginEv(struct vec_Entry *this) { struct vent_iterator it; (void)this; IT_PTR(&it) = &g_decls[0]; return it; }
struct vent_iterator _ZNSt6vectorIN4bloc14FunctorManager5EntryESaIS2_EE3endEv(struct vec_Entry *this) { struct vent_iterator it; (void)this; IT_PTR(&it) = &g_decls[g_decls_len]; return it; }
_Bool _ZN9__gnu_cxxneIPN4bloc14FunctorManager5EntryESt6vectorIS3_SaIS3_EEEEbRKNS_17__normal_iteratorIT_T0_EESD_(const struct vent_iterator *a, const struct vent_iterator *b) { return IT_PTR(a) != IT_PTR(b); }
struct FunctorManager__Entry *_ZNK9__gnu_cxx17__normal_iteratorIPN4bloc14FunctorManager5EntryESt6vectorIS3_SaIS3_EEEdeEv(const struct vent_iterator *this)
{ __CPROVER_assert(IN_RANGE(IT_PTR(this)), "std::vector iterator dereferenced inside [begin, end)"); return IT_PTR(this); }
struct vent_iterator *_ZN9__gnu_cxx17__normal_iteratorIPN4bloc14FunctorManager5EntryESt6vectorIS3_SaIS3_EEEppEv(struct vent_iterator *this)
{ __CPROVER_assert(IN_RANGE(IT_PTR(this)), "std::vector iterator incremented inside [begin, end)"); IT_PTR(this) = IT_PTR(this) + 1; return this; }
_Bool _ZNKSt6vectorIN4bloc14FunctorManager5EntryESaIS2_EE5emptyEv(const struct vec_Entry *this) { (void)this; return g_decls_len == 0; }
struct FunctorManager__Entry *_ZNSt6vectorIN4bloc14FunctorManager5EntryESaIS2_EE4backEv(struct vec_Entry *this)
{ (void)this; __CPROVER_assert(g_decls_len > 0, "std::vector::back on an empty vector is undefined"); return &g_decls[g_decls_len - 1]; }
void _ZNSt6vectorIN4bloc14FunctorManager5EntryESaIS2_EE8pop_backEv(struct vec_Entry *this)
{ (void)this; __CPROVER_assert(g_decls_len > 0, "std::vector::pop_back on an empty vector is undefined"); g_decls_len--; g_pop_n++; }
/* emplace_back(Entry&&): Entry's move constructor takes over the functor (and the empty cache) */
void _ZNSt6vectorIN4bloc14FunctorManager5EntryESaIS2_EE12emplace_backIJS2_EEEvDpOT_(struct vec_Entry *this, struct FunctorManager__Entry *e)
{ (void)this; __CPROVER_assert(g_decls_len <= ENT_MAX, "model: room for one more declaration"); FP(&g_decls[g_decls_len].functor) = FP(&e->functor); FP(&e->functor) = 0; g_decls_len++; g_emplace_n++; }
unsigned long _ZNKSt6vectorIN4bloc6SymbolESaIS1_EE4sizeEv(const struct vec_Symbol *this) { return SZ(this); }
void _ZNSt6vectorIN4bloc6SymbolESaIS1_EEC1Ev(struct vec_Symbol *this) { SZ(this) = 0; }
#ifndef G2C_HAVE_flist_iterator
struct flist_iterator { void *p; };
#endif
#ifndef G2C_HAVE_vent_iterator
struct vent_iterator { void *p; };
#endif
/* the context cache of the temporary entry built by createOrReplace is empty */
void _ZNSt12forward_listIPN4bloc7ContextESaIS2_EEC1Ev(struct flist_ContextPtr *this) { (void)this; }
void _ZNSt12forward_listIPN4bloc7ContextESaIS2_EED1Ev(struct flist_ContextPtr *this) { (void)this; }
void _ZNSt12forward_listIPN4bloc7ContextESaIS2_EE5clearEv(struct flist_ContextPtr *this) { (void)this; }
struct flist_iterator _ZNSt12forward_listIPN4bloc7ContextESaIS2_EE5beginEv(struct flist_ContextPtr *this) { struct flist_iterator it; (void)this; *(void **)&it = 0; return it; }
struct flist_iterator _ZNSt12forward_listIPN4bloc7ContextESaIS2_EE3endEv(struct flist_ContextPtr *this) { struct flist_iterator it; (void)this; *(void **)&it = 0; return it; }
_Bool _ZStneRKSt18_Fwd_list_iteratorIPN4bloc7ContextEES5_(const struct flist_iterator *a, const struct flist_iterator *b) { return *(void *const *)a != *(void *const *)b; }

#define ENT_FUN(k) FP(&g_decls[k].functor)
#define BACKED FP(&this->_backed)
#define OLD (&g_fun[ENT_MAX])
#define SAME_KEY(f, g) (KEY_NAME(f) == KEY_NAME(g) && KEY_ARGS(f) == KEY_ARGS(g))
#define FUN_INPUT(k) KEY_NAME(&g_fun[k]), KEY_ARGS(&g_fun[k])
#define ENTRIES_PINNED (SET_EQ(ENT_FUN(0), &g_fun[0]) && SET_EQ(ENT_FUN(1), &g_fun[1]) && SET_EQ(ENT_FUN(2), &g_fun[2]))
/* declarations are unique by (name, number of parameters): createOrReplace replaces instead of adding */
#define DISTINCT(len) (((len) < 2 || !SAME_KEY(&g_fun[0], &g_fun[1])) && ((len) < 3 || (!SAME_KEY(&g_fun[0], &g_fun[2]) && !SAME_KEY(&g_fun[1], &g_fun[2]))))
#define UNCHANGED(k) (ENT_FUN(k) == &g_fun[k])

#ifdef JOB_ROLLBACK
#define HOLDS_NEW(k) ((k) < g_decls_len && SAME_KEY(&g_fun[k], OLD))       /* entry k is the one createOrReplace handed out */
void _ZN4bloc14FunctorManager8rollbackEv(struct FunctorManager *this)
__CPROVER_requires(IS_FRESH(this, sizeof(*this)))
__CPROVER_requires(INPUT_STATE(g_decls_len, FUN_INPUT(0), FUN_INPUT(1), FUN_INPUT(2), FUN_INPUT(3)))
__CPROVER_requires(ENTRIES_PINNED && SET_EQ(BACKED, (__g2c_nondet_bool() ? OLD : 0)))
__CPROVER_requires(g_decls_len <= ENT_MAX && DISTINCT(g_decls_len))
__CPROVER_requires(__exc == 0 && __caught_n == 0 && g_pop_n == 0 && g_emplace_n == 0 && GLOBALS_PINNED)
__CPROVER_assigns(__CPROVER_object_whole(this))
PROP(C01, C11) __CPROVER_ensures(OK)
/* a replaced definition is put back in its own entry, wherever that entry is, and nothing else moves */
PROP(C01, C11, C15) __CPROVER_ensures((__CPROVER_old(BACKED) != 0 && HOLDS_NEW(0)) ==> (ENT_FUN(0) == OLD && UNCHANGED(1) && UNCHANGED(2)))
PROP(C01, C11, C15) __CPROVER_ensures((__CPROVER_old(BACKED) != 0 && HOLDS_NEW(1)) ==> (ENT_FUN(1) == OLD && UNCHANGED(0) && UNCHANGED(2)))
PROP(C01, C11, C15) __CPROVER_ensures((__CPROVER_old(BACKED) != 0 && HOLDS_NEW(2)) ==> (ENT_FUN(2) == OLD && UNCHANGED(0) && UNCHANGED(1)))
PROP(C01, C11, C15) __CPROVER_ensures(__CPROVER_old(BACKED) != 0 ==> (g_decls_len == __CPROVER_old(g_decls_len) && g_pop_n == 0))
/* a definition that was new is removed again, and only it */
PROP(C01, C11, C15) __CPROVER_ensures(__CPROVER_old(BACKED) == 0 ==> (g_decls_len == (__CPROVER_old(g_decls_len) > 0 ? __CPROVER_old(g_decls_len) - 1 : 0) && UNCHANGED(0) && UNCHANGED(1) && UNCHANGED(2)))
;
#endif

#ifdef JOB_CREATEORREPLACE
#define FOUND(k) ((k) < __CPROVER_old(g_decls_len) && KEY_NAME(&g_fun[k]) == STR_ID(name) && KEY_ARGS(&g_fun[k]) == SZ(params))
struct FunctorManager__Entry *_ZN4bloc14FunctorManager15createOrReplaceERKNSt7__cxx1112basic_stringIcSt11char_traitsIcESaIcEEERKSt6vectorINS_6SymbolESaISA_EE(struct FunctorManager *this, struct std_string *name, struct vec_Symbol *params)
__CPROVER_requires(IS_FRESH(this, sizeof(*this)) && IS_FRESH(name, sizeof(*name)) && IS_FRESH(params, sizeof(*params)))
__CPROVER_requires(INPUT_STATE(g_decls_len, FUN_INPUT(0), FUN_INPUT(1), FUN_INPUT(2), FUN_INPUT(3)))
__CPROVER_requires(ENTRIES_PINNED && SET_EQ(BACKED, (__g2c_nondet_bool() ? OLD : 0)))
__CPROVER_requires(g_decls_len <= ENT_MAX && DISTINCT(g_decls_len))
__CPROVER_requires(__exc == 0 && __caught_n == 0 && g_pop_n == 0 && g_emplace_n == 0 && GLOBALS_PINNED)
__CPROVER_assigns(__CPROVER_object_whole(this))
PROP(C01, C11) __CPROVER_ensures(OK)
/* an existing declaration of that name and arity: its entry is handed out empty and its definition is saved */
PROP(C01, C11, C15) __CPROVER_ensures(FOUND(0) ==> (RET == &g_decls[0] && ENT_FUN(0) == 0 && BACKED == &g_fun[0] && UNCHANGED(1) && UNCHANGED(2) && g_decls_len == __CPROVER_old(g_decls_len)))
PROP(C01, C11, C15) __CPROVER_ensures(FOUND(1) ==> (RET == &g_decls[1] && ENT_FUN(1) == 0 && BACKED == &g_fun[1] && UNCHANGED(0) && UNCHANGED(2) && g_decls_len == __CPROVER_old(g_decls_len)))
PROP(C01, C11, C15) __CPROVER_ensures(FOUND(2) ==> (RET == &g_decls[2] && ENT_FUN(2) == 0 && BACKED == &g_fun[2] && UNCHANGED(0) && UNCHANGED(1) && g_decls_len == __CPROVER_old(g_decls_len)))
/* otherwise a new entry is appended, nothing is saved, the others are not touched */
PROP(C01, C11, C15) __CPROVER_ensures((!FOUND(0) && !FOUND(1) && !FOUND(2)) ==> (g_decls_len == __CPROVER_old(g_decls_len) + 1 && RET == &g_decls[__CPROVER_old(g_decls_len)] && FP(&RET->functor) != 0 && BACKED == 0 &&
                             (__CPROVER_old(g_decls_len) > 0 ==> UNCHANGED(0)) && (__CPROVER_old(g_decls_len) > 1 ==> UNCHANGED(1)) && (__CPROVER_old(g_decls_len) > 2 ==> UNCHANGED(2))))
;
#endif

#include FNS_C
