/* contract of bloc::Context::registerSymbol(const std::string&, const Type&) (C02, C11): how the compiler changes the
 * type of a symbol.  An existing symbol is retyped only after its old state has been backed up (exactly once, so that
 * parsingEnd can put it back: job ctx_parsingEnd); a locked symbol and a change the type constraint forbids are refused
 * with a ParseError and change nothing; the same type changes nothing; a new name gets a new slot with the next id,
 * type-protected exactly when the name starts with '$'. */
#define HAVE_STD_STRING
#define CONTAINERS_MODEL
#define CONTAINERS_STRINGS_ONLY
#include "prelude.h"
#include "containers.h"
const char *_ZN4bloc10ParseError11PARSE_ERRORE[64];   /* message formats: not read by any clause */
struct Symbol g_sym, g_new_sym, g_backup; struct Context__MemorySlot g_new_slot; _Bool g_found; unsigned g_check_ret; unsigned long g_pool_len; char g_front;
int g_backup_n, g_upgrade_n, g_push_n, g_symctor_n; unsigned g_new_id; struct Type g_new_type;
/* Symbol * Context::findSymbol(const std::string&) */
struct Symbol *_ZN4bloc7Context10findSymbolERKNSt7__cxx1112basic_stringIcSt11char_traitsIcESaIcEEE(struct Context *this, const struct std_string *name) { (void)this; (void)name; return g_found ? &g_sym : 0; }
unsigned _ZNK4bloc6Symbol12check_safetyERKNS_4TypeE(const struct Symbol *this, const struct Type *t) { (void)this; (void)t; return g_check_ret; }   /* contract: symbol.c */
void _ZN4bloc6Symbol7upgradeERKNS_4TypeE(struct Symbol *this, const struct Type *t) { g_upgrade_n++; this->_base_Type._major = t->_major; this->_base_Type._minor = t->_minor; this->_base_Type._level = t->_level; }   /* contract: symbol.c */
/* std::vector<Symbol>::push_back(const Symbol&) on the backup list: the copy is recorded */
void _ZNSt6vectorIN4bloc6SymbolESaIS1_EE9push_backERKS1_(void *this, const struct Symbol *s)
{ (void)this; g_backup_n++; g_backup._base_Type._major = s->_base_Type._major; g_backup._base_Type._minor = s->_base_Type._minor; g_backup._base_Type._level = s->_base_Type._level; g_backup._id = s->_id; g_backup._safety = s->_safety; g_backup._locked = s->_locked; }
/* the variable storage: size(), push_back(MemorySlot&&), back() */
unsigned long _ZNKSt6vectorIN4bloc7Context10MemorySlotESaIS2_EE4sizeEv(const void *this) { (void)this; return g_pool_len; }
void _ZNSt6vectorIN4bloc7Context10MemorySlotESaIS2_EE9push_backEOS2_(void *this, struct Context__MemorySlot *s) { (void)this; (void)s; g_push_n++; g_pool_len++; }
struct Context__MemorySlot *_ZNSt6vectorIN4bloc7Context10MemorySlotESaIS2_EE4backEv(void *this) { (void)this; __CPROVER_assert(g_pool_len > 0, "std::vector::back() on a non-empty vector"); return &g_new_slot; }
/* Symbol(unsigned id, const std::string& name, const Type& type) and MemorySlot(Symbol&&): the new symbol is recorded */
void _ZN4bloc6SymbolC1EjRKNSt7__cxx1112basic_stringIcSt11char_traitsIcESaIcEEERKNS_4TypeE(struct Symbol *this, unsigned id, const struct std_string *name, const struct Type *t)
{ (void)this; (void)name; g_symctor_n++; g_new_id = id; g_new_type._major = t->_major; g_new_type._minor = t->_minor; g_new_type._level = t->_level; }
void _ZN4bloc7Context10MemorySlotC1EONS_6SymbolE(struct Context__MemorySlot *this, struct Symbol *s) { (void)this; (void)s; }
void _ZN4bloc7Context10MemorySlotD1Ev(struct Context__MemorySlot *this) { (void)this; }
void _ZN4bloc6SymbolD1Ev(struct Symbol *this) { (void)this; }
void _ZN4bloc6SymbolD2Ev(struct Symbol *this) { (void)this; }
/* only used to word the error message */
struct TupleDecl__Decl g_decl_dummy;
const struct TupleDecl__Decl *VCALL_Symbol_tuple_decl(const struct Symbol *s) { (void)s; return &g_decl_dummy; }
void _ZNSt9exceptionC2Ev(void *this) { (void)this; }
void _ZNSt9exceptionD2Ev(void *this) { (void)this; }
void _ZNSt10shared_ptrIN4bloc5TokenEEC1Ev(void *this) { *(void **)this = 0; }
/* char& std::string::front() */
char g_front_c;
const char *_ZNKSt7__cxx1112basic_stringIcSt11char_traitsIcESaIcEE5frontEv(const struct std_string *this) { (void)this; g_front_c = g_front; return &g_front_c; }

#define SYM_TYPE_IS(s, t) ((s)._base_Type._major == (t)->_major && (s)._base_Type._minor == (t)->_minor && (s)._base_Type._level == (t)->_level)
#define SYM_UNCHANGED (g_sym._base_Type._major == __CPROVER_old(g_sym._base_Type._major) && g_sym._base_Type._minor == __CPROVER_old(g_sym._base_Type._minor) && g_sym._base_Type._level == __CPROVER_old(g_sym._base_Type._level) && \
                       g_sym._safety == __CPROVER_old(g_sym._safety) && g_sym._locked == __CPROVER_old(g_sym._locked) && g_sym._id == __CPROVER_old(g_sym._id))
#define SAFETY(s) ((s)._safety || (s)._locked)
struct Symbol *_ZN4bloc7Context14registerSymbolERKNSt7__cxx1112basic_stringIcSt11char_traitsIcESaIcEEERKNS_4TypeE(struct Context *this, const struct std_string *name, const struct Type *type)
__CPROVER_requires(IS_FRESH(this, sizeof(*this)) && IS_FRESH(name, sizeof(*name)) && IS_FRESH(type, sizeof(*type)))
__CPROVER_requires(INPUT_STATE(g_found, g_check_ret, g_pool_len, g_front, g_sym._base_Type._major, g_sym._base_Type._minor, g_sym._base_Type._level, g_sym._safety, g_sym._locked, g_sym._id))
__CPROVER_requires(*(unsigned char *)&g_sym._safety <= 1 && *(unsigned char *)&g_sym._locked <= 1 && g_check_ret <= 2 && g_pool_len < 1000000 && SET_EQ(g_new_slot.symbol, &g_new_sym) && !g_new_sym._safety)
__CPROVER_requires(__exc == 0 && __caught_n == 0 && g_backup_n == 0 && g_upgrade_n == 0 && g_push_n == 0 && g_symctor_n == 0 && GLOBALS_PINNED)
__CPROVER_assigns()
/* only a ParseError leaves */
PROP(C01) __CPROVER_ensures(OK || (__exc == 1 && __exc_type == G2C_EXC_ParseError))
/* refused: locked, or a type change that a type-protected symbol does not allow; nothing has changed and nothing was backed up */
PROP(C02, C11) __CPROVER_ensures((g_found && __CPROVER_old(g_sym._locked)) ==> (!OK && SYM_UNCHANGED && g_backup_n == 0 && g_upgrade_n == 0))
PROP(C02, C11) __CPROVER_ensures((g_found && !__CPROVER_old(g_sym._locked) && !__CPROVER_old(SYM_TYPE_IS(g_sym, type)) && __CPROVER_old(g_sym._safety) && g_check_ret == 0) ==> (!OK && SYM_UNCHANGED && g_backup_n == 0 && g_upgrade_n == 0))
PROP(C02, C11) __CPROVER_ensures(!OK ==> (SYM_UNCHANGED && g_backup_n == 0 && g_push_n == 0))
/* same type (or the constraint says "equal"): the symbol as it is */
PROP(C02, C11) __CPROVER_ensures((OK && g_found && (__CPROVER_old(SYM_TYPE_IS(g_sym, type)) || (__CPROVER_old(g_sym._safety) && g_check_ret == 1))) ==> (RET == &g_sym && SYM_UNCHANGED && g_backup_n == 0 && g_upgrade_n == 0))
/* retyped: the old state is backed up exactly once BEFORE the change, and the symbol then has the new type, same id and constraints */
PROP(C02, C11) __CPROVER_ensures((OK && g_found && !__CPROVER_old(SYM_TYPE_IS(g_sym, type)) && !(__CPROVER_old(g_sym._safety) && g_check_ret == 1)) ==>
                                 (RET == &g_sym && g_backup_n == 1 && g_upgrade_n == 1 && SYM_TYPE_IS(g_sym, type) && g_sym._id == __CPROVER_old(g_sym._id) && g_sym._safety == __CPROVER_old(g_sym._safety) && g_sym._locked == __CPROVER_old(g_sym._locked) &&
                                  g_backup._base_Type._major == __CPROVER_old(g_sym._base_Type._major) && g_backup._base_Type._minor == __CPROVER_old(g_sym._base_Type._minor) && g_backup._base_Type._level == __CPROVER_old(g_sym._base_Type._level) && g_backup._id == __CPROVER_old(g_sym._id)))
/* an existing symbol never gets a new slot */
PROP(C02, C11) __CPROVER_ensures(g_found ==> (g_push_n == 0 && g_symctor_n == 0))
/* a new name: one new slot with the next id and the given type, type-protected exactly for a '$' name; nothing is backed up */
PROP(C02, C11) __CPROVER_ensures(!g_found ==> (OK && g_push_n == 1 && g_symctor_n == 1 && g_new_id == __CPROVER_old(g_pool_len) && SYM_TYPE_IS((*(struct Symbol *)&g_new_type), type) && RET == &g_new_sym && g_new_sym._safety == (g_front == '$') && g_backup_n == 0 && g_upgrade_n == 0))
;

#include FNS_C
