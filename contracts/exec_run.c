/* contract of bloc::Executable::run (C07): whatever a statement throws, Context::onRuntimeError runs exactly once
 * before the exception leaves, nothing else runs after the failing statement, and the same exception propagates.
 * The statement list is modelled by a ghost array of at most 2 statements and a run executes at most EXEC_MAX
 * statement steps: the result is BOUNDED. */
#include "prelude.h"
#define STMT_MAX 2
#define EXEC_MAX 3
const struct Statement *g_stmts[STMT_MAX + 1]; int g_stmts_len;
struct Statement g_stmt_obj[EXEC_MAX + 1];
int g_exec_n; const struct Statement *g_exec_arg[EXEC_MAX + 1]; const struct Statement *g_exec_next[EXEC_MAX + 1]; int g_throw_at; const void *g_throw_type; void *g_throw_obj;
_Bool g_stop_after[EXEC_MAX + 1];
int g_onerr_n; int g_onerr_exec_n; int g_onerr_caught_n;
/* ---- ASSUMED model of std::list<const Statement*> iteration over the ghost array ---- */
struct list_citer_stmts _ZNKSt7__cxx114listIPKN4bloc9StatementESaIS4_EE5beginEv(const struct std_list_StatementPtr *this)
{ struct list_citer_stmts it; *(void **)&it = (void *)&g_stmts[0]; (void)this; return it; }
struct list_citer_stmts _ZNKSt7__cxx114listIPKN4bloc9StatementESaIS4_EE3endEv(const struct std_list_StatementPtr *this)
{ struct list_citer_stmts it; *(void **)&it = (void *)&g_stmts[g_stmts_len]; (void)this; return it; }
_Bool _ZStneRKSt20_List_const_iteratorIPKN4bloc9StatementEES6_(const struct list_citer_stmts *a, const struct list_citer_stmts *b)
{ return *(void *const *)a != *(void *const *)b; }
const struct Statement *const *_ZNKSt20_List_const_iteratorIPKN4bloc9StatementEEdeEv(const struct list_citer_stmts *this)
{
  const struct Statement *const *p = *(const struct Statement *const *const *)this;
  __CPROVER_assert(p >= &g_stmts[0] && p < &g_stmts[g_stmts_len], "std::list iterator dereferenced inside [begin, end)");
  return p;
}
struct list_citer_stmts *_ZNSt20_List_const_iteratorIPKN4bloc9StatementEEppEv(struct list_citer_stmts *this)
{
  const struct Statement **p = *(const struct Statement ***)this;
  __CPROVER_assert(p >= &g_stmts[0] && p < &g_stmts[g_stmts_len], "std::list iterator incremented inside [begin, end)");
  *(const struct Statement ***)this = p + 1;
  return this;
}
void _ZN4bloc3DBGEiPKcz(int level, const char *fmt, ...) { (void)level; (void)fmt; }
/* const Statement * Statement::execute(Context&) const: one statement step; sets any stop condition, may throw anything */
const struct Statement *_ZNK4bloc9Statement7executeERNS_7ContextE(const struct Statement *this, struct Context *ctx)
{
  __CPROVER_assert(__exc == 0, "Statement::execute entered with no exception in flight");
  __CPROVER_assume(g_exec_n < EXEC_MAX);            /* BOUND: at most EXEC_MAX statement steps per run */
  int k = g_exec_n++;
  g_exec_arg[k] = this;
  if (g_stop_after[k]) ctx->_breakCondition = 1;
  if (k == g_throw_at) { g_throw_obj = __CPROVER_allocate(64, 0); __cxa_throw(g_throw_obj, g_throw_type, 0); return 0; }
  return g_exec_next[k];
}
/* void Context::onRuntimeError(): its own contract is job ctx_onRuntimeError */
void _ZN4bloc7Context14onRuntimeErrorEv(struct Context *this)
{ (void)this; g_onerr_n++; g_onerr_exec_n = g_exec_n; g_onerr_caught_n = __caught_n; }

#define THROWS (g_throw_at >= 0 && g_throw_at < g_exec_n)
int _ZN4bloc10Executable3runERNS_7ContextERKNSt7__cxx114listIPKNS_9StatementESaIS7_EEE(struct Context *ctx, const struct std_list_StatementPtr *statements)
__CPROVER_requires(IS_FRESH(ctx, sizeof(*ctx)) && IS_FRESH(ctx->_root, sizeof(struct Context)) && IS_FRESH(statements, sizeof(*statements)))
__CPROVER_requires(INPUT_STATE(g_stmts_len, g_throw_at, g_throw_type, g_stop_after[0], g_stop_after[1], g_stop_after[2]))
__CPROVER_requires(SET_EQ(g_stmts[0], &g_stmt_obj[0]) && SET_EQ(g_stmts[1], &g_stmt_obj[1]) && SET_EQ(g_exec_next[0], (__g2c_nondet_bool() ? &g_stmt_obj[2] : 0)) && SET_EQ(g_exec_next[1], (__g2c_nondet_bool() ? &g_stmt_obj[3] : 0)) && SET_EQ(g_exec_next[2], 0))
__CPROVER_requires(g_stmts_len >= 0 && g_stmts_len <= STMT_MAX)
__CPROVER_requires(__exc == 0 && __caught_n == 0 && g_exec_n == 0 && g_onerr_n == 0 && GLOBALS_PINNED)
__CPROVER_assigns(__CPROVER_object_whole(ctx))
/* a failing statement: onRuntimeError runs once, while the exception is being handled, straight after the failing step; the same exception leaves */
PROP(C07) __CPROVER_ensures(THROWS ==> (!OK && __exc_obj == g_throw_obj && __exc_type == g_throw_type && g_onerr_n == 1 && g_onerr_exec_n == g_throw_at + 1 && g_exec_n == g_throw_at + 1 && g_onerr_caught_n == 1))
/* no failure: no clean-up of loops that are legitimately open */
PROP(C07) __CPROVER_ensures(!THROWS ==> (OK && RET == 0 && g_onerr_n == 0))
PROP(C07) __CPROVER_ensures(__caught_n == 0)
/* a return already requested: nothing runs */
PROP(C06, C07) __CPROVER_ensures(__CPROVER_old(ctx->_returnCondition) ==> g_exec_n == 0)
/* statements run in list order, each chain to its end; a stop condition ends the run after the current chain */
PROP(C06) __CPROVER_ensures((g_exec_n >= 1 ==> g_exec_arg[0] == g_stmts[0]) && (g_exec_n >= 2 ==> g_exec_arg[1] == (g_exec_next[0] ? g_exec_next[0] : g_stmts[1])))
;

#include FNS_C
