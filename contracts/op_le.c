/* contract of bloc::OpLEExpression::value  (relational operator <=) */
#define PAYLOAD_LITERAL
#include "prelude.h"

struct Value *_ZNK4bloc14OpLEExpression5valueERNS_7ContextE(struct OpLEExpression *this, struct Context *ctx)
EVAL_PRE_BINOP
EVAL_ASSIGNS
ENS_ONLY_RT
ENS_EVAL_BOTH
/* C04: a relational operator returns null when either operand is null, whatever tag the null carries */
PROP(C04) __CPROVER_ensures((g_eval_n == 2 && (V_ISNULL(A1) || V_ISNULL(A2))) ==> (OK && V_IS(RET, BOOLEAN) && V_ISNULL(RET)))
ENS_TYPE(BOOLEAN)
ENS_FRAME1
ENS_FRAME2
ENS_OWN2
;

#include FNS_C
