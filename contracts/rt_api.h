/* rt_api.h -- contracts of the two RuntimeError table lookups, as callers see them (each proved in its own job) */
#ifndef RT_API_H
#define RT_API_H
/* EXC_RT RuntimeError::findThrowable(const std::string&): proved in job rt_findThrowable */
unsigned _ZN4bloc12RuntimeError13findThrowableERKNSt7__cxx1112basic_stringIcSt11char_traitsIcESaIcEEE(const struct std_string *keyword)
__CPROVER_requires(__exc == 0)
__CPROVER_assigns()
__CPROVER_ensures(__exc == 0)
__CPROVER_ensures(RET == (STR_ID(keyword) == STRID_OUT_OF_RANGE ? EXC_RT_OUT_OF_RANGE : STR_ID(keyword) == STRID_DIVIDE_BY_ZERO ? EXC_RT_DIVIDE_BY_ZERO : STR_ID(keyword) == STRID_EMPTY ? EXC_RT_NOERROR : EXC_RT_USER_S))
;
/* unsigned RuntimeError::throwable(EXC_RT): proved in job rt_throwable */
unsigned _ZN4bloc12RuntimeError9throwableENS_6EXC_RTE(unsigned no)
__CPROVER_requires(__exc == 0)
__CPROVER_assigns()
__CPROVER_ensures(__exc == 0)
__CPROVER_ensures(RET == ((no) == EXC_RT_OUT_OF_RANGE ? 1 : (no) == EXC_RT_DIVIDE_BY_ZERO ? 2 : 0))
;

#endif
