/* contract of utf8helper::UTF8String::Insert(size_t pos, const storage_type& data, Transform) (modules/utf8) (C18, C01):
 * the code points of `data` AS THEY WERE WHEN THE CALL WAS MADE are inserted one by one, in order, each right after
 * the ones already accepted -- also when `data` is the string's own store (u.insert(p, u)).  Inserting into the store
 * moves its elements and may reallocate it: no iterator or reference into the store may be used across an insertion.
 * The single-code-point Insert is a stub (it decodes and inserts one code point, or refuses it); the store and `data`
 * are ghost arrays of at most CP_MAX code points with the loops unwound: BOUNDED. */
#include "prelude_lite.h"
#define CP_MAX 4
#define D_MAX 2
unsigned g_cp[CP_MAX + 1], g_data[D_MAX + 1], g_copy[D_MAX + 1]; unsigned long g_len, g_dlen, g_copy_len;
struct utf8helper__UTF8String *g_self; const struct vec_uint *g_data_vec; _Bool g_alias;
int g_store_iterating, g_invalidated, g_copies;
/* the single-code-point Insert: arguments recorded */
int g_ins_n; unsigned g_ins_u[D_MAX + 1]; unsigned long g_ins_pos[D_MAX + 1]; _Bool g_ins_ok[D_MAX + 1];
#ifndef G2C_HAVE_vuint_citerator
struct vuint_citerator { void *p; };
#endif
#ifndef G2C_HAVE_vuint_iterator
struct vuint_iterator { void *p; };
#endif
#define IT(p) (*(unsigned **)(p))
#define IS_STORE(v) ((const void *)(v) == (const void *)&g_self->store)
#define IN_STORE(p) __CPROVER_same_object((p), g_cp)
/* which ghost array a vector object stands for: the store, the argument (the store again when they alias), or the local copy */
static unsigned *arr_of(const void *v) { return IS_STORE(v) ? g_cp : ((const void *)v == (const void *)g_data_vec ? g_data : g_copy); }
static unsigned long len_of(const void *v) { return IS_STORE(v) ? g_len : ((const void *)v == (const void *)g_data_vec ? g_dlen : g_copy_len); }
/* ---- ASSUMED model of std::vector<codepoint> ---- */
unsigned long _ZNKSt6vectorIjSaIjEE4sizeEv(const struct vec_uint *this) { return len_of(this); }
/* vector(const vector&): a private copy of the contents as they are now */
void _ZNSt6vectorIjSaIjEEC1ERKS1_(struct vec_uint *this, const struct vec_uint *o)
{ (void)this; g_copies++; g_copy_len = len_of(o); __CPROVER_assert(g_copy_len <= D_MAX, "model: the copied vector fits"); g_copy[0] = arr_of(o)[0]; g_copy[1] = arr_of(o)[1]; }
void _ZNSt6vectorIjSaIjEED1Ev(struct vec_uint *this) { (void)this; }
struct vuint_citerator _ZNKSt6vectorIjSaIjEE5beginEv(const struct vec_uint *this) { struct vuint_citerator it; if (IS_STORE(this)) g_store_iterating = 1; IT(&it) = arr_of(this); return it; }
struct vuint_citerator _ZNKSt6vectorIjSaIjEE3endEv(const struct vec_uint *this) { struct vuint_citerator it; IT(&it) = arr_of(this) + len_of(this); return it; }
struct vuint_iterator _ZNSt6vectorIjSaIjEE5beginEv(struct vec_uint *this) { struct vuint_iterator it; if (IS_STORE(this)) g_store_iterating = 1; IT(&it) = arr_of(this); return it; }
struct vuint_iterator _ZNSt6vectorIjSaIjEE3endEv(struct vec_uint *this) { struct vuint_iterator it; IT(&it) = arr_of(this) + len_of(this); return it; }
#define USE_OK(p) __CPROVER_assert(!(IN_STORE(p) && g_invalidated), "an iterator into the store is used after an insertion moved / reallocated it (undefined behaviour)")
struct vuint_citerator *_ZN9__gnu_cxx17__normal_iteratorIPKjSt6vectorIjSaIjEEEppEv(struct vuint_citerator *this) { USE_OK(IT(this)); IT(this) = IT(this) + 1; return this; }
struct vuint_iterator *_ZN9__gnu_cxx17__normal_iteratorIPjSt6vectorIjSaIjEEEppEv(struct vuint_iterator *this) { USE_OK(IT(this)); IT(this) = IT(this) + 1; return this; }
_Bool _ZN9__gnu_cxxneIPKjSt6vectorIjSaIjEEEEbRKNS_17__normal_iteratorIT_T0_EESB_(const struct vuint_citerator *a, const struct vuint_citerator *b) { return IT(a) != IT(b); }
_Bool _ZN9__gnu_cxxneIPjSt6vectorIjSaIjEEEEbRKNS_17__normal_iteratorIT_T0_EESA_(const struct vuint_iterator *a, const struct vuint_iterator *b) { return IT(a) != IT(b); }
const unsigned *_ZNK9__gnu_cxx17__normal_iteratorIPKjSt6vectorIjSaIjEEEdeEv(const struct vuint_citerator *this) { USE_OK(IT(this)); return IT(this); }
unsigned *_ZNK9__gnu_cxx17__normal_iteratorIPjSt6vectorIjSaIjEEEdeEv(const struct vuint_iterator *this) { USE_OK(IT(this)); return IT(this); }
/* bool UTF8String::Insert(size_t pos, codepoint u, Transform): one code point goes in at pos, or is refused (ill-formed / pos beyond the end) */
_Bool __g2c_nondet_bool(void);
_Bool _ZN10utf8helper10UTF8String6InsertEmjPFjPKNS_9characterEiE(struct utf8helper__UTF8String *this, unsigned long pos, unsigned u, void *func)
{
  (void)func; __CPROVER_assert(this == g_self, "the single insertions go to the same string"); __CPROVER_assert(g_ins_n < D_MAX, "model: at most D_MAX single insertions");
  _Bool ok = pos <= g_len && __g2c_nondet_bool();
  g_ins_u[g_ins_n] = u; g_ins_pos[g_ins_n] = pos; g_ins_ok[g_ins_n] = ok; g_ins_n++;
  if (ok) { __CPROVER_assert(g_len < CP_MAX, "model: room in the store"); for (unsigned long k = CP_MAX; k > 0; --k) if (k > pos && k <= g_len) g_cp[k] = g_cp[k - 1]; g_cp[pos] = u; g_len++; if (g_store_iterating) g_invalidated = 1; }
  return ok;
}
/* size_t UTF8String::Size() const is rendered from the repository (store.size()) */

#define ARG(k) (g_alias ? __CPROVER_old(g_cp[k]) : __CPROVER_old(g_data[k]))
#define ARGLEN (g_alias ? __CPROVER_old(g_len) : __CPROVER_old(g_dlen))
unsigned long _ZN10utf8helper10UTF8String6InsertEmRKSt6vectorIjSaIjEEPFjPKNS_9characterEiE(struct utf8helper__UTF8String *this, unsigned long pos, const struct vec_uint *data, void *func)
__CPROVER_requires(IS_FRESH(this, sizeof(*this)) && IS_FRESH(data, sizeof(*data)))
__CPROVER_requires(INPUT_STATE(g_alias, g_len, g_dlen, g_cp[0], g_cp[1], g_data[0], g_data[1]))
__CPROVER_requires(SET_EQ(g_self, this))
/* the argument is the string's own store, or another vector */
__CPROVER_requires(g_alias ==> SET_EQ(data, &this->store))
__CPROVER_requires(SET_EQ(g_data_vec, (g_alias ? (const struct vec_uint *)0 : data)))
__CPROVER_requires(g_len <= 2 && g_dlen <= D_MAX && __exc == 0 && g_ins_n == 0 && g_store_iterating == 0 && g_invalidated == 0 && g_copies == 0)
__CPROVER_assigns()
PROP(C01, C18) __CPROVER_ensures(OK)
/* a position beyond the end inserts nothing */
PROP(C18) __CPROVER_ensures(pos > __CPROVER_old(g_len) ==> (RET == 0 && g_ins_n == 0 && g_len == __CPROVER_old(g_len)))
/* otherwise every code point the argument held at the call is offered exactly once, in order ... */
PROP(C18) __CPROVER_ensures(pos <= __CPROVER_old(g_len) ==> (g_ins_n == (int)ARGLEN && (g_ins_n >= 1 ==> g_ins_u[0] == ARG(0)) && (g_ins_n >= 2 ==> g_ins_u[1] == ARG(1))))
/* ... each right after the ones accepted before it, and the result counts the accepted ones */
PROP(C18) __CPROVER_ensures(pos <= __CPROVER_old(g_len) ==> ((g_ins_n >= 1 ==> g_ins_pos[0] == pos) && (g_ins_n >= 2 ==> g_ins_pos[1] == pos + (g_ins_ok[0] ? 1 : 0)) &&
                            RET == (unsigned long)((g_ins_n >= 1 && g_ins_ok[0]) ? 1 : 0) + (unsigned long)((g_ins_n >= 2 && g_ins_ok[1]) ? 1 : 0)))
;

#include FNS_C
