/* contract of bloc::FORStatement::doit -- one step of the FOR loop.
 * Executable::run re-enters doit() while it returns `this`, so the loop is a transition function and the
 * contract is its one-step relation (DESIGN section 4, C06). */
#include "prelude.h"
#include "ctx_api.h"

#define SELF       ((const void *)this)
#define NEXT       (this->_base_Controller._base_Statement._next)
#define ORDER_AUTO 0u
#define ORDER_ASC  1u
#define ORDER_DESC 2u
#define RTD        ((struct FORStatement__RT *)g_ctl_top_data)
#define OLD_RTD    ((struct FORStatement__RT *)__CPROVER_old(g_ctl_top_data))
#define REENTRY0   (g_ctl_depth > 0 && g_ctl_top_stmt == SELF)          /* evaluated in the pre-state */
#define WAS_REENTRY __CPROVER_old(g_ctl_depth > 0 && g_ctl_top_stmt == SELF)
#define HAS_STEP   (this->_expStp != 0)
/* invariant of the loop's private record between two steps */
#define RT_INV(d)  ((d)->min <= (d)->max && (d)->step != 0 && (d)->step != INT64_MIN_ && (d)->iterator == &g_iter_slot)
/* the next value, over the mathematical integers, has passed the limit in the direction of travel */
#define NEXT_MATH ((__int128)__CPROVER_old(g_iter_slot._value.i) + (__int128)__CPROVER_old(RTD->step))
#define PAST_LIMIT ((__CPROVER_old(RTD->step) > 0 && NEXT_MATH > (__int128)__CPROVER_old(RTD->max)) || (__CPROVER_old(RTD->step) < 0 && NEXT_MATH < (__int128)__CPROVER_old(RTD->min)))
#define B  V_I(A1)
#define E  V_I(A2)
#define S  (HAS_STEP ? V_I(A3) : 1l)
#define BOUNDS_OK (g_eval_n >= 2 && IS_INT(A1) && IS_INT(A2) && (!HAS_STEP || (g_eval_n == 3 && IS_INT(A3) && V_I(A3) >= 1)))
#define DIRECTION_MET ((E > B && this->_order != ORDER_DESC) || (E < B && this->_order != ORDER_ASC) || E == B)
#define LEFT_WITHOUT_ENTERING (OK && RET == NEXT && g_ctl_pushes == 0 && g_ctl_pops == 0 && g_run_count == 0 && g_ctl_depth == __CPROVER_old(g_ctl_depth))

const struct Statement *_ZNK4bloc12FORStatement4doitERNS_7ContextE(struct FORStatement *this, struct Context *ctx)
__CPROVER_requires(IS_FRESH(this, sizeof(*this)) && IS_FRESH(ctx, sizeof(*ctx)) && IS_FRESH(ctx->_root, sizeof(struct Context)))
__CPROVER_requires(IS_FRESH(this->_var, sizeof(struct VariableExpression)) && IS_FRESH(this->_expBeg, sizeof(struct Expression)) && IS_FRESH(this->_expEnd, sizeof(struct Expression)) && IS_FRESH(this->_exec, sizeof(struct Executable)))
__CPROVER_requires(this->_expStp != 0 ==> IS_FRESH(this->_expStp, sizeof(struct Expression)))
__CPROVER_requires(INPUT_STATE(g_ctl_depth, g_ctl_top_stmt, g_ctl_top_data, VALUE_FIELDS(&g_iter_slot), g_symid, g_the_symbol._safety))
__CPROVER_requires(this->_order <= ORDER_DESC && this->_var->_id == g_symid)
/* the statement list is well formed: the successor is another statement */
__CPROVER_requires(NEXT != (const struct Statement *)this)
__CPROVER_requires(__exc == 0 && g_eval_n == 0 && __caught_n == 0 && GLOBALS_PINNED && g_ctl_depth >= 0 && g_ctl_depth < 1000 && g_ctl_pushes == 0 && g_ctl_pops == 0 && g_run_count == 0 && g_store_calls == 0)
/* on re-entry the top of the control stack is this loop's record, in the state the previous step left it;
 * the control variable is type safe (an integer), its value and nullness are whatever the body made them */
__CPROVER_requires(IS_FRESH(g_ctl_top_data, sizeof(struct FORStatement__RT)))
__CPROVER_requires(REENTRY0 ==> (RT_INV(RTD) && V_IS(&g_iter_slot, INTEGER) && VALID_TAG(&g_iter_slot) && V_LVALUE(&g_iter_slot)))
__CPROVER_assigns(__CPROVER_object_whole(ctx))
PROP(C01) __CPROVER_ensures(ONLY_RUNTIME_ERROR)
/* ---- first entry: bounds and step are evaluated once, in order ---- */
PROP(C06) __CPROVER_ensures(!WAS_REENTRY ==> (g_eval_n <= (HAS_STEP ? 3 : 2) && (g_eval_n >= 1 ==> g_eval_node[0] == this->_expBeg) && (g_eval_n >= 2 ==> g_eval_node[1] == this->_expEnd) && (g_eval_n == 3 ==> g_eval_node[2] == this->_expStp)))
PROP(C06) __CPROVER_ensures(WAS_REENTRY ==> g_eval_n == 0)
/* a null bound (or null step): zero iterations */
PROP(C06) __CPROVER_ensures((!WAS_REENTRY && g_eval_n >= 1 && V_ISNULL(A1)) ==> LEFT_WITHOUT_ENTERING)
PROP(C06) __CPROVER_ensures((!WAS_REENTRY && g_eval_n >= 2 && IS_INT(A1) && V_ISNULL(A2)) ==> LEFT_WITHOUT_ENTERING)
PROP(C06) __CPROVER_ensures((!WAS_REENTRY && g_eval_n == 3 && IS_INT(A1) && IS_INT(A2) && V_ISNULL(A3)) ==> LEFT_WITHOUT_ENTERING)
/* a step below 1 is rejected */
PROP(C06) __CPROVER_ensures((!WAS_REENTRY && g_eval_n == 3 && IS_INT(A1) && IS_INT(A2) && IS_INT(A3) && V_I(A3) < 1) ==> (THROWN_RT(EXC_RT_OUT_OF_RANGE) && g_ctl_pushes == 0 && g_run_count == 0))
/* the requested direction cannot be met: zero iterations */
PROP(C06) __CPROVER_ensures((!WAS_REENTRY && BOUNDS_OK && !DIRECTION_MET) ==> LEFT_WITHOUT_ENTERING)
/* otherwise the loop is entered: control variable := first, type-safe, record pushed, body run once */
PROP(C06) __CPROVER_ensures((!WAS_REENTRY && BOUNDS_OK && DIRECTION_MET && g_ctl_pushes == 1) ==>
     (g_run_count == 1 && g_store_calls == 1 && g_the_symbol._safety == 1 && (g_ctl_pops == 0 ==> (g_ctl_top_stmt == SELF && g_ctl_depth == __CPROVER_old(g_ctl_depth) + 1))))
PROP(C06) __CPROVER_ensures((!WAS_REENTRY && BOUNDS_OK && DIRECTION_MET && OK) ==> (g_ctl_pushes == 1))
/* ---- re-entry: advance by the signed step, leave when the next value is outside [min, max] -- decided
 * over the mathematical integers, so the control variable never wraps around ---- */
PROP(C06) __CPROVER_ensures((WAS_REENTRY && __CPROVER_old(!V_ISNULL(&g_iter_slot)) &&
      PAST_LIMIT) ==>
     (OK && RET == NEXT && g_ctl_pops == 1 && g_ctl_popped_data == __CPROVER_old(g_ctl_top_data) && g_run_count == 0 && g_ctl_depth == __CPROVER_old(g_ctl_depth) - 1))
PROP(C06) __CPROVER_ensures((WAS_REENTRY && __CPROVER_old(!V_ISNULL(&g_iter_slot)) &&
      !PAST_LIMIT) ==>
     (g_run_count == 1 && (__int128)__CPROVER_old(g_iter_slot._value.i) + (__int128)__CPROVER_old(RTD->step) == (__int128)g_iter_at_run))
/* a control variable that the body set to null is a BLOC error, not a crash */
PROP(C06) __CPROVER_ensures((WAS_REENTRY && __CPROVER_old(V_ISNULL(&g_iter_slot))) ==> (THROWN_RT(EXC_RT_NOT_INTEGER) && g_run_count == 0))
/* ---- after the body (either entry): continue looping, or leave through break / return ---- */
PROP(C06) __CPROVER_ensures((OK && g_run_count == 1 && !(ctx->_breakCondition || ctx->_continueCondition || ctx->_returnCondition || ctx->_root->_returnCondition)) ==> (RET == (const struct Statement *)this || g_ctl_pops == 1))
PROP(C06) __CPROVER_ensures((OK && g_run_count == 1 && RET == (const struct Statement *)this) ==> (g_ctl_pops == 0 && ctx->_continueCondition == 0 && g_ctl_top_stmt == SELF && RT_INV(RTD)))
PROP(C06) __CPROVER_ensures((OK && g_run_count == 1 && RET != (const struct Statement *)this) ==> (RET == NEXT && g_ctl_pops == 1 && ctx->_breakCondition == 0))
/* a loop that is left has released its record exactly once (finalizeControl restores the safety flag) */
PROP(C06) __CPROVER_ensures((OK && RET == NEXT && (WAS_REENTRY || g_ctl_pushes == 1)) ==> (g_ctl_pops == 1 && g_ctl_popped_stmt == SELF))
;

#include FNS_C
