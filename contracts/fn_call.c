/* contract of bloc::FunctorExpression::value (C07, C08, C17): one call of a user function.
 * The runtime context taken for the call goes back to the function's cache exactly once on EVERY way out -- normal
 * return, recursion limit, error in an argument, error in the body; the value the body returned is moved into a
 * temporary of the CALLER and its holder destroyed exactly once; a body that returns nothing gives the untyped null;
 * the body runs exactly once, in the callee's context. */
int g_ret_deleted; void *g_ret_obj;
#define G2C_DELETE_HOOK(p) if ((p) != 0 && (void *)(p) == g_ret_obj) g_ret_deleted++;
#include "prelude.h"
struct FunctorManager__Entry g_entry; struct Functor g_functor; struct Context g_callee; struct Statement g_body;
_Bool g_env_throws, g_body_throws, g_has_ret; int g_env_n, g_doit_n, g_push_n, g_drop_n; const void *g_doit_stmt, *g_doit_ctx, *g_push_list; struct Context *g_push_ctx;
/* FunctorManager::Env FunctorManager::createEnv(...): contract in fn_env.c (job fm_createEnv); may refuse with a RuntimeError */
struct FunctorManager__Env _ZN4bloc14FunctorManager9createEnvERNS_7ContextEjRKSt6vectorIPNS_10ExpressionESaIS5_EE(struct FunctorManager *this, struct Context *caller, unsigned id, const void *pvals)
{
  struct FunctorManager__Env e; (void)this; (void)caller; (void)id; (void)pvals; e._entry = 0; e._ctx = 0;
  g_env_n++;
  if (g_env_throws) { __cxa_throw(__CPROVER_allocate(sizeof(struct RuntimeError), 0), G2C_EXC_RuntimeError, 0); return e; }
  e._entry = &g_entry; e._ctx = &g_callee; return e;
}
struct Functor *_ZNKSt19__shared_ptr_accessIN4bloc7FunctorELN9__gnu_cxx12_Lock_policyE2ELb0ELb0EEdeEv(const void *this) { (void)this; return &g_functor; }
/* virtual const Statement * Statement::doit(Context&) const on the body: may set a returned value, may throw a RuntimeError (C01) */
const struct Statement *VCALL_Statement_doit(const struct Statement *s, struct Context *ctx)
{
  g_doit_n++; g_doit_stmt = s; g_doit_ctx = ctx;
  if (g_body_throws) { __cxa_throw(__CPROVER_allocate(sizeof(struct RuntimeError), 0), G2C_EXC_RuntimeError, 0); return 0; }
  if (g_has_ret) { struct Value *r = __CPROVER_allocate(sizeof(struct Value), 0); r->_flags = __g2c_nondet_int() & 3; r->_type._major = INTEGER; r->_type._minor = 0; r->_type._level = 0; r->_value.i = __g2c_nondet_long(); ctx->_returned = r; g_ret_obj = r; }
  else ctx->_returned = 0;
  return 0;
}
long __g2c_nondet_long(void);
/* Value * Context::dropReturned(): hands over the returned value */
struct Value *_ZN4bloc7Context12dropReturnedEv(struct Context *this) { struct Value *r = this->_returned; this->_returned = 0; g_drop_n++; return r; }
void _ZNSt12forward_listIPN4bloc7ContextESaIS2_EE10push_frontERKS2_(void *this, struct Context *const *c) { g_push_n++; g_push_list = this; g_push_ctx = *c; }

struct Value *_ZNK4bloc17FunctorExpression5valueERNS_7ContextE(struct FunctorExpression *this, struct Context *ctx)
__CPROVER_requires(IS_FRESH(this, sizeof(*this)) && IS_FRESH(ctx, sizeof(*ctx)) && IS_FRESH(ctx->_fctm, 64))
__CPROVER_requires(INPUT_STATE(g_env_throws, g_body_throws, g_has_ret))
__CPROVER_requires(SET_EQ(g_functor.body, &g_body))
__CPROVER_requires(__exc == 0 && __caught_n == 0 && g_env_n == 0 && g_doit_n == 0 && g_push_n == 0 && g_ret_deleted == 0 && g_ret_obj == 0 && GLOBALS_PINNED)
__CPROVER_assigns()
PROP(C01) __CPROVER_ensures(ONLY_RUNTIME_ERROR)
/* the context taken for the call is recycled exactly once whenever one was taken, into the cache of the function's own entry */
PROP(C07, C08) __CPROVER_ensures(g_env_throws ==> (!OK && g_push_n == 0 && g_doit_n == 0))
PROP(C07, C08) __CPROVER_ensures(!g_env_throws ==> (g_push_n == 1 && g_push_ctx == &g_callee && g_push_list == (const void *)&g_entry.ctx_cache))
/* the body runs once, in the callee's context */
PROP(C08) __CPROVER_ensures(!g_env_throws ==> (g_doit_n == 1 && g_doit_stmt == &g_body && g_doit_ctx == &g_callee))
PROP(C07) __CPROVER_ensures((!g_env_throws && g_body_throws) ==> !OK)
/* the result is a temporary of the caller; the holder of the returned value is destroyed exactly once */
PROP(C05, C08) __CPROVER_ensures(OK ==> (RET != 0 && (void *)RET != g_ret_obj && (void *)RET != (void *)&g_callee))
PROP(C17) __CPROVER_ensures((OK && g_has_ret) ==> (g_ret_deleted == 1 && g_callee._returned == 0))
PROP(C08) __CPROVER_ensures((OK && !g_has_ret) ==> (V_IS(RET, NO_TYPE) && V_ISNULL(RET) && g_ret_deleted == 0))
;

#include FNS_C
