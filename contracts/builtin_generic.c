/* generic contract of a builtin function node  <Class>::value(Context&)  (C01, C05; C02 where the compiled type is fixed):
 * whatever the arguments evaluate to -- any type, null or not, owned storage or temporary -- the evaluation is free of
 * undefined behaviour, only a BLOC runtime error leaves it, arguments owned by a variable / constant / container are
 * left unchanged, and the result is a temporary or an argument handed through.
 * Instantiated per builtin by the job: -DBUILTIN_FN=<mangled> -DBUILTIN_CLASS=<struct> -DBUILTIN_NARGS=<n> [-DBUILTIN_TYPE=<major>] */
#define PAYLOAD_IMAGINARY
#define PAYLOAD_LITERAL
#define PAYLOAD_TABCHAR
#define HAVE_STD_STRING
#define CONTAINERS_MODEL
#define ITERATOR_MODEL
#ifdef BUILTIN_STR_MAX
/* BOUND: string / bytes operands of at most BUILTIN_STR_MAX characters (the character loops are unwound) */
#define EVAL_EXTRA_CLAUSE __CPROVER_ensures((__exc == 0 && (V_IS(__CPROVER_return_value, LITERAL) || V_IS(__CPROVER_return_value, TABCHAR)) && V_LEVEL(__CPROVER_return_value) == 0 && !V_ISNULL(__CPROVER_return_value)) ==> ((unsigned long *)__CPROVER_return_value->_value.p)[1] <= BUILTIN_STR_MAX)
#endif
#ifdef BUILTIN_C10   /* a builtin C10 names: "never read outside the data, and leave their arguments unchanged" is that property's as well */
#define FRAME_TAGS C05, C10
#endif
#include "prelude.h"
#include "containers.h"
#ifdef G2C_HAVE_std_complex_double
#include "complex_api.h"
#endif

/* void b64encode(const void*, size_t, Literal&) / b64decode(const void*, size_t, TabChar&) (base64.cpp; contracts: base64.c, jobs base64_encode / base64_decode):
 * they read exactly the len bytes given and size their output */
void _ZN4bloc9b64encodeEPKvmRNSt7__cxx1112basic_stringIcSt11char_traitsIcESaIcEEE(const void *d, unsigned long n, struct std_string *out)
{ __CPROVER_assert(n == 0 || __CPROVER_r_ok(d, n), "b64encode: the len bytes are readable"); __CPROVER_assume(n <= MAXLEN / 2); SZ(out) = (n + 2) / 3 * 4; __havoc_str(out); }
void _ZN4bloc9b64decodeEPKvmRSt6vectorIcSaIcEE(const void *d, unsigned long n, struct vec_char *out)
{ __CPROVER_assert(n == 0 || __CPROVER_r_ok(d, n), "b64decode: the len bytes are readable"); if (n > 0) { unsigned long m = __g2c_nondet_ulong(); __CPROVER_assume(m <= n); SZ(out) = m; } }

/* static double Context::random(double) (context.cpp: std::minstd_rand seeded with the pid; outside the cut, assumed contract: returns some double and touches nothing visible) */
double _ZN4bloc7Context6randomEd(double max) { (void)max; return __g2c_nondet_double(); }

/* static Value& BuiltinExpression::handback(Context&, Value&) (expression_builtin.cpp; proved on its real body: job builtin_handback):
 * an owned argument is cloned into a temporary, a temporary is handed back itself */
struct Value *_ZN4bloc17BuiltinExpression8handbackERNS_7ContextERNS_5ValueE(struct Context *ctx, struct Value *val)
{ if (V_LVALUE(val)) { struct Value c = _ZNK4bloc5Value5cloneEv(val); return _ZN4bloc7Context8allocateEONS_5ValueE(ctx, &c); } return val; }

struct Value *BUILTIN_FN(struct BUILTIN_CLASS *this, struct Context *ctx)
__CPROVER_requires(IS_FRESH(this, sizeof(*this)) && IS_FRESH(ctx, sizeof(*ctx)))
__CPROVER_requires(INPUT_STATE(g_nargs))
__CPROVER_requires(this->_base_BuiltinExpression.oper >= 0 && this->_base_BuiltinExpression.oper < 128)
__CPROVER_requires(g_nargs == BUILTIN_NARGS && ARGS_PINNED && __exc == 0 && g_eval_n == 0 && __caught_n == 0 && GLOBALS_PINNED)
EVAL_ASSIGNS
ENS_ONLY_RT
/* each argument is evaluated at most once, in order */
PROP(C05) __CPROVER_ensures(g_eval_n <= BUILTIN_NARGS && (g_eval_n >= 1 ==> g_eval_node[0] == g_args[0]) && (g_eval_n >= 2 ==> g_eval_node[1] == g_args[1]) && (g_eval_n >= 3 ==> g_eval_node[2] == g_args[2]))
ENS_FRAME1
#if BUILTIN_NARGS >= 2
ENS_FRAME2
#endif
#if BUILTIN_NARGS >= 3
PROP(FRAME_TAGS) __CPROVER_ensures((g_eval_n >= 3 && V_LVALUE(A3)) ==> (V_SAME(O3, A3) && (FRAME_IMAG(O3, A3, 2)) && (FRAME_STR(O3, A3, 2))))
#endif
PROP(C05) __CPROVER_ensures(OK ==> (!V_LVALUE(RET) || (g_eval_n >= 1 && RET == O1 && V_LVALUE(A1)) || (g_eval_n >= 2 && RET == O2 && V_LVALUE(A2)) || (g_eval_n >= 3 && RET == O3 && V_LVALUE(A3))))
#ifdef BUILTIN_TYPE
ENS_TYPE(BUILTIN_TYPE)
#endif
#ifdef BUILTIN_TYPE_FOLLOWS_COMPLEX
/* C02: type() is complex for a complex argument and decimal otherwise (blocc/builtin/builtin_<name>.cpp); value() agrees */
PROP(C02) __CPROVER_ensures((OK && g_eval_n >= 1) ==> ((V_IS(A1, IMAGINARY) ? V_IS(RET, IMAGINARY) : V_IS(RET, NUMERIC)) && VALID_TAG(RET)))
#endif
#ifdef BUILTIN_RESULT_IS_CONTAINER
/* C05: a string / bytes result can be the receiver of an in-place method (f(s).concat(x)); it must therefore never BE a variable, a constant or a
 * container element -- also not a null one, which concat would fill in: the result is a temporary */
PROP(C05) __CPROVER_ensures(OK ==> !V_LVALUE(RET))
#endif
#ifdef BUILTIN_TYPE_SAME_AS_ARG1
/* C02: type() is the type of the first argument (abs -- decimal for a complex --, sign, clamp): with a typed scalar first argument the
 * result has that type (a table never gets a defined static type here: the compiler refuses it, and an opaque argument makes the call opaque) */
#ifdef BUILTIN_ABS
#define TYPE_OF_ARG1 (V_MAJOR(A1) == IMAGINARY ? NUMERIC : V_MAJOR(A1))
#else
#define TYPE_OF_ARG1 V_MAJOR(A1)
#endif
PROP(C02) __CPROVER_ensures((OK && g_eval_n >= 1 && V_MAJOR(A1) != NO_TYPE && V_LEVEL(A1) == 0) ==> (V_MAJOR(RET) == TYPE_OF_ARG1 && V_LEVEL(RET) == 0 && V_MINOR(RET) == V_MINOR(A1) && VALID_TAG(RET)))
#endif
#ifdef BUILTIN_TYPE_ARITH2
/* C02: type() is integer when both arguments are integers, decimal otherwise (max, min, mod): with two typed numbers the result agrees */
#define NUM_TYPED(a) (V_LEVEL(a) == 0 && (V_MAJOR(a) == INTEGER || V_MAJOR(a) == NUMERIC))
PROP(C02) __CPROVER_ensures((OK && g_eval_n == 2 && NUM_TYPED(A1) && NUM_TYPED(A2)) ==> (V_IS(RET, ((V_MAJOR(A1) == INTEGER && V_MAJOR(A2) == INTEGER) ? INTEGER : NUMERIC)) && VALID_TAG(RET)))
#endif
#ifdef BUILTIN_TYPE_POW
/* C02: pow is complex when an argument is complex, integer when both are integers, decimal otherwise */
#define POW_TYPED(a) (V_LEVEL(a) == 0 && (V_MAJOR(a) == INTEGER || V_MAJOR(a) == NUMERIC || V_MAJOR(a) == IMAGINARY))
PROP(C02) __CPROVER_ensures((OK && g_eval_n == 2 && POW_TYPED(A1) && POW_TYPED(A2)) ==> (V_IS(RET, ((V_MAJOR(A1) == IMAGINARY || V_MAJOR(A2) == IMAGINARY) ? IMAGINARY : (V_MAJOR(A1) == INTEGER && V_MAJOR(A2) == INTEGER) ? INTEGER : NUMERIC)) && VALID_TAG(RET)))
#endif
#ifdef BUILTIN_IS_ISNUM
/* C10: isnum(s) on a string or bytes is TRUE exactly when num(s) would succeed: the text is a numeral AND lies in the range of a decimal
 * (the two facts about the text are the ghost state of the std::stod / strtod model, containers.h); a number is a number; anything else is not */
PROP(C10) __CPROVER_ensures((OK && g_eval_n == 1 && (V_IS(A1, LITERAL) || V_IS(A1, TABCHAR)) && !V_ISNULL(A1)) ==> (g_sto_calls >= 1 && !V_ISNULL(RET) && ((RET->_value.i & 0xff) != 0) == (g_sto_is_numeral && g_sto_in_range)))
PROP(C10) __CPROVER_ensures((OK && g_eval_n == 1 && (V_IS(A1, INTEGER) || V_IS(A1, NUMERIC)) && !V_ISNULL(A1)) ==> (!V_ISNULL(RET) && (RET->_value.i & 0xff) == 1))
PROP(C10) __CPROVER_ensures((OK && g_eval_n == 1 && V_ISNULL(A1)) ==> (!V_ISNULL(RET) && (RET->_value.i & 0xff) == 0))
#endif
#ifdef BUILTIN_IS_REPLACE
/* C10 ("returns the documented value": all occurrences of y replaced by z): when no search finds an occurrence the result has the length
 * of the subject -- it IS the subject; which characters it holds is outside the string model (size and identity only) */
PROP(C10) __CPROVER_ensures((OK && g_eval_n == 3 && V_IS(A1, LITERAL) && !V_ISNULL(A1) && V_IS(A2, LITERAL) && !V_ISNULL(A2) && g_eval_str[1][1] != 0 && g_find_hits == 0) ==> (V_IS(RET, LITERAL) && !V_ISNULL(RET) && STR_W(RET->_value.p, 1) == g_eval_str[0][1]))
#endif
#ifdef BUILTIN_IS_MOD
/* C03: mod(a, b) on two integers is the remainder of the division truncated toward zero, for every non-zero divisor (mod(x, -1) is 0, also for
 * the smallest integer); a zero divisor is DIVIDE_BY_ZERO */
/* (the value of % itself is the machine's: this clause is decided with % uninterpreted on both sides, like the operator's, see arith.h) */
PROP(C03, UF) __CPROVER_ensures((g_eval_n == 2 && V_IS(A1, INTEGER) && !V_ISNULL(A1) && V_IS(A2, INTEGER) && !V_ISNULL(A2) && V_I(A2) != 0) ==> (OK && V_IS(RET, INTEGER) && !V_ISNULL(RET) && V_I(RET) == SPEC_MOD(V_I(A1), V_I(A2))))
PROP(C03) __CPROVER_ensures((g_eval_n == 2 && V_IS(A1, INTEGER) && !V_ISNULL(A1) && V_IS(A2, INTEGER) && !V_ISNULL(A2) && V_I(A2) == -1) ==> (OK && V_IS(RET, INTEGER) && !V_ISNULL(RET) && V_I(RET) == 0))
PROP(C03) __CPROVER_ensures((g_eval_n == 2 && V_IS(A1, INTEGER) && !V_ISNULL(A1) && V_IS(A2, INTEGER) && !V_ISNULL(A2) && V_I(A2) == 0) ==> THROWN_RT(EXC_RT_DIVIDE_BY_ZERO))
#endif
#ifdef BUILTIN_IS_INT
/* C03 / C10: int(x).  A decimal (or the real part of a complex) converts exactly when it lies in [-2^63, 2^63) -- truncated
 * toward zero -- and is OUT_OF_RANGE otherwise (2^63 itself and NaN included); an integer is handed through; a boolean is 0 / 1;
 * a null of any of these types gives a null integer */
PROP(C03, C10) __CPROVER_ensures((g_eval_n == 1 && V_IS(A1, NUMERIC) && !V_ISNULL(A1) && V_D(A1) >= -9223372036854775808.0 && V_D(A1) < 9223372036854775808.0) ==> (OK && !V_ISNULL(RET) && V_I(RET) == (long)V_D(A1)))
PROP(C03, C10) __CPROVER_ensures((g_eval_n == 1 && V_IS(A1, NUMERIC) && !V_ISNULL(A1) && !(V_D(A1) >= -9223372036854775808.0 && V_D(A1) < 9223372036854775808.0)) ==> THROWN_RT(EXC_RT_OUT_OF_RANGE))
PROP(C03) __CPROVER_ensures((g_eval_n == 1 && V_IS(A1, INTEGER) && !V_ISNULL(A1)) ==> (OK && !V_ISNULL(RET) && V_I(RET) == V_I(A1)))
PROP(C03, C04) __CPROVER_ensures((g_eval_n == 1 && V_ISNULL(A1) && V_LEVEL(A1) == 0 && (V_MAJOR(A1) == NO_TYPE || V_MAJOR(A1) == INTEGER || V_MAJOR(A1) == NUMERIC || V_MAJOR(A1) == BOOLEAN || V_MAJOR(A1) == LITERAL)) ==> (OK && V_ISNULL(RET)))
#endif
#ifdef BUILTIN_IS_NUM
/* C03 / C10: num(x).  An integer converts to the nearest decimal (the machine conversion), a decimal is handed through, the real
 * part of a complex is taken, a boolean is 0.0 / 1.0; a null gives a null decimal */
PROP(C03, C10) __CPROVER_ensures((g_eval_n == 1 && V_IS(A1, INTEGER) && !V_ISNULL(A1)) ==> (OK && !V_ISNULL(RET) && V_D(RET) == (double)V_I(A1)))
PROP(C03, C10) __CPROVER_ensures((g_eval_n == 1 && V_IS(A1, NUMERIC) && !V_ISNULL(A1)) ==> (OK && !V_ISNULL(RET) && RET->_value.i == A1->_value.i))
PROP(C03, C04) __CPROVER_ensures((g_eval_n == 1 && V_ISNULL(A1)) ==> (OK && V_ISNULL(RET)))
#endif
;

#include FNS_C
