/* iface.h -- interface contracts of the virtual methods (DESIGN 3.2) and ghost state recording
 * what the children of the node under verification returned. */
#ifndef IFACE_H
#define IFACE_H

#define G_MAXEVAL 4
int g_eval_n;                         /* number of child evaluations so far */
struct Value *g_eval_ret[G_MAXEVAL];  /* what each returned */
/* bit copy of *ret at the time it was returned: same member paths as struct Value, but no union
 * (CBMC loses union members of array elements written through a symbolic index) */
struct GSnap { struct { long i; } _value; struct { unsigned short _minor; unsigned char _level; unsigned char _major; } _type; int _flags; };
struct GSnap g_eval_snap[G_MAXEVAL];
struct Expression *g_eval_node[G_MAXEVAL];

/* Value& Expression::value(Context&) -- any node, as seen by its parent.
 * Normal return: a valid value of ANY tag, null or not, temporary or variable-owned.
 * Exceptional return: only a RuntimeError. */
struct Value *VCALL_Expression_value(struct Expression *e, struct Context *ctx)
__CPROVER_requires(__exc == 0)
__CPROVER_requires(g_eval_n >= 0 && g_eval_n < G_MAXEVAL)
__CPROVER_assigns(g_eval_n, g_eval_ret[g_eval_n], g_eval_snap[g_eval_n], g_eval_node[g_eval_n], __exc, __exc_type, __exc_obj)
__CPROVER_ensures(__exc == 0 || __exc == 1)
__CPROVER_ensures(__exc == 1 ==> (PTR_EQ(__exc_type, G2C_EXC_RuntimeError) && IS_FRESH(__exc_obj, sizeof(struct RuntimeError)) && g_eval_n == __CPROVER_old(g_eval_n)))
__CPROVER_ensures(__exc == 0 ==> IS_FRESH(__CPROVER_return_value, sizeof(struct Value)))
__CPROVER_ensures(__exc == 0 ==> VALID_TAG(__CPROVER_return_value))
__CPROVER_ensures(__exc == 0 ==> g_eval_n == __CPROVER_old(g_eval_n) + 1)
__CPROVER_ensures(__exc == 0 ==> PTR_EQ(g_eval_ret[__CPROVER_old(g_eval_n)], __CPROVER_return_value))
__CPROVER_ensures(__exc == 0 ==> PTR_EQ(g_eval_node[__CPROVER_old(g_eval_n)], e))
__CPROVER_ensures(__exc == 0 ==> V_SAME(&g_eval_snap[__CPROVER_old(g_eval_n)], __CPROVER_return_value) && g_eval_snap[__CPROVER_old(g_eval_n)]._value.i == __CPROVER_return_value->_value.i)
;
#endif
