/* iface.h -- interface contracts of the virtual methods (DESIGN 3.2) and ghost state recording
 * what the children of the node under verification returned. */
#ifndef IFACE_H
#define IFACE_H

#define G_MAXEVAL 4
int g_eval_n;                         /* number of child evaluations so far */
struct Value *g_eval_ret[G_MAXEVAL];  /* what each returned */
/* bit copy of *ret at the time it was returned: same member paths as struct Value, but no union
 * (CBMC loses union members of array elements written through a symbolic index) */
struct GSnap { struct { long i; } _value; struct { unsigned short _minor; unsigned char _level; unsigned char _major; } _type; int _flags; };
struct GSnap g_eval_snap[G_MAXEVAL];
struct Expression *g_eval_node[G_MAXEVAL];
struct Value g_operand0, g_operand1, g_operand2, g_operand3;   /* the objects the children return (distinct, static: keeps solver terms simple) */
struct Value g_tab_elem;              /* stands for every element of the table a member method receives */
unsigned long g_eval_size[G_MAXEVAL]; /* size() of the container payload (string, bytes, table) each child returned */
long g_eval_payload;                 /* havocked by every child evaluation: the payload bits it returns */

/* payload objects of non-null heap-typed values: only for the payload types the job names
 * (the struct mirrors exist only where the rendered code mentions them) */
/* IC-frame is content-for-content for heap payloads: the stub also records the payload's contents */
#ifdef PAYLOAD_IMAGINARY
struct Imaginary g_eval_imag[G_MAXEVAL];
#define ASG_PAYLOAD_IMAGINARY , g_eval_imag[g_eval_n].a, g_eval_imag[g_eval_n].b
#define ENS_PAYLOAD_IMAGINARY __CPROVER_ensures((__exc == 0 && V_IS(__CPROVER_return_value, IMAGINARY) && !V_ISNULL(__CPROVER_return_value)) ==> \
   (IS_FRESH(__CPROVER_return_value->_value.p, sizeof(struct Imaginary)) && \
    SET_EQ(g_eval_imag[__CPROVER_old(g_eval_n)].a, ((struct Imaginary *)__CPROVER_return_value->_value.p)->a) && \
    SET_EQ(g_eval_imag[__CPROVER_old(g_eval_n)].b, ((struct Imaginary *)__CPROVER_return_value->_value.p)->b)))
#define IMAG_SAME(o, k) (*(long *)&((struct Imaginary *)(o)->_value.p)->a == *(long *)&g_eval_imag[k].a && *(long *)&((struct Imaginary *)(o)->_value.p)->b == *(long *)&g_eval_imag[k].b)
#define FRAME_IMAG(o, snap, k) ((V_IS(snap, IMAGINARY) && !V_ISNULL(snap)) ==> IMAG_SAME(o, k))
#else
#define ASG_PAYLOAD_IMAGINARY
#define ENS_PAYLOAD_IMAGINARY
#define FRAME_IMAG(o, snap, k) 1
#endif
#ifdef PAYLOAD_LITERAL
/* a std::string is opaque; "unchanged" = the object's 32 bytes are unchanged (every mutating stub havocs them) */
unsigned long g_eval_str[G_MAXEVAL][4];
#define STR_W(p, j) (((unsigned long *)(p))[j])
#define ASG_PAYLOAD_LITERAL , g_eval_str[g_eval_n][0], g_eval_str[g_eval_n][1], g_eval_str[g_eval_n][2], g_eval_str[g_eval_n][3]
#define ENS_PAYLOAD_LITERAL __CPROVER_ensures((__exc == 0 && V_IS(__CPROVER_return_value, LITERAL) && !V_ISNULL(__CPROVER_return_value)) ==> \
   (IS_FRESH(__CPROVER_return_value->_value.p, sizeof(struct std_string)) && \
    SET_EQ(g_eval_str[__CPROVER_old(g_eval_n)][0], STR_W(__CPROVER_return_value->_value.p, 0)) && SET_EQ(g_eval_str[__CPROVER_old(g_eval_n)][1], STR_W(__CPROVER_return_value->_value.p, 1)) && \
    SET_EQ(g_eval_str[__CPROVER_old(g_eval_n)][2], STR_W(__CPROVER_return_value->_value.p, 2)) && SET_EQ(g_eval_str[__CPROVER_old(g_eval_n)][3], STR_W(__CPROVER_return_value->_value.p, 3)) && \
    SET_EQ(g_eval_size[__CPROVER_old(g_eval_n)], STR_W(__CPROVER_return_value->_value.p, 1)) && g_eval_size[__CPROVER_old(g_eval_n)] <= 0x7fffffffffffffful))
#define STR_SAME(o, k) (STR_W((o)->_value.p, 0) == g_eval_str[k][0] && STR_W((o)->_value.p, 1) == g_eval_str[k][1] && STR_W((o)->_value.p, 2) == g_eval_str[k][2] && STR_W((o)->_value.p, 3) == g_eval_str[k][3])
#define FRAME_STR(o, snap, k) ((V_IS(snap, LITERAL) && !V_ISNULL(snap)) ==> STR_SAME(o, k))
#else
#define ASG_PAYLOAD_LITERAL
#define ENS_PAYLOAD_LITERAL
#define FRAME_STR(o, snap, k) 1
#endif
#ifdef PAYLOAD_TABCHAR
#define ENS_PAYLOAD_TABCHAR __CPROVER_ensures((__exc == 0 && V_IS(__CPROVER_return_value, TABCHAR) && !V_ISNULL(__CPROVER_return_value)) ==> \
   (IS_FRESH(__CPROVER_return_value->_value.p, sizeof(struct vec_char)) && SET_EQ(g_eval_size[__CPROVER_old(g_eval_n)], ((unsigned long *)__CPROVER_return_value->_value.p)[1]) && g_eval_size[__CPROVER_old(g_eval_n)] <= 0x7fffffffffffffful))
#else
#define ENS_PAYLOAD_TABCHAR
#endif
#ifdef PAYLOAD_COMPLEX
#define ENS_PAYLOAD_COMPLEX __CPROVER_ensures((__exc == 0 && V_IS(__CPROVER_return_value, COMPLEX) && !V_ISNULL(__CPROVER_return_value)) ==> IS_FRESH(__CPROVER_return_value->_value.p, sizeof(struct Complex)))
#else
#define ENS_PAYLOAD_COMPLEX
#endif
#ifdef PAYLOAD_COLLECTION
/* a non-null table value owns a Collection whose table type is the value's type */
#define ENS_PAYLOAD_COLLECTION __CPROVER_ensures((__exc == 0 && V_LEVEL(__CPROVER_return_value) > 0 && !V_ISNULL(__CPROVER_return_value)) ==> \
   (IS_FRESH(__CPROVER_return_value->_value.p, sizeof(struct Collection)) && \
    SET_EQ(((struct Collection *)__CPROVER_return_value->_value.p)->_type._major, V_MAJOR(__CPROVER_return_value)) && \
    SET_EQ(((struct Collection *)__CPROVER_return_value->_value.p)->_type._minor, V_MINOR(__CPROVER_return_value)) && \
    SET_EQ(((struct Collection *)__CPROVER_return_value->_value.p)->_type._level, V_LEVEL(__CPROVER_return_value)) && \
    SET_EQ(g_eval_size[__CPROVER_old(g_eval_n)], ((unsigned long *)&((struct Collection *)__CPROVER_return_value->_value.p)->v)[1]) && g_eval_size[__CPROVER_old(g_eval_n)] <= 0xfffffffful && \
    (__CPROVER_old(g_eval_n) == 0 ==> RECEIVER_TABLE_INV((struct Collection *)__CPROVER_return_value->_value.p))))
#ifndef RECEIVER_TABLE_INV
#define RECEIVER_TABLE_INV(c) 1
#endif
#else
#define ENS_PAYLOAD_COLLECTION
#endif
#ifdef PAYLOAD_TUPLE
/* a non-null tuple value owns a Tuple whose tuple type is the value's type */
#define ENS_PAYLOAD_TUPLE __CPROVER_ensures((__exc == 0 && V_IS(__CPROVER_return_value, ROWTYPE) && !V_ISNULL(__CPROVER_return_value)) ==> \
   (IS_FRESH(__CPROVER_return_value->_value.p, sizeof(struct Tuple)) && \
    SET_EQ(((struct Tuple *)__CPROVER_return_value->_value.p)->_type._major, V_MAJOR(__CPROVER_return_value)) && \
    SET_EQ(((struct Tuple *)__CPROVER_return_value->_value.p)->_type._minor, V_MINOR(__CPROVER_return_value)) && \
    SET_EQ(((struct Tuple *)__CPROVER_return_value->_value.p)->_type._level, V_LEVEL(__CPROVER_return_value)) && \
    (__CPROVER_old(g_eval_n) == 0 ==> RECEIVER_TUPLE_INV((struct Tuple *)__CPROVER_return_value->_value.p))))
#ifndef RECEIVER_TUPLE_INV
#define RECEIVER_TUPLE_INV(t) 1
#endif
#else
#define ENS_PAYLOAD_TUPLE
#endif
/* a contract may restrict the domain of an operand (a stated assumption on what the child evaluates to) */
#ifndef EVAL_EXTRA_CLAUSE
#define EVAL_EXTRA_CLAUSE
#endif
#define ENS_PAYLOADS ENS_PAYLOAD_IMAGINARY ENS_PAYLOAD_LITERAL ENS_PAYLOAD_TABCHAR ENS_PAYLOAD_COMPLEX ENS_PAYLOAD_COLLECTION ENS_PAYLOAD_TUPLE

/* Value& Expression::value(Context&) -- any node, as seen by its parent.
 * Normal return: a valid value of ANY tag, null or not, temporary or variable-owned.
 * Exceptional return: only a RuntimeError. */
const void *g_eval_ctx_seen;   /* the context the last evaluation ran in */
struct Value *VCALL_Expression_value(struct Expression *e, struct Context *ctx)
__CPROVER_requires(__exc == 0)
__CPROVER_requires(g_eval_n >= 0 && g_eval_n < G_MAXEVAL)
__CPROVER_assigns(g_eval_n, g_eval_ret[g_eval_n], g_eval_snap[g_eval_n], g_eval_node[g_eval_n], g_eval_size[g_eval_n], g_eval_payload, g_eval_ctx_seen, __exc, __exc_type, __exc_obj ASG_PAYLOAD_IMAGINARY ASG_PAYLOAD_LITERAL)
__CPROVER_assigns(g_eval_n == 0: VALUE_FIELDS(&g_operand0); g_eval_n == 1: VALUE_FIELDS(&g_operand1); g_eval_n == 2: VALUE_FIELDS(&g_operand2); g_eval_n == 3: VALUE_FIELDS(&g_operand3))
__CPROVER_ensures(__exc == 0 || __exc == 1)
__CPROVER_ensures(__exc == 1 ==> (PTR_EQ(__exc_type, G2C_EXC_RuntimeError) && IS_FRESH(__exc_obj, sizeof(struct RuntimeError)) && g_eval_n == __CPROVER_old(g_eval_n)))
/* each evaluation returns its own object */
__CPROVER_ensures((__exc == 0 && __CPROVER_old(g_eval_n) == 0) ==> PTR_EQ(__CPROVER_return_value, &g_operand0))
__CPROVER_ensures((__exc == 0 && __CPROVER_old(g_eval_n) == 1) ==> PTR_EQ(__CPROVER_return_value, &g_operand1))
__CPROVER_ensures((__exc == 0 && __CPROVER_old(g_eval_n) == 2) ==> PTR_EQ(__CPROVER_return_value, &g_operand2))
__CPROVER_ensures((__exc == 0 && __CPROVER_old(g_eval_n) == 3) ==> PTR_EQ(__CPROVER_return_value, &g_operand3))
/* one write through the widest union member ties all member views of the fresh object together */
__CPROVER_ensures(__exc == 0 ==> SET_EQ(__CPROVER_return_value->_value.i, g_eval_payload))
__CPROVER_ensures(__exc == 0 ==> VALID_TAG(__CPROVER_return_value))
ENS_PAYLOADS
EVAL_EXTRA_CLAUSE
__CPROVER_ensures(__exc == 0 ==> g_eval_n == __CPROVER_old(g_eval_n) + 1)
__CPROVER_ensures(__exc == 0 ==> PTR_EQ(g_eval_ret[__CPROVER_old(g_eval_n)], __CPROVER_return_value))
__CPROVER_ensures(__exc == 0 ==> PTR_EQ(g_eval_node[__CPROVER_old(g_eval_n)], e))
/* ... in the context it was given (the last one is remembered, also when the evaluation fails) */
__CPROVER_ensures(PTR_EQ(g_eval_ctx_seen, ctx))
/* the snapshot is DEFINED as the returned value's bits (assignment, so that the solver sees one term) */
__CPROVER_ensures(__exc == 0 ==> (SET_EQ(g_eval_snap[__CPROVER_old(g_eval_n)]._flags, __CPROVER_return_value->_flags) &&
                                  SET_EQ(g_eval_snap[__CPROVER_old(g_eval_n)]._type._major, __CPROVER_return_value->_type._major) &&
                                  SET_EQ(g_eval_snap[__CPROVER_old(g_eval_n)]._type._minor, __CPROVER_return_value->_type._minor) &&
                                  SET_EQ(g_eval_snap[__CPROVER_old(g_eval_n)]._type._level, __CPROVER_return_value->_type._level) &&
                                  SET_EQ(g_eval_snap[__CPROVER_old(g_eval_n)]._value.i, __CPROVER_return_value->_value.i)))
;

/* const Type& Expression::type(Context&) -- the compiled (static) type of a child, any type at all,
 * NO_TYPE meaning opaque.  Recorded so that the parent's contract can speak about "the type of operand k". */
int g_type_n; struct Type g_stype[G_MAXEVAL]; struct Expression *g_type_node[G_MAXEVAL];
const struct Type *VCALL_Expression_type(struct Expression *e, struct Context *ctx)
__CPROVER_requires(__exc == 0 && g_type_n >= 0 && g_type_n < G_MAXEVAL)
__CPROVER_assigns(g_type_n, g_stype[g_type_n]._major, g_stype[g_type_n]._minor, g_stype[g_type_n]._level, g_type_node[g_type_n])
__CPROVER_ensures(__exc == 0)
__CPROVER_ensures(g_type_n == __CPROVER_old(g_type_n) + 1 && PTR_EQ(g_type_node[__CPROVER_old(g_type_n)], e))
__CPROVER_ensures(PTR_EQ(__CPROVER_return_value, &g_stype[__CPROVER_old(g_type_n)]) && g_stype[__CPROVER_old(g_type_n)]._major <= IMAGINARY)
;
/* bool Expression::isConst() const : any answer */
_Bool __g2c_nondet_bool(void);
int g_isconst_n; _Bool g_isconst_all = 1;   /* how often it was asked, and whether every answer so far was "yes" */
#ifdef ISCONST_PINNED
/* whether the receiver node is a constant of the program is a FACT about the node, fixed before the call (the contract lists it as input
 * state): a clause can then speak about constant receivers whether or not the code remembers to ask */
_Bool g_isconst_answer;
_Bool VCALL_Expression_isConst(const struct Expression *e) { (void)e; g_isconst_n++; g_isconst_all = g_isconst_all && g_isconst_answer; return g_isconst_answer; }
#else
_Bool VCALL_Expression_isConst(const struct Expression *e) { _Bool r = __g2c_nondet_bool(); (void)e; g_isconst_n++; g_isconst_all = g_isconst_all && r; return r; }
#endif
#define ST1 (&g_stype[0])
#define ST2 (&g_stype[1])
#endif
