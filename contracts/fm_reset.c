/* contract of bloc::FunctorManager::reset (C14): a cloned context gets the same function declarations as the
 * original (the compiled functors are shared, read-only after compilation) but none of its cached runtime contexts;
 * the original is not modified.  Both declaration lists are modelled by ghost arrays (source: at most 2): BOUNDED. */
#define HAVE_STD_STRING
#define CONTAINERS_MODEL
#define CONTAINERS_STRINGS_ONLY
#include "prelude.h"
#include "containers.h"

#define SRC_MAX 2
struct FunctorManager g_src_fm;
struct FunctorManager__Entry g_src[SRC_MAX + 1], g_dst[SRC_MAX + 3]; unsigned long g_src_len, g_dst_len; int g_clear_n, g_emplace_n, g_backed_reset;
struct Functor g_fun[SRC_MAX + 1];
#define FP(p) (*(struct Functor **)(p))
#ifndef G2C_HAVE_vent_citerator
struct vent_citerator { void *p; };
#endif
#ifndef G2C_HAVE_flist_iterator
struct flist_iterator { void *p; };
#endif
#define IT_PTR(it) (*(struct FunctorManager__Entry **)(it))
/* ---- ASSUMED model: the source list is iterated (const), the destination list is cleared and appended to ---- */
struct vent_citerator _ZNKSt6vectorIN4bloc14FunctorManager5EntryESaIS2_EE5beginEv(const struct vec_Entry *this)
{ struct vent_citerator it; __CPROVER_assert((const void *)this == (const void *)&g_src_fm._declarations, "model: only the source list is iterated"); IT_PTR(&it) = &g_src[0]; return it; }
struct vent_citerator _ZNKSt6vectorIN4bloc14FunctorManager5EntryESaIS2_EE3endEv(const struct vec_Entry *this) { struct vent_citerator it; (void)this; IT_PTR(&it) = &g_src[g_src_len]; return it; }
_Bool _ZN9__gnu_cxxneIPKN4bloc14FunctorManager5EntryESt6vectorIS3_SaIS3_EEEEbRKNS_17__normal_iteratorIT_T0_EESE_(const struct vent_citerator *a, const struct vent_citerator *b) { return IT_PTR(a) != IT_PTR(b); }
const struct FunctorManager__Entry *_ZNK9__gnu_cxx17__normal_iteratorIPKN4bloc14FunctorManager5EntryESt6vectorIS3_SaIS3_EEEdeEv(const struct vent_citerator *this)
{ __CPROVER_assert(IT_PTR(this) >= &g_src[0] && IT_PTR(this) < &g_src[g_src_len], "std::vector iterator dereferenced inside [begin, end)"); return IT_PTR(this); }
const struct FunctorManager__Entry *_ZNK9__gnu_cxx17__normal_iteratorIPKN4bloc14FunctorManager5EntryESt6vectorIS3_SaIS3_EEEptEv(const struct vent_citerator *this)
{ return _ZNK9__gnu_cxx17__normal_iteratorIPKN4bloc14FunctorManager5EntryESt6vectorIS3_SaIS3_EEEdeEv(this); }   /* it->x is (*it).x */
/* by position: the source list */
unsigned long _ZNKSt6vectorIN4bloc14FunctorManager5EntryESaIS2_EE4sizeEv(const struct vec_Entry *this)
{ __CPROVER_assert((const void *)this == (const void *)&g_src_fm._declarations, "model: only the source list is measured"); return g_src_len; }
const struct FunctorManager__Entry *_ZNKSt6vectorIN4bloc14FunctorManager5EntryESaIS2_EEixEm(const struct vec_Entry *this, unsigned long n)
{ __CPROVER_assert((const void *)this == (const void *)&g_src_fm._declarations, "model: only the source list is read by position"); __CPROVER_assert(n < g_src_len, "std::vector<Entry>::operator[] const: index within size() (undefined behaviour otherwise)"); return &g_src[n]; }
struct vent_citerator *_ZN9__gnu_cxx17__normal_iteratorIPKN4bloc14FunctorManager5EntryESt6vectorIS3_SaIS3_EEEppEv(struct vent_citerator *this) { IT_PTR(this) = IT_PTR(this) + 1; return this; }
void _ZNSt6vectorIN4bloc14FunctorManager5EntryESaIS2_EE5clearEv(struct vec_Entry *this)
{ __CPROVER_assert((void *)this != (void *)&g_src_fm._declarations, "the source list is not cleared"); g_dst_len = 0; g_clear_n++; }
void _ZNSt6vectorIN4bloc14FunctorManager5EntryESaIS2_EE12emplace_backIJS2_EEEvDpOT_(struct vec_Entry *this, struct FunctorManager__Entry *e)
{ __CPROVER_assert((void *)this != (void *)&g_src_fm._declarations, "the source list is not appended to"); __CPROVER_assert(g_dst_len <= SRC_MAX, "model: room in the destination list");
  FP(&g_dst[g_dst_len].functor) = FP(&e->functor); FP(&e->functor) = 0; g_dst_len++; g_emplace_n++; }
void _ZNSt10shared_ptrIN4bloc7FunctorEEC1ERKS2_(struct FunctorPtr *this, const struct FunctorPtr *o) { FP(this) = FP(o); }
void _ZNSt10shared_ptrIN4bloc7FunctorEED1Ev(struct FunctorPtr *this) { (void)this; }
void _ZNSt12__shared_ptrIN4bloc7FunctorELN9__gnu_cxx12_Lock_policyE2EE5resetEv(void *this) { FP(this) = 0; g_backed_reset++; }
void _ZNSt12forward_listIPN4bloc7ContextESaIS2_EEC1Ev(void *this) { (void)this; }
void _ZNSt12forward_listIPN4bloc7ContextESaIS2_EED1Ev(void *this) { (void)this; }
void _ZNSt12forward_listIPN4bloc7ContextESaIS2_EE5clearEv(void *this) { (void)this; }
struct flist_iterator _ZNSt12forward_listIPN4bloc7ContextESaIS2_EE5beginEv(void *this) { struct flist_iterator it; (void)this; *(void **)&it = 0; return it; }
struct flist_iterator _ZNSt12forward_listIPN4bloc7ContextESaIS2_EE3endEv(void *this) { struct flist_iterator it; (void)this; *(void **)&it = 0; return it; }
_Bool _ZStneRKSt18_Fwd_list_iteratorIPN4bloc7ContextEES5_(const struct flist_iterator *a, const struct flist_iterator *b) { return *(void *const *)a != *(void *const *)b; }

void _ZN4bloc14FunctorManager5resetERKS0_(struct FunctorManager *this, struct FunctorManager *fm)
__CPROVER_requires(IS_FRESH(this, sizeof(*this)) && PTR_EQ(fm, &g_src_fm))
__CPROVER_requires(INPUT_STATE(g_src_len, g_dst_len))
__CPROVER_requires(SET_EQ(FP(&g_src[0].functor), &g_fun[0]) && SET_EQ(FP(&g_src[1].functor), &g_fun[1]))
__CPROVER_requires(g_src_len <= SRC_MAX && g_dst_len <= SRC_MAX && __exc == 0 && __caught_n == 0 && g_clear_n == 0 && g_emplace_n == 0 && GLOBALS_PINNED)
__CPROVER_assigns(__CPROVER_object_whole(this))
PROP(C01, C14) __CPROVER_ensures(OK)
/* the clone declares exactly the functions of the original, in order, sharing the compiled functors */
PROP(C14) __CPROVER_ensures(g_dst_len == g_src_len && (g_src_len > 0 ==> FP(&g_dst[0].functor) == &g_fun[0]) && (g_src_len > 1 ==> FP(&g_dst[1].functor) == &g_fun[1]))
/* what the clone declared before is dropped first, and its saved definition with it */
PROP(C14) __CPROVER_ensures(g_clear_n == 1 && g_backed_reset == 1 && g_emplace_n == (int)g_src_len)
/* the original keeps its declarations */
PROP(C14) __CPROVER_ensures(g_src_len == __CPROVER_old(g_src_len) && FP(&g_src[0].functor) == &g_fun[0] && FP(&g_src[1].functor) == &g_fun[1])
;

#include FNS_C
