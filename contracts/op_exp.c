/* contract of bloc::OpEXPExpression::value  (operator **) */
#define PAYLOAD_IMAGINARY
#ifdef OPEXP_BASE
#define EVAL_EXTRA_CLAUSE __CPROVER_ensures((__exc == 0 && __CPROVER_old(g_eval_n) == 0 && V_IS(__CPROVER_return_value, INTEGER) && !V_ISNULL(__CPROVER_return_value)) ==> __CPROVER_return_value->_value.i == OPEXP_BASE)
#endif
#include "prelude.h"
#include "complex_api.h"

struct Value *_ZNK4bloc15OpEXPExpression5valueERNS_7ContextE(struct OpEXPExpression *this, struct Context *ctx)
EVAL_PRE_BINOP
EVAL_ASSIGNS
ENS_ONLY_RT
ENS_EVAL_BOTH
/* integer ** non-negative integer is total and yields an integer (exactness: see DESIGN, undecided beyond b = 0) */
PROP(C03) __CPROVER_ensures((g_eval_n == 2 && IS_INT(A1) && IS_INT(A2) && V_I(A2) >= 0) ==> (OK && V_IS(RET, INTEGER) && !V_ISNULL(RET)))
PROP(C03) __CPROVER_ensures((g_eval_n == 2 && IS_INT(A1) && IS_INT(A2) && V_I(A2) == 0) ==> (OK && V_I(RET) == 1))
#ifdef OPEXP_BASE
/* exactness modulo 2^64 for every exponent 0 <= e < 2^63, for a base with a multiplication-free closed form (the helper ipow is
 * also proved on its own for 0, 1, -1, 2: contracts/ipow.c; here the operator as a whole, whatever helper it uses).  DOMAIN of this
 * instantiation: the first operand, when it is a non-null integer, is OPEXP_BASE (real multipliers; one operand is then a constant) */
#if OPEXP_BASE == 0
PROP(C03) __CPROVER_ensures((g_eval_n == 2 && IS_INT(A1) && IS_INT(A2) && V_I(A2) >= 0) ==> (OK && V_I(RET) == (V_I(A2) == 0 ? 1 : 0)))
#elif OPEXP_BASE == 2
PROP(C03) __CPROVER_ensures((g_eval_n == 2 && IS_INT(A1) && IS_INT(A2) && V_I(A2) >= 0) ==> (OK && V_I(RET) == (V_I(A2) < 64 ? (long)(1ul << V_I(A2)) : 0)))
#endif
#endif
/* a negative exponent yields an integer or OUT_OF_RANGE, nothing else */
PROP(C03) __CPROVER_ensures((g_eval_n == 2 && IS_INT(A1) && IS_INT(A2) && V_I(A2) < 0) ==> ((OK && V_IS(RET, INTEGER) && !V_ISNULL(RET)) || THROWN_RT(EXC_RT_OUT_OF_RANGE)))
/* a decimal operand: decimal result, total (the value is libm's pow, assumed) */
PROP(C03) __CPROVER_ensures((g_eval_n == 2 && IS_REAL(A1) && IS_REAL(A2) && (IS_NUM(A1) || IS_NUM(A2))) ==> (OK && V_IS(RET, NUMERIC) && !V_ISNULL(RET)))
ENS_TYPE_ARITH
ENS_FRAME1
ENS_FRAME2
ENS_OWN2
;

#include FNS_C
