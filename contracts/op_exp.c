/* contract of bloc::OpEXPExpression::value  (operator **) */
#define PAYLOAD_IMAGINARY
#include "prelude.h"
#include "complex_api.h"

struct Value *_ZNK4bloc15OpEXPExpression5valueERNS_7ContextE(struct OpEXPExpression *this, struct Context *ctx)
EVAL_PRE_BINOP
EVAL_ASSIGNS
ENS_ONLY_RT
ENS_EVAL_BOTH
/* integer ** non-negative integer is total and yields an integer (exactness: see DESIGN, undecided beyond b = 0) */
PROP(C03) __CPROVER_ensures((g_eval_n == 2 && IS_INT(A1) && IS_INT(A2) && V_I(A2) >= 0) ==> (OK && V_IS(RET, INTEGER) && !V_ISNULL(RET)))
PROP(C03) __CPROVER_ensures((g_eval_n == 2 && IS_INT(A1) && IS_INT(A2) && V_I(A2) == 0) ==> (OK && V_I(RET) == 1))
/* a negative exponent yields an integer or OUT_OF_RANGE, nothing else */
PROP(C03) __CPROVER_ensures((g_eval_n == 2 && IS_INT(A1) && IS_INT(A2) && V_I(A2) < 0) ==> ((OK && V_IS(RET, INTEGER) && !V_ISNULL(RET)) || THROWN_RT(EXC_RT_OUT_OF_RANGE)))
/* a decimal operand: decimal result, total (the value is libm's pow, assumed) */
PROP(C03) __CPROVER_ensures((g_eval_n == 2 && IS_REAL(A1) && IS_REAL(A2) && (IS_NUM(A1) || IS_NUM(A2))) ==> (OK && V_IS(RET, NUMERIC) && !V_ISNULL(RET)))
ENS_TYPE_ARITH
ENS_FRAME1
ENS_FRAME2
ENS_OWN2
;

#include FNS_C
