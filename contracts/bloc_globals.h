/* bloc_globals.h -- link-time constants of libblocc that rendered code reads.
 * dfcc havocs all statics before the proof starts, so every contract pins them with GLOBALS_PINNED. */
#ifndef BLOC_GLOBALS_H
#define BLOC_GLOBALS_H
#define DEF_T(o, g, M) struct Type o = { ._major = (M) }; struct Type *g = &o;
DEF_T(__t_no_type, _ZN4bloc5Value12type_no_typeE, NO_TYPE)
DEF_T(__t_boolean, _ZN4bloc5Value12type_booleanE, BOOLEAN)
DEF_T(__t_integer, _ZN4bloc5Value12type_integerE, INTEGER)
DEF_T(__t_numeric, _ZN4bloc5Value12type_numericE, NUMERIC)
DEF_T(__t_literal, _ZN4bloc5Value12type_literalE, LITERAL)
DEF_T(__t_complex, _ZN4bloc5Value12type_complexE, COMPLEX)
DEF_T(__t_tabchar, _ZN4bloc5Value12type_tabcharE, TABCHAR)
DEF_T(__t_rowtype, _ZN4bloc5Value12type_rowtypeE, ROWTYPE)
DEF_T(__t_pointer, _ZN4bloc5Value12type_pointerE, POINTER)
DEF_T(__t_imaginary, _ZN4bloc5Value14type_imaginaryE, IMAGINARY)
#define PIN_T(g, o, M) ((g) == &(o) && (o)._major == (M) && (o)._minor == 0 && (o)._level == 0)
#define GLOBALS_PINNED ( \
  PIN_T(_ZN4bloc5Value12type_no_typeE, __t_no_type, NO_TYPE) && PIN_T(_ZN4bloc5Value12type_booleanE, __t_boolean, BOOLEAN) && \
  PIN_T(_ZN4bloc5Value12type_integerE, __t_integer, INTEGER) && PIN_T(_ZN4bloc5Value12type_numericE, __t_numeric, NUMERIC) && \
  PIN_T(_ZN4bloc5Value12type_literalE, __t_literal, LITERAL) && PIN_T(_ZN4bloc5Value12type_complexE, __t_complex, COMPLEX) && \
  PIN_T(_ZN4bloc5Value12type_tabcharE, __t_tabchar, TABCHAR) && PIN_T(_ZN4bloc5Value12type_rowtypeE, __t_rowtype, ROWTYPE) && \
  PIN_T(_ZN4bloc5Value12type_pointerE, __t_pointer, POINTER) && PIN_T(_ZN4bloc5Value14type_imaginaryE, __t_imaginary, IMAGINARY))
/* keyword tables (only ever passed on to error constructors) */
const char *_ZN4bloc16MemberExpression8KEYWORDSE[16];
const char *_ZN4bloc17BuiltinExpression8KEYWORDSE[128];
#endif
