/* contract of bloc::RAISEStatement::doit (C07): `raise NAME` throws the built-in error NAME stands for, or a user
 * error carrying NAME (what() of a user error is its argument: format "%s"). */
#define HAVE_STD_STRING
#define CONTAINERS_MODEL
static unsigned long __cstr_id(const char *p);
/* RuntimeError(no, arg): the argument string is kept (its identity, strid.h) */
#define RTE_ARG_HOOK(e, arg) (*(unsigned long *)&(e)->_base_Error._arg = __cstr_id(arg))
#include "prelude.h"
#include "containers.h"
#include "strid.h"
#include "rt_api.h"

#define NAME_ID STR_ID(&this->_name)
#define THROWN ((struct RuntimeError *)__exc_obj)
const struct Statement *_ZNK4bloc14RAISEStatement4doitERNS_7ContextE(struct RAISEStatement *this, struct Context *ctx)
__CPROVER_requires(IS_FRESH(this, sizeof(*this)) && IS_FRESH(ctx, sizeof(*ctx)))
__CPROVER_requires(INPUT_STATE(NAME_ID))
__CPROVER_requires(NAME_ID != STRID_EMPTY)
__CPROVER_requires(__exc == 0 && __caught_n == 0 && GLOBALS_PINNED)
__CPROVER_assigns()
PROP(C01, C07) __CPROVER_ensures(!OK && ONLY_RUNTIME_ERROR)
PROP(C07) __CPROVER_ensures(THROWN->no == (NAME_ID == STRID_OUT_OF_RANGE ? EXC_RT_OUT_OF_RANGE : NAME_ID == STRID_DIVIDE_BY_ZERO ? EXC_RT_DIVIDE_BY_ZERO : EXC_RT_USER_S))
PROP(C07) __CPROVER_ensures(THROWN->no == EXC_RT_USER_S ==> STR_ID(&THROWN->_base_Error._arg) == NAME_ID)
;

#include FNS_C
