/* contracts of the copy constructors bloc::Collection::Collection(const Collection&) and bloc::Tuple::Tuple(const Tuple&)
 * (C14, C17): a copy of a table / tuple has the source's type and declaration and holds, in order, one CLONE of each
 * element (Value::clone: proved in value_clone.c -- a new payload object, for a module object a new handle on the same
 * reference count); the source is only read.  This is what makes Value::clone of a table or tuple, and through it the
 * copy of a variable into a cloned context, deep.  The element vector is a ghost array of at most N_MAX values: BOUNDED. */
#include "prelude_lite.h"   /* collection.cpp / tuple.cpp know nothing of the interpreter's exceptions */
#define CW(p, k) (((unsigned long *)(p))[k])
#define N_MAX 2
struct Value g_src[N_MAX + 1], g_dst[N_MAX + 1]; unsigned long g_src_len, g_dst_len;
int g_clone_n, g_reserve_n; const struct Value *g_clone_src[N_MAX + 1]; unsigned long g_reserve_arg;
const void *g_src_vec;
#ifndef G2C_HAVE_vval_citerator
struct vval_citerator { void *p; };
#endif
#define ITV(p) (*(struct Value **)(p))
#define IS_SRC(v) ((const void *)(v) == g_src_vec)
/* ---- ASSUMED model of std::vector<Value>: the source's vector and the new object's vector ---- */
void _ZNSt6vectorIN4bloc5ValueESaIS1_EEC1Ev(struct vec_Value *this) { (void)this; g_dst_len = 0; }
void _ZNSt6vectorIN4bloc5ValueESaIS1_EED1Ev(struct vec_Value *this) { (void)this; }
unsigned long _ZNKSt6vectorIN4bloc5ValueESaIS1_EE4sizeEv(const struct vec_Value *this) { return IS_SRC(this) ? g_src_len : g_dst_len; }
void _ZNSt6vectorIN4bloc5ValueESaIS1_EE7reserveEm(struct vec_Value *this, unsigned long n) { __CPROVER_assert(!IS_SRC(this), "the source is only read"); g_reserve_n++; g_reserve_arg = n; }
struct vval_citerator _ZNKSt6vectorIN4bloc5ValueESaIS1_EE5beginEv(const struct vec_Value *this) { struct vval_citerator it; __CPROVER_assert(IS_SRC(this), "model: the source is iterated"); ITV(&it) = &g_src[0]; return it; }
struct vval_citerator _ZNKSt6vectorIN4bloc5ValueESaIS1_EE3endEv(const struct vec_Value *this) { struct vval_citerator it; (void)this; ITV(&it) = &g_src[g_src_len]; return it; }
_Bool _ZN9__gnu_cxxneIPKN4bloc5ValueESt6vectorIS2_SaIS2_EEEEbRKNS_17__normal_iteratorIT_T0_EESD_(const struct vval_citerator *a, const struct vval_citerator *b) { return ITV(a) != ITV(b); }
const struct Value *_ZNK9__gnu_cxx17__normal_iteratorIPKN4bloc5ValueESt6vectorIS2_SaIS2_EEEdeEv(const struct vval_citerator *this)
{ __CPROVER_assert(ITV(this) >= &g_src[0] && ITV(this) < &g_src[g_src_len], "std::vector iterator dereferenced inside [begin, end)"); return ITV(this); }
struct vval_citerator *_ZN9__gnu_cxx17__normal_iteratorIPKN4bloc5ValueESt6vectorIS2_SaIS2_EEEppEv(struct vval_citerator *this) { ITV(this) = ITV(this) + 1; return this; }
/* push_back(Value&&): the temporary is moved to the end of the new vector */
void _ZNSt6vectorIN4bloc5ValueESaIS1_EE9push_backEOS1_(struct vec_Value *this, struct Value *v)
{
  __CPROVER_assert(!IS_SRC(this), "the source is only read"); __CPROVER_assert(g_dst_len < N_MAX, "model: room in the new vector");
  g_dst[g_dst_len]._flags = v->_flags; g_dst[g_dst_len]._type._major = v->_type._major; g_dst[g_dst_len]._type._minor = v->_type._minor; g_dst[g_dst_len]._type._level = v->_type._level; g_dst[g_dst_len]._value.i = v->_value.i;
  v->_flags = 0; g_dst_len++;
}
/* Value Value::clone() const (value_clone.c): a copy with a payload of its own; which element was cloned is recorded, the copy is tagged with its ordinal */
struct Value _ZNK4bloc5Value5cloneEv(const struct Value *this)
{ struct Value c; __CPROVER_assert(g_clone_n < N_MAX, "model: one clone per element"); g_clone_src[g_clone_n] = this; c._flags = this->_flags & F_NOTNULL; c._type._major = this->_type._major; c._type._minor = this->_type._minor; c._type._level = this->_type._level; c._value.i = 1000 + g_clone_n; g_clone_n++; return c; }
/* TupleDecl::Decl (std::vector<Type>) copy: identity in word[0] */
void _ZNSt6vectorIN4bloc4TypeESaIS1_EEC2ERKS3_(void *this, const void *o) { CW(this, 0) = CW(o, 0); }
void _ZNSt6vectorIN4bloc4TypeESaIS1_EED2Ev(void *this) { (void)this; }

#define COPIED(k) (g_clone_src[k] == &g_src[k] && g_dst[k]._value.i == 1000 + (k) && !V_LVALUE(&g_dst[k]) && V_MAJOR(&g_dst[k]) == V_MAJOR(&g_src[k]) && V_LEVEL(&g_dst[k]) == V_LEVEL(&g_src[k]) && V_ISNULL(&g_dst[k]) == V_ISNULL(&g_src[k]))
#define SRC_SAME(k) (g_src[k]._flags == __CPROVER_old(g_src[k]._flags) && g_src[k]._value.i == __CPROVER_old(g_src[k]._value.i) && V_MAJOR(&g_src[k]) == __CPROVER_old(V_MAJOR(&g_src[k])))
#define COPY_CLAUSES(T) \
  PROP(C01, C14) __CPROVER_ensures(__exc == 0) \
  PROP(C14, C17) __CPROVER_ensures(g_dst_len == g_src_len && g_clone_n == (int)g_src_len && (g_src_len >= 1 ==> COPIED(0)) && (g_src_len >= 2 ==> COPIED(1))) \
  PROP(C14) __CPROVER_ensures(this->_type._major == t->_type._major && this->_type._minor == t->_type._minor && this->_type._level == t->_type._level && CW(&this->_decl._base_vec_Type, 0) == CW(&t->_decl._base_vec_Type, 0)) \
  PROP(C14) __CPROVER_ensures(g_src_len == __CPROVER_old(g_src_len) && SRC_SAME(0) && SRC_SAME(1))
#define COPY_REQUIRES \
  __CPROVER_requires(IS_FRESH(this, sizeof(*this)) && IS_FRESH(t, sizeof(*t))) \
  __CPROVER_requires(INPUT_STATE(g_src_len, VALUE_FIELDS(&g_src[0]), VALUE_FIELDS(&g_src[1]))) \
  __CPROVER_requires(SET_EQ(g_src_vec, (const void *)&t->v) && g_src_len <= N_MAX && VALID_TAG(&g_src[0]) && VALID_TAG(&g_src[1]) && __exc == 0 && __caught_n == 0 && g_clone_n == 0)

#ifdef JOB_COLLECTION
void _ZN4bloc10CollectionC2ERKS0_(struct Collection *this, const struct Collection *t)
COPY_REQUIRES
__CPROVER_assigns(__CPROVER_object_whole(this))
COPY_CLAUSES(Collection)
;
#endif
#ifdef JOB_TUPLE
void _ZN4bloc5TupleC2ERKS0_(struct Tuple *this, const struct Tuple *t)
COPY_REQUIRES
__CPROVER_assigns(__CPROVER_object_whole(this))
COPY_CLAUSES(Tuple)
;
#endif

#include FNS_C
