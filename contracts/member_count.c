/* contract of bloc::MemberCOUNTExpression::value  --  receiver.count() (C09, C10, C05, C02): the number of elements of a
 * table or tuple, of bytes of a string or bytes value; null for a null receiver; a BLOC error for anything else.  The
 * result is an integer temporary (or replaces the temporary receiver) and an owned receiver is only read. */
#define PAYLOAD_LITERAL
#define PAYLOAD_TABCHAR
#define PAYLOAD_COLLECTION
#define PAYLOAD_TUPLE
#define HAVE_STD_STRING
#define CONTAINERS_MODEL
#define RECEIVER_TUPLE_INV(t) (((unsigned long *)&(t)->v)[1] == g_tuple_len && g_tuple_len <= 0xfffffffful)
extern unsigned long g_tuple_len;
#include "prelude.h"
#include "containers.h"
unsigned long g_tuple_len;
#define RCV A1
struct Value *_ZNK4bloc21MemberCOUNTExpression5valueERNS_7ContextE(struct MemberCOUNTExpression *this, struct Context *ctx)
__CPROVER_requires(IS_FRESH(this, sizeof(*this)) && IS_FRESH(ctx, sizeof(*ctx)) && IS_FRESH(this->_base_MemberExpression._exp, sizeof(struct Expression)))
__CPROVER_requires(INPUT_STATE(g_nargs, g_tuple_len))
/* node invariant: the only constructor passes BTM_COUNT (= 4) to MemberExpression */
__CPROVER_requires(this->_base_MemberExpression._builtin == 4)
__CPROVER_requires(g_nargs == 0 && __exc == 0 && g_eval_n == 0 && __caught_n == 0 && GLOBALS_PINNED)
EVAL_ASSIGNS
ENS_ONLY_RT
PROP(C05) __CPROVER_ensures(g_eval_n <= 1 && (g_eval_n == 1 ==> g_eval_node[0] == this->_base_MemberExpression._exp))
/* a null receiver: a null integer */
PROP(C09, C04) __CPROVER_ensures((g_eval_n == 1 && V_ISNULL(RCV)) ==> (OK && V_ISNULL(RET)))
/* tables, strings, bytes: the size the container reported when it was evaluated; tuples: the number of items */
PROP(C09, C10) __CPROVER_ensures((g_eval_n == 1 && !V_ISNULL(RCV) && (V_LEVEL(RCV) > 0 || V_IS(RCV, LITERAL) || V_IS(RCV, TABCHAR))) ==> (OK && !V_ISNULL(RET) && V_I(RET) == (long)g_eval_size[0]))
PROP(C09) __CPROVER_ensures((g_eval_n == 1 && !V_ISNULL(RCV) && V_IS(RCV, ROWTYPE)) ==> (OK && !V_ISNULL(RET) && V_I(RET) == (long)g_tuple_len))
/* anything else is refused */
PROP(C09) __CPROVER_ensures((g_eval_n == 1 && !V_ISNULL(RCV) && V_LEVEL(RCV) == 0 && !V_IS(RCV, LITERAL) && !V_IS(RCV, TABCHAR) && !V_IS(RCV, ROWTYPE)) ==> THROWN_RT(EXC_RT_MEMB_ARG_TYPE_S))
ENS_TYPE(INTEGER)
ENS_FRAME1
ENS_OWN1
;

#include FNS_C
