/* parser_api.h -- stubs of the parser services that the statement / expression compilers under contract use (C16).
 * A TokenPtr (std::shared_ptr<Token>) keeps the Token it points to in word[0] (the position of _M_ptr in libstdc++).
 * Parser::pop yields at most POP_MAX tokens with arbitrary codes and ParseExpression::expression compiles at most 2
 * expressions: jobs that reach a loop over tokens are BOUNDED by these stubs. */
#ifndef PARSER_API_H
#define PARSER_API_H
#define POP_MAX 5
struct Token g_tok[POP_MAX + 2]; int g_pop_n, g_front_n, g_parse_expr_n, g_del_n;
struct Expression g_arg_expr[3];
const char *_ZN4bloc10ParseError11PARSE_ERRORE[64];   /* message formats: not read by any clause */
/* TokenPtr: word[0] of the shared_ptr is the Token it points to */
#define TOK_OF(tp) (*(struct Token **)(tp))
struct TokenPtr _ZN4bloc6Parser5frontEv(struct Parser *p)
{ struct TokenPtr t; (void)p; g_front_n++; TOK_OF(&t) = &g_tok[g_pop_n < POP_MAX ? g_pop_n : POP_MAX]; return t; }
struct TokenPtr _ZN4bloc6Parser3popEv(struct Parser *p)
{ struct TokenPtr t; (void)p; __CPROVER_assume(g_pop_n < POP_MAX); TOK_OF(&t) = &g_tok[g_pop_n]; g_pop_n++; return t; }   /* BOUND */
struct Token *_ZNKSt19__shared_ptr_accessIN4bloc5TokenELN9__gnu_cxx12_Lock_policyE2ELb0ELb0EEptEv(const struct TokenPtr *this) { return TOK_OF(this); }
void _ZNSt10shared_ptrIN4bloc5TokenEEC1ERKS2_(struct TokenPtr *this, const struct TokenPtr *o) { TOK_OF(this) = TOK_OF(o); }
void _ZNSt10shared_ptrIN4bloc5TokenEED1Ev(struct TokenPtr *this) { (void)this; }
struct TokenPtr *_ZNSt10shared_ptrIN4bloc5TokenEEaSEOS2_(struct TokenPtr *this, struct TokenPtr *o) { TOK_OF(this) = TOK_OF(o); return this; }
/* Expression * ParseExpression::expression(Parser&, Context&): compiles one argument, or fails with a ParseError */
char g_parse_error_obj[80];
struct Expression *_ZN4bloc15ParseExpression10expressionERNS_6ParserERNS_7ContextE(struct Parser *p, struct Context *ctx)
{
  (void)p; (void)ctx; __CPROVER_assume(g_parse_expr_n < 2);   /* BOUND: at most 2 arguments */
  if (__g2c_nondet_bool()) { __cxa_throw(g_parse_error_obj, G2C_EXC_ParseError, 0); return 0; }
  return &g_arg_expr[g_parse_expr_n++];
}
void _ZN4bloc3DBGEiPKcz(int level, const char *fmt, ...) { (void)level; (void)fmt; }
#ifndef OWN_DELETE_STUB
void VCALL_Expression_1(struct Expression *e) { (void)e; g_del_n++; }   /* delete e */
#endif
void _ZNSt9exceptionC2Ev(void *this) { (void)this; }
void _ZNSt9exceptionD2Ev(void *this) { (void)this; }
#endif
