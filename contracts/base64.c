/* contracts of bloc::b64decode and bloc::b64encode (blocc/builtin/base64.cpp) (C01, C10): defined for ANY bytes and any
 * length -- valid base64 or not, truncated or not: nothing is read outside [buf, buf + len) (the input is an object of
 * exactly len bytes here, so that CBMC's pointer checks see any access beyond it), every output byte is written inside
 * the size the output was given, and the output size is the one the format prescribes.
 * Inputs of at most B_MAX bytes, loops unwound: BOUNDED (every content, every length 0..B_MAX). */
#include "prelude_lite.h"
#define B_MAX 6
unsigned long g_out_size; _Bool g_out_assigned; char g_out[16];
/* std::vector<char>::assign(n, c) / operator[] and std::string::assign(n, c) / operator[] on the output */
void _ZNSt6vectorIcSaIcEE6assignEmRKc(void *this, unsigned long n, const char *c) { (void)this; __CPROVER_assert(n <= 12, "model: output fits"); g_out_size = n; g_out_assigned = 1; for (int k = 0; k < 12; ++k) g_out[k] = *c; }
char *_ZNSt6vectorIcSaIcEEixEm(void *this, unsigned long i) { (void)this; __CPROVER_assert(i < g_out_size, "std::vector<char>::operator[]: index within size() (undefined behaviour otherwise)"); return &g_out[i]; }
void *_ZNSt7__cxx1112basic_stringIcSt11char_traitsIcESaIcEE6assignEmc(void *this, unsigned long n, char c) { __CPROVER_assert(n <= 12, "model: output fits"); g_out_size = n; g_out_assigned = 1; for (int k = 0; k < 12; ++k) g_out[k] = c; return this; }
char *_ZNSt7__cxx1112basic_stringIcSt11char_traitsIcESaIcEEixEm(void *this, unsigned long i) { (void)this; __CPROVER_assert(i < g_out_size, "std::string::operator[]: a byte of the string is written (index below size())"); return &g_out[i]; }

#ifdef JOB_DEC
#ifdef B64_CHAR_SIGNATURE   /* the same function declared with const char* (another mangled name) */
void _ZN4bloc9b64decodeEPKcmRSt6vectorIcSaIcEE(const char *b64, unsigned long len, void *data)
#else
void _ZN4bloc9b64decodeEPKvmRSt6vectorIcSaIcEE(const void *b64, unsigned long len, void *data)
#endif
__CPROVER_requires(len <= B_MAX && IS_FRESH(data, 24) && __exc == 0)
__CPROVER_requires(len > 0 ==> IS_FRESH(b64, len))
__CPROVER_assigns()
PROP(C01, C10) __CPROVER_ensures(OK)
/* 3 bytes per full group of 4, 1 or 2 for a last partial / padded group; nothing for an empty input */
PROP(C10) __CPROVER_ensures(len == 0 ==> !g_out_assigned)
PROP(C10) __CPROVER_ensures(len > 0 ==> (g_out_assigned && g_out_size <= (len / 4) * 3 + 2 && g_out_size + 2 >= (len / 4) * 3))
;
#endif
#ifdef JOB_ENC
void _ZN4bloc9b64encodeEPKvmRNSt7__cxx1112basic_stringIcSt11char_traitsIcESaIcEEE(const void *data, unsigned long len, void *b64)
__CPROVER_requires(len <= B_MAX && IS_FRESH(b64, 32) && __exc == 0)
__CPROVER_requires(len > 0 ==> IS_FRESH(data, len))
__CPROVER_assigns()
PROP(C01, C10) __CPROVER_ensures(OK)
/* 4 characters per group of 3 bytes, the last group padded with '=' */
PROP(C10) __CPROVER_ensures(g_out_assigned && g_out_size == (len + 2) / 3 * 4)
PROP(C10) __CPROVER_ensures((len % 3 == 1) ==> (g_out[g_out_size - 1] == '=' && g_out[g_out_size - 2] == '='))
PROP(C10) __CPROVER_ensures((len % 3 == 2) ==> (g_out[g_out_size - 1] == '=' && g_out[g_out_size - 2] != '='))
PROP(C10) __CPROVER_ensures((len % 3 == 0 && len > 0) ==> g_out[g_out_size - 1] != '=')
;
#endif

#include FNS_C
