/* containers.h -- ASSUMED API-level model of the libstdc++ containers that member methods and builtins use.
 *
 * A container object is opaque to rendered code (it only ever passes its address to these functions), so the
 * model keeps its own data inside the opaque bytes:
 *   std::string            word[1] = size()        (the other bytes stand for the contents: a mutation havocs them)
 *   std::vector<char>      word[1] = size()
 *   std::vector<Value>     word[1] = size();  every element is represented by ONE ghost element g_tab_elem
 *                          (DESIGN 3.1: "all elements" is one nondeterministic element)
 *   __normal_iterator      word[0] = index into its container
 * What the model states is what the C++ standard / libstdc++ documentation states for each call: preconditions
 * whose violation is undefined behaviour are ASSERTED (operator[] / erase / insert positions, front/back on
 * empty), checked accessors (at, substr, replace, insert(pos,..)) THROW std::out_of_range.  Contents are not
 * modelled: no claim here depends on which bytes a string holds. */
#ifndef CONTAINERS_H
#define CONTAINERS_H
int __g2c_nondet_int(void); _Bool __g2c_nondet_bool(void); unsigned long __g2c_nondet_ulong(void); char __g2c_nondet_char(void);
struct std_string; struct vec_char; struct vec_Value; struct vec_ExpressionPtr;

#define CW(p, k) (((unsigned long *)(p))[k])
#define SZ(p) CW(p, 1)
#define LIVE(p, n, what) __CPROVER_assert(__CPROVER_rw_ok((p), (n)), what ": the container is a live object")
#define MAXLEN 0x7fffffffffffffful

char _ZTISt12out_of_range_obj[16];
static void __throw_out_of_range(void) { __cxa_throw(_ZTISt12out_of_range_obj, G2C_EXC_out_of_range, 0); }
static void __havoc_str(struct std_string *s) { CW(s, 0) = __g2c_nondet_ulong(); CW(s, 2) = __g2c_nondet_ulong(); CW(s, 3) = __g2c_nondet_ulong(); }

/* ---------------- std::allocator<char> ---------------- */
void _ZNSaIcEC1Ev(void *this) { (void)this; }
void _ZNSaIcED1Ev(void *this) { (void)this; }

#ifndef VEC_AT_HOOK
#define VEC_AT_HOOK(vec, n)   /* a contract may record which element std::vector<Value>::at was asked for */
#endif
#ifndef STR_FROM_CSTR_HOOK
#define STR_FROM_CSTR_HOOK(str, cstr)
#endif
/* ---------------- std::string ---------------- */
void _ZNSt7__cxx1112basic_stringIcSt11char_traitsIcESaIcEEC1Ev(struct std_string *this) { SZ(this) = 0; CW(this, 0) = 0; /* content identity of the empty string (strid.h) */ }
void _ZNSt7__cxx1112basic_stringIcSt11char_traitsIcESaIcEED1Ev(struct std_string *this) { LIVE(this, 32, "std::string::~string"); }
/* string(const char*, const allocator&) : any length */
void _ZNSt7__cxx1112basic_stringIcSt11char_traitsIcESaIcEEC1EPKcRKS3_(struct std_string *this, const char *s, const void *a)
{ (void)a; __CPROVER_assert(s != 0, "std::string(const char*): construction from null is not valid"); SZ(this) = __g2c_nondet_ulong(); __CPROVER_assume(SZ(this) <= MAXLEN); __havoc_str(this); STR_FROM_CSTR_HOOK(this, s) }
/* string(const char* s, size_t n, const allocator&): copies exactly n bytes from s */
void _ZNSt7__cxx1112basic_stringIcSt11char_traitsIcESaIcEEC1EPKcmRKS3_(struct std_string *this, const char *s, unsigned long n, const void *a)
{ (void)a; __CPROVER_assert(n == 0 || __CPROVER_r_ok(s, n), "std::string(const char*, n): the n bytes are readable"); __CPROVER_assume(n <= MAXLEN); SZ(this) = n; __havoc_str(this); }
/* string(const string&) */
void _ZNSt7__cxx1112basic_stringIcSt11char_traitsIcESaIcEEC1ERKS4_(struct std_string *this, const struct std_string *o)
{ LIVE((void *)o, 32, "std::string(const string&)"); CW(this, 0) = CW(o, 0); CW(this, 1) = CW(o, 1); CW(this, 2) = CW(o, 2); CW(this, 3) = CW(o, 3); }
/* string(size_t n, char c, const allocator&) */
void _ZNSt7__cxx1112basic_stringIcSt11char_traitsIcESaIcEEC1EmcRKS3_(struct std_string *this, unsigned long n, char c, const void *a)
{ (void)a; (void)c; SZ(this) = n; __havoc_str(this); }
unsigned long _ZNKSt7__cxx1112basic_stringIcSt11char_traitsIcESaIcEE4sizeEv(const struct std_string *this) { LIVE((void *)this, 32, "std::string::size"); return SZ(this); }
char g_cstr[8]; unsigned long g_cstr_id, g_cstr_len;   /* the (one) c_str() result and the content identity it stands for (strid.h) */
const char *_ZNKSt7__cxx1112basic_stringIcSt11char_traitsIcESaIcEE5c_strEv(const struct std_string *this) { LIVE((void *)this, 32, "std::string::c_str"); g_cstr_id = CW(this, 0); g_cstr_len = SZ(this); return g_cstr; }
struct std_string *_ZNSt7__cxx1112basic_stringIcSt11char_traitsIcESaIcEE6appendERKS4_(struct std_string *this, const struct std_string *s)
{ LIVE(this, 32, "std::string::append"); LIVE((void *)s, 32, "std::string::append(arg)"); __CPROVER_assume(SZ(this) + SZ(s) <= MAXLEN); SZ(this) = SZ(this) + SZ(s); __havoc_str(this); return this; }
struct std_string *_ZNSt7__cxx1112basic_stringIcSt11char_traitsIcESaIcEE6appendEmc(struct std_string *this, unsigned long n, char c)
{ (void)c; LIVE(this, 32, "std::string::append(n,c)"); __CPROVER_assume(SZ(this) + n <= MAXLEN); SZ(this) = SZ(this) + n; __havoc_str(this); return this; }
struct std_string *_ZNSt7__cxx1112basic_stringIcSt11char_traitsIcESaIcEE6assignERKS4_(struct std_string *this, const struct std_string *s)
{ LIVE(this, 32, "std::string::assign"); LIVE((void *)s, 32, "std::string::assign(arg)"); CW(this, 0) = CW(s, 0); CW(this, 1) = CW(s, 1); CW(this, 2) = CW(s, 2); CW(this, 3) = CW(s, 3); return this; }
/* string& operator=(const string&) */
struct std_string *_ZNSt7__cxx1112basic_stringIcSt11char_traitsIcESaIcEEaSERKS4_(struct std_string *this, const struct std_string *s)
{ LIVE(this, 32, "std::string::operator="); LIVE((void *)s, 32, "std::string::operator=(arg)"); CW(this, 0) = CW(s, 0); CW(this, 1) = CW(s, 1); CW(this, 2) = CW(s, 2); CW(this, 3) = CW(s, 3); return this; }
/* string substr(pos, n) const: throws out_of_range if pos > size(); the copy has min(n, size() - pos) characters */
struct std_string _ZNKSt7__cxx1112basic_stringIcSt11char_traitsIcESaIcEE6substrEmm(const struct std_string *this, unsigned long pos, unsigned long n)
{
  struct std_string r; LIVE((void *)this, 32, "std::string::substr");
  CW(&r, 0) = __g2c_nondet_ulong(); CW(&r, 2) = __g2c_nondet_ulong(); CW(&r, 3) = __g2c_nondet_ulong(); SZ(&r) = 0;
  if (pos > SZ(this)) { __throw_out_of_range(); return r; }
  unsigned long rem = SZ(this) - pos; SZ(&r) = n < rem ? n : rem; return r;
}
void _ZNSt7__cxx1112basic_stringIcSt11char_traitsIcESaIcEE5clearEv(struct std_string *this) { LIVE(this, 32, "std::string::clear"); SZ(this) = 0; __havoc_str(this); CW(this, 0) = 0; }
/* string& assign(string&&) / string(string&&): the contents move, the source is left valid but unspecified */
struct std_string *_ZNSt7__cxx1112basic_stringIcSt11char_traitsIcESaIcEE6assignEOS4_(struct std_string *this, struct std_string *s)
{ LIVE(this, 32, "std::string::assign(&&)"); LIVE(s, 32, "std::string::assign(&&)(arg)"); CW(this, 0) = CW(s, 0); CW(this, 1) = CW(s, 1); CW(this, 2) = CW(s, 2); CW(this, 3) = CW(s, 3); if (this != s) { SZ(s) = __g2c_nondet_ulong(); __CPROVER_assume(SZ(s) <= MAXLEN); } return this; }
void _ZNSt7__cxx1112basic_stringIcSt11char_traitsIcESaIcEEC1EOS4_(struct std_string *this, struct std_string *s)
{ LIVE(s, 32, "std::string(string&&)"); CW(this, 0) = CW(s, 0); CW(this, 1) = CW(s, 1); CW(this, 2) = CW(s, 2); CW(this, 3) = CW(s, 3); SZ(s) = 0; }
_Bool _ZNKSt7__cxx1112basic_stringIcSt11char_traitsIcESaIcEE5emptyEv(const struct std_string *this) { LIVE((void *)this, 32, "std::string::empty"); return SZ(this) == 0; }
void _ZNSt7__cxx1112basic_stringIcSt11char_traitsIcESaIcEE7reserveEm(struct std_string *this, unsigned long n) { LIVE(this, 32, "std::string::reserve"); (void)n; }
/* string& append(const char* s): the characters up to the first zero byte -- for a pointer into the c_str() of a string at offset o that is
 * SOME length up to size - o (a std::string may hold zero bytes), for any other C string some length */
struct std_string *_ZNSt7__cxx1112basic_stringIcSt11char_traitsIcESaIcEE6appendEPKc(struct std_string *this, const char *s)
{
  LIVE(this, 32, "std::string::append(const char*)"); __CPROVER_assert(s != 0, "std::string::append(const char*): a null pointer is not valid");
  unsigned long k = __g2c_nondet_ulong();
  if (__CPROVER_same_object(s, g_cstr)) { unsigned long o = (unsigned long)__CPROVER_POINTER_OFFSET(s); __CPROVER_assert(o <= g_cstr_len, "c_str() + offset stays inside the string"); __CPROVER_assume(k <= g_cstr_len - o); }
  __CPROVER_assume(k <= MAXLEN && SZ(this) + k <= MAXLEN); SZ(this) = SZ(this) + k; __havoc_str(this); return this;
}
/* string& append(const string& s, size_t pos, size_t n): the part of s from pos, at most n characters; pos beyond size(s) is std::out_of_range */
struct std_string *_ZNSt7__cxx1112basic_stringIcSt11char_traitsIcESaIcEE6appendERKS4_mm(struct std_string *this, const struct std_string *s, unsigned long pos, unsigned long n)
{
  LIVE(this, 32, "std::string::append(s,pos,n)"); LIVE((void *)s, 32, "std::string::append(arg,pos,n)");
  if (pos > SZ(s)) { __throw_out_of_range(); return this; }
  unsigned long k = SZ(s) - pos; if (n < k) k = n;
  __CPROVER_assume(SZ(this) + k <= MAXLEN); SZ(this) = SZ(this) + k; __havoc_str(this); return this;
}
/* loop variant of a scan (FIND_SCAN_VARIANT): a text that is searched again is searched from a later position -- a search loop that
 * does not advance never ends */
unsigned long g_find_n, g_find_prev_pos, g_find_hits; const void *g_find_prev_this;   /* g_find_hits: searches that found an occurrence */
/* size_t find(const string&, size_t pos) const: npos or a position p with p + size(s) <= size() */
unsigned long _ZNKSt7__cxx1112basic_stringIcSt11char_traitsIcESaIcEE4findERKS4_m(const struct std_string *this, const struct std_string *s, unsigned long pos)
{ LIVE((void *)this, 32, "std::string::find"); LIVE((void *)s, 32, "std::string::find(arg)"); (void)pos;
#ifdef FIND_SCAN_VARIANT
  __CPROVER_assert(g_find_n == 0 || (const void *)this != g_find_prev_this || pos > g_find_prev_pos, "scan variant: a repeated search of the same text starts behind the previous start (the loop ends)");
  g_find_n++; g_find_prev_pos = pos; g_find_prev_this = this;
#endif
  unsigned long p = __g2c_nondet_ulong(); if (__g2c_nondet_bool()) return ~0ul; __CPROVER_assume(p >= pos && p <= SZ(this) && SZ(s) <= SZ(this) - p); g_find_hits++; return p; }
/* std::stod / std::stoll / std::stoull: a number, or std::invalid_argument / std::out_of_range */
double __g2c_nondet_double(void); long __g2c_nondet_long(void);
char _ZTISt16invalid_argument_obj[16];
/* what the text of the string is, decided when it is first looked at and remembered: a numeral or not, and inside the range of the
 * result type or not -- std::sto* and the C library's strto* agree on both (C++11 [string.conversions]: sto* call strto*) */
int g_sto_calls; _Bool g_sto_is_numeral, g_sto_in_range;
static void __sto_look(void) { if (g_sto_calls == 0) { g_sto_is_numeral = __g2c_nondet_bool(); g_sto_in_range = __g2c_nondet_bool(); } g_sto_calls++; }
static _Bool __sto_fails(void)
{
  __sto_look();
  if (!g_sto_is_numeral) { __cxa_throw(_ZTISt16invalid_argument_obj, G2C_EXC_invalid_argument, 0); return 1; }
  if (!g_sto_in_range) { __throw_out_of_range(); return 1; }
  return 0;
}
/* double strtod(const char *s, char **end): no conversion leaves *end == s; a numeral outside the range sets errno to ERANGE */
int g_errno_model;
int *__errno_location(void) { return &g_errno_model; }
double strtod(const char *s, char **end)
{ __sto_look(); if (end) *end = (char *)s + (g_sto_is_numeral ? 1 : 0); if (g_sto_is_numeral && !g_sto_in_range) g_errno_model = 34 /* ERANGE */; return __g2c_nondet_double(); }
double _ZNSt7__cxx114stodERKNS_12basic_stringIcSt11char_traitsIcESaIcEEEPm(const struct std_string *s, unsigned long *idx)
{ LIVE((void *)s, 32, "std::stod"); if (__sto_fails()) return 0.0; if (idx) *idx = __g2c_nondet_ulong(); return __g2c_nondet_double(); }
long _ZNSt7__cxx115stollERKNS_12basic_stringIcSt11char_traitsIcESaIcEEEPmi(const struct std_string *s, unsigned long *idx, int base)
{ (void)base; LIVE((void *)s, 32, "std::stoll"); if (__sto_fails()) return 0; if (idx) *idx = __g2c_nondet_ulong(); return __g2c_nondet_long(); }
unsigned long _ZNSt7__cxx116stoullERKNS_12basic_stringIcSt11char_traitsIcESaIcEEEPmi(const struct std_string *s, unsigned long *idx, int base)
{ (void)base; LIVE((void *)s, 32, "std::stoull"); if (__sto_fails()) return 0; if (idx) *idx = __g2c_nondet_ulong(); return __g2c_nondet_ulong(); }
/* replace(pos, n1, n2, c): throws out_of_range if pos > size() */
struct std_string *_ZNSt7__cxx1112basic_stringIcSt11char_traitsIcESaIcEE7replaceEmmmc(struct std_string *this, unsigned long pos, unsigned long n1, unsigned long n2, char c)
{
  (void)c; LIVE(this, 32, "std::string::replace");
  if (pos > SZ(this)) { __throw_out_of_range(); return this; }
  unsigned long rem = SZ(this) - pos; unsigned long cut = n1 < rem ? n1 : rem;
  __CPROVER_assume(SZ(this) - cut + n2 <= MAXLEN);
  SZ(this) = SZ(this) - cut + n2; __havoc_str(this); return this;
}
/* insert(pos, n, c) / insert(pos, const string&): throw out_of_range if pos > size() */
struct std_string *_ZNSt7__cxx1112basic_stringIcSt11char_traitsIcESaIcEE6insertEmmc(struct std_string *this, unsigned long pos, unsigned long n, char c)
{ (void)c; LIVE(this, 32, "std::string::insert"); if (pos > SZ(this)) { __throw_out_of_range(); return this; } __CPROVER_assume(SZ(this) + n <= MAXLEN); SZ(this) += n; __havoc_str(this); return this; }
struct std_string *_ZNSt7__cxx1112basic_stringIcSt11char_traitsIcESaIcEE6insertEmRKS4_(struct std_string *this, unsigned long pos, const struct std_string *s)
{ LIVE(this, 32, "std::string::insert"); LIVE((void *)s, 32, "std::string::insert(arg)"); if (pos > SZ(this)) { __throw_out_of_range(); return this; } __CPROVER_assume(SZ(this) + SZ(s) <= MAXLEN); SZ(this) += SZ(s); __havoc_str(this); return this; }
/* char& at(n): throws out_of_range if n >= size() */
char g_str_char;
char *_ZNSt7__cxx1112basic_stringIcSt11char_traitsIcESaIcEE2atEm(struct std_string *this, unsigned long n)
{ LIVE(this, 32, "std::string::at"); if (n >= SZ(this)) { __throw_out_of_range(); return &g_str_char; } g_str_char = __g2c_nondet_char(); return &g_str_char; }
/* iterators: an index */
struct str_iter { unsigned long idx; };
#define DEF_BEGIN_END(ITER_T, CONT_T, BEGIN, END) \
  struct ITER_T BEGIN(struct CONT_T *this) { struct ITER_T it; CW(&it, 0) = 0; LIVE(this, 24, #BEGIN); return it; } \
  struct ITER_T END(struct CONT_T *this) { struct ITER_T it; LIVE(this, 24, #END); CW(&it, 0) = SZ(this); return it; }
#define DEF_ITER_PLUS(ITER_T, NAME) \
  struct ITER_T NAME(const struct ITER_T *this, long n) { struct ITER_T it; CW(&it, 0) = CW(this, 0) + (unsigned long)n; return it; }

#ifndef CONTAINERS_STRINGS_ONLY   /* translation units without bloc::Value / Expression use the string model alone */
/* ---------------- std::vector<bloc::Expression*> (the argument list of a builtin / member node) ---------------- */
#define ARGS_MAX 4
struct Expression g_arg_node[ARGS_MAX]; struct Expression *g_args[ARGS_MAX] = { &g_arg_node[0], &g_arg_node[1], &g_arg_node[2], &g_arg_node[3] }; unsigned long g_nargs;
#define ARGS_PINNED (g_nargs <= ARGS_MAX && g_args[0] == &g_arg_node[0] && g_args[1] == &g_arg_node[1] && g_args[2] == &g_arg_node[2] && g_args[3] == &g_arg_node[3])
struct Expression **_ZNKSt6vectorIPN4bloc10ExpressionESaIS2_EEixEm(const struct vec_ExpressionPtr *this, unsigned long n)
{ (void)this; __CPROVER_assert(n < g_nargs, "std::vector<Expression*>::operator[]: index within size() (undefined behaviour otherwise)"); return &g_args[n]; }
unsigned long _ZNKSt6vectorIPN4bloc10ExpressionESaIS2_EE4sizeEv(const struct vec_ExpressionPtr *this) { (void)this; return g_nargs; }
_Bool _ZNKSt6vectorIPN4bloc10ExpressionESaIS2_EE5emptyEv(const struct vec_ExpressionPtr *this) { (void)this; return g_nargs == 0; }

/* ---------------- std::vector<char> ---------------- */
unsigned long _ZNKSt6vectorIcSaIcEE4sizeEv(const struct vec_char *this) { LIVE((void *)this, 24, "std::vector<char>::size"); return SZ(this); }
char g_vec_char;
char *_ZNSt6vectorIcSaIcEE2atEm(struct vec_char *this, unsigned long n)
{ LIVE(this, 24, "std::vector<char>::at"); if (n >= SZ(this)) { __throw_out_of_range(); return &g_vec_char; } g_vec_char = __g2c_nondet_char(); return &g_vec_char; }
void _ZNSt6vectorIcSaIcEED1Ev(struct vec_char *this) { LIVE(this, 24, "std::vector<char>::~vector"); }
void _ZNSt6vectorIcSaIcEEC1ERKS1_(struct vec_char *this, const struct vec_char *o) { LIVE((void *)o, 24, "std::vector<char>(const vector&)"); CW(this, 0) = CW(o, 0); CW(this, 1) = CW(o, 1); CW(this, 2) = CW(o, 2); }

/* data(): a buffer of exactly size() bytes (reads beyond it are caught by the bounds checks) */
const char *_ZNKSt7__cxx1112basic_stringIcSt11char_traitsIcESaIcEE4dataEv(const struct std_string *this)
{ LIVE((void *)this, 32, "std::string::data"); __CPROVER_assume(SZ(this) <= 0xffffffful); return (const char *)__CPROVER_allocate(SZ(this) + 1, 0); }
char *_ZNSt6vectorIcSaIcEE4dataEv(struct vec_char *this)
{ LIVE(this, 24, "std::vector<char>::data"); __CPROVER_assume(SZ(this) <= 0xffffffful); return (char *)__CPROVER_allocate(SZ(this), 0); }

/* ---------------- std::vector<bloc::Value> (the storage of a table) ---------------- */
/* g_tab_elem (contracts/iface.h) stands for every element of the table */
unsigned long _ZNKSt6vectorIN4bloc5ValueESaIS1_EE4sizeEv(const struct vec_Value *this) { LIVE((void *)this, 24, "std::vector<Value>::size"); return SZ(this); }
struct Value *_ZNSt6vectorIN4bloc5ValueESaIS1_EE2atEm(struct vec_Value *this, unsigned long n)
{ LIVE(this, 24, "std::vector<Value>::at"); VEC_AT_HOOK(this, n) if (n >= SZ(this)) { __throw_out_of_range(); return &g_tab_elem; } return &g_tab_elem; }

/* ---------------- iterators: begin(), it + n, conversion to const_iterator, erase(it) ----------------
 * an iterator is the index of the element it designates; erase(pos) requires pos to be dereferenceable
 * (erase(end()) is undefined behaviour) */
#ifdef ITERATOR_MODEL
#ifndef G2C_HAVE_str_iterator
struct str_iterator { _Alignas(8) unsigned char __opaque[8]; };   /* __normal_iterator: one pointer */
#endif
#ifndef G2C_HAVE_str_citerator
struct str_citerator { _Alignas(8) unsigned char __opaque[8]; };   /* __normal_iterator: one pointer */
#endif
#ifndef G2C_HAVE_vchar_iterator
struct vchar_iterator { _Alignas(8) unsigned char __opaque[8]; };   /* __normal_iterator: one pointer */
#endif
#ifndef G2C_HAVE_vchar_citerator
struct vchar_citerator { _Alignas(8) unsigned char __opaque[8]; };   /* __normal_iterator: one pointer */
#endif
#ifndef G2C_HAVE_vval_iterator
struct vval_iterator { _Alignas(8) unsigned char __opaque[8]; };   /* __normal_iterator: one pointer */
#endif
#ifndef G2C_HAVE_vval_citerator
struct vval_citerator { _Alignas(8) unsigned char __opaque[8]; };   /* __normal_iterator: one pointer */
#endif
#define ITER_IDX(it) CW(it, 0)
unsigned long g_walk_size = ~0ul;
struct str_iterator _ZNSt7__cxx1112basic_stringIcSt11char_traitsIcESaIcEE5beginEv(struct std_string *this) { struct str_iterator it; LIVE(this, 32, "std::string::begin"); ITER_IDX(&it) = 0; g_walk_size = SZ(this); return it; }
struct vchar_iterator _ZNSt6vectorIcSaIcEE5beginEv(struct vec_char *this) { struct vchar_iterator it; LIVE(this, 24, "std::vector<char>::begin"); ITER_IDX(&it) = 0; return it; }
struct vval_iterator _ZNSt6vectorIN4bloc5ValueESaIS1_EE5beginEv(struct vec_Value *this) { struct vval_iterator it; LIVE(this, 24, "std::vector<Value>::begin"); ITER_IDX(&it) = 0; return it; }
struct str_iterator _ZNK9__gnu_cxx17__normal_iteratorIPcNSt7__cxx1112basic_stringIcSt11char_traitsIcESaIcEEEEplEl(const struct str_iterator *this, long n) { struct str_iterator it; ITER_IDX(&it) = ITER_IDX(this) + (unsigned long)n; return it; }
struct vchar_iterator _ZNK9__gnu_cxx17__normal_iteratorIPcSt6vectorIcSaIcEEEplEl(const struct vchar_iterator *this, long n) { struct vchar_iterator it; ITER_IDX(&it) = ITER_IDX(this) + (unsigned long)n; return it; }
struct vval_iterator _ZNK9__gnu_cxx17__normal_iteratorIPN4bloc5ValueESt6vectorIS2_SaIS2_EEEplEl(const struct vval_iterator *this, long n) { struct vval_iterator it; ITER_IDX(&it) = ITER_IDX(this) + (unsigned long)n; return it; }
void _ZN9__gnu_cxx17__normal_iteratorIPKcNSt7__cxx1112basic_stringIcSt11char_traitsIcESaIcEEEEC1IPcvEERKNS0_IT_S8_EE(struct str_citerator *this, const struct str_iterator *o) { ITER_IDX(this) = ITER_IDX(o); }
void _ZN9__gnu_cxx17__normal_iteratorIPKcSt6vectorIcSaIcEEEC1IPcvEERKNS0_IT_S5_EE(struct vchar_citerator *this, const struct vchar_iterator *o) { ITER_IDX(this) = ITER_IDX(o); }
void _ZN9__gnu_cxx17__normal_iteratorIPKN4bloc5ValueESt6vectorIS2_SaIS2_EEEC1IPS2_vEERKNS0_IT_S7_EE(struct vval_citerator *this, const struct vval_iterator *o) { ITER_IDX(this) = ITER_IDX(o); }
struct str_iterator _ZNSt7__cxx1112basic_stringIcSt11char_traitsIcESaIcEE5eraseEN9__gnu_cxx17__normal_iteratorIPKcS4_EE(struct std_string *this, struct str_citerator pos)
{ struct str_iterator it; LIVE(this, 32, "std::string::erase"); __CPROVER_assert(ITER_IDX(&pos) < SZ(this), "std::string::erase(iterator): the position is dereferenceable (erase(end()) is undefined)"); SZ(this) = SZ(this) - 1; __havoc_str(this); ITER_IDX(&it) = ITER_IDX(&pos); return it; }
struct vchar_iterator _ZNSt6vectorIcSaIcEE5eraseEN9__gnu_cxx17__normal_iteratorIPKcS1_EE(struct vec_char *this, struct vchar_citerator pos)
{ struct vchar_iterator it; LIVE(this, 24, "std::vector<char>::erase"); __CPROVER_assert(ITER_IDX(&pos) < SZ(this), "std::vector<char>::erase(iterator): the position is dereferenceable (erase(end()) is undefined)"); SZ(this) = SZ(this) - 1; CW(this, 0) = __g2c_nondet_ulong(); ITER_IDX(&it) = ITER_IDX(&pos); return it; }
/* std::transform(first, last, out, int(*)(int)) over the characters of one string: the characters change, the length does not */
struct str_iterator _ZSt9transformIN9__gnu_cxx17__normal_iteratorIPcNSt7__cxx1112basic_stringIcSt11char_traitsIcESaIcEEEEES9_PFiiEET0_T_SD_SC_T1_(struct str_iterator first, struct str_iterator last, struct str_iterator out, void *fn)
{ (void)fn; __CPROVER_assert(ITER_IDX(&first) <= ITER_IDX(&last), "std::transform: [first, last) is a valid range"); struct str_iterator r; ITER_IDX(&r) = ITER_IDX(&out) + (ITER_IDX(&last) - ITER_IDX(&first)); return r; }
/* std::vector<char>: constructors, push_back, clear, erase(first, last), range constructor */
void _ZNSt6vectorIcSaIcEEC1Ev(struct vec_char *this) { SZ(this) = 0; CW(this, 0) = 0; }
void _ZNSt6vectorIcSaIcEEC1EmRKcRKS0_(struct vec_char *this, unsigned long n, const char *c, const void *a) { (void)c; (void)a; SZ(this) = n; CW(this, 0) = __g2c_nondet_ulong(); }
void _ZNSt6vectorIcSaIcEEC1EmRKS0_(struct vec_char *this, unsigned long n, const void *a) { (void)a; SZ(this) = n; CW(this, 0) = 0; }
void _ZNSt6vectorIcSaIcEE9push_backEOc(struct vec_char *this, char *c) { (void)c; LIVE(this, 24, "std::vector<char>::push_back"); __CPROVER_assume(SZ(this) < MAXLEN); SZ(this) = SZ(this) + 1; CW(this, 0) = __g2c_nondet_ulong(); }
void _ZNSt6vectorIcSaIcEE5clearEv(struct vec_char *this) { LIVE(this, 24, "std::vector<char>::clear"); SZ(this) = 0; CW(this, 0) = 0; }
void _ZNSt6vectorIcSaIcEEC1IN9__gnu_cxx17__normal_iteratorIPcS1_EEvEET_S7_RKS0_(struct vec_char *this, struct vchar_iterator first, struct vchar_iterator last, const void *a)
{ (void)a; __CPROVER_assert(ITER_IDX(&first) <= ITER_IDX(&last), "std::vector<char>(first, last): [first, last) is a valid range"); SZ(this) = ITER_IDX(&last) - ITER_IDX(&first); CW(this, 0) = __g2c_nondet_ulong(); }
struct vchar_iterator _ZNSt6vectorIcSaIcEE5eraseEN9__gnu_cxx17__normal_iteratorIPKcS1_EES6_(struct vec_char *this, struct vchar_citerator first, struct vchar_citerator last)
{ struct vchar_iterator it; LIVE(this, 24, "std::vector<char>::erase(range)"); __CPROVER_assert(ITER_IDX(&first) <= ITER_IDX(&last) && ITER_IDX(&last) <= SZ(this), "std::vector<char>::erase(first, last): a valid range of this vector");
  SZ(this) = SZ(this) - (ITER_IDX(&last) - ITER_IDX(&first)); CW(this, 0) = __g2c_nondet_ulong(); ITER_IDX(&it) = ITER_IDX(&first); return it; }
/* void assign(first, last) from a string's characters */
void _ZNSt6vectorIcSaIcEE6assignIN9__gnu_cxx17__normal_iteratorIPcNSt7__cxx1112basic_stringIcSt11char_traitsIcES0_EEEEvEEvT_SC_(struct vec_char *this, struct str_iterator first, struct str_iterator last)
{ LIVE(this, 24, "std::vector<char>::assign(range)"); __CPROVER_assert(ITER_IDX(&first) <= ITER_IDX(&last), "std::vector<char>::assign: [first, last) is a valid range"); SZ(this) = ITER_IDX(&last) - ITER_IDX(&first); CW(this, 0) = __g2c_nondet_ulong(); }
#ifdef G2C_HAVE_Value
/* Value::Value(TabChar*) : takes ownership of a byte buffer */
void _ZN4bloc5ValueC1EPSt6vectorIcSaIcEE(struct Value *this, struct vec_char *v)
{ this->_type._vptr_Type = 0; this->_type._major = 6; this->_type._minor = 0; this->_type._level = 0; this->_flags = v ? 1 : 0; this->_value.p = v; }
#endif
/* walking a string through a const_iterator: ++, != (against an iterator), *; the character read is arbitrary (contents are
 * not modelled).  The position dereferenced must be inside [begin, end): *end() is undefined for an iterator. */
struct str_citerator *_ZN9__gnu_cxx17__normal_iteratorIPKcNSt7__cxx1112basic_stringIcSt11char_traitsIcESaIcEEEEppEv(struct str_citerator *this) { ITER_IDX(this) = ITER_IDX(this) + 1; return this; }
_Bool _ZN9__gnu_cxxneIPKcPcNSt7__cxx1112basic_stringIcSt11char_traitsIcESaIcEEEEEbRKNS_17__normal_iteratorIT_T1_EERKNSA_IT0_SC_EE(const struct str_citerator *a, const struct str_iterator *b) { return ITER_IDX(a) != ITER_IDX(b); }
/* libstdc++ string iterators are pointers into a NUL-terminated buffer: reading the position size() yields '\0'
 * (ASSUMED defined, as data()[size()] is); any position beyond it is out of bounds.  g_walk_size is the size of the
 * string whose begin() was taken last. */
const char *_ZNK9__gnu_cxx17__normal_iteratorIPKcNSt7__cxx1112basic_stringIcSt11char_traitsIcESaIcEEEEdeEv(const struct str_citerator *this)
{ __CPROVER_assert(ITER_IDX(this) <= g_walk_size, "string const_iterator dereferenced inside [begin, end] (the terminator may be read)");
  g_str_char = (ITER_IDX(this) == g_walk_size) ? 0 : __g2c_nondet_char(); return &g_str_char; }
/* end(), insert(pos, value), insert(pos, first, last): positions up to size() are valid; the range [first, last) is read from another container */
struct vchar_iterator _ZNSt6vectorIcSaIcEE3endEv(struct vec_char *this) { struct vchar_iterator it; LIVE(this, 24, "std::vector<char>::end"); ITER_IDX(&it) = SZ(this); return it; }
struct str_iterator _ZNSt7__cxx1112basic_stringIcSt11char_traitsIcESaIcEE3endEv(struct std_string *this) { struct str_iterator it; LIVE(this, 32, "std::string::end"); ITER_IDX(&it) = SZ(this); return it; }
struct vchar_iterator _ZNSt6vectorIcSaIcEE6insertEN9__gnu_cxx17__normal_iteratorIPKcS1_EEOc(struct vec_char *this, struct vchar_citerator pos, char *c)
{ struct vchar_iterator it; (void)c; LIVE(this, 24, "std::vector<char>::insert"); __CPROVER_assert(ITER_IDX(&pos) <= SZ(this), "std::vector<char>::insert(iterator, c): the position is within [begin, end]"); __CPROVER_assume(SZ(this) < MAXLEN); SZ(this) = SZ(this) + 1; CW(this, 0) = __g2c_nondet_ulong(); ITER_IDX(&it) = ITER_IDX(&pos); return it; }
struct vchar_iterator _ZNSt6vectorIcSaIcEE6insertIN9__gnu_cxx17__normal_iteratorIPcS1_EEvEES6_NS4_IPKcS1_EET_SA_(struct vec_char *this, struct vchar_citerator pos, struct vchar_iterator first, struct vchar_iterator last)
{ struct vchar_iterator it; LIVE(this, 24, "std::vector<char>::insert(range)"); __CPROVER_assert(ITER_IDX(&pos) <= SZ(this), "std::vector<char>::insert(iterator, first, last): the position is within [begin, end]"); __CPROVER_assert(ITER_IDX(&first) <= ITER_IDX(&last), "std::vector<char>::insert: [first, last) is a valid range");
  __CPROVER_assume(SZ(this) + (ITER_IDX(&last) - ITER_IDX(&first)) <= MAXLEN); SZ(this) = SZ(this) + (ITER_IDX(&last) - ITER_IDX(&first)); CW(this, 0) = __g2c_nondet_ulong(); ITER_IDX(&it) = ITER_IDX(&pos); return it; }
struct vchar_iterator _ZNSt6vectorIcSaIcEE6insertIN9__gnu_cxx17__normal_iteratorIPcNSt7__cxx1112basic_stringIcSt11char_traitsIcES0_EEEEvEENS4_IS5_S1_EENS4_IPKcS1_EET_SG_(struct vec_char *this, struct vchar_citerator pos, struct str_iterator first, struct str_iterator last)
{ struct vchar_iterator it; LIVE(this, 24, "std::vector<char>::insert(range)"); __CPROVER_assert(ITER_IDX(&pos) <= SZ(this), "std::vector<char>::insert(iterator, first, last): the position is within [begin, end]"); __CPROVER_assert(ITER_IDX(&first) <= ITER_IDX(&last), "std::vector<char>::insert: [first, last) is a valid range");
  __CPROVER_assume(SZ(this) + (ITER_IDX(&last) - ITER_IDX(&first)) <= MAXLEN); SZ(this) = SZ(this) + (ITER_IDX(&last) - ITER_IDX(&first)); CW(this, 0) = __g2c_nondet_ulong(); ITER_IDX(&it) = ITER_IDX(&pos); return it; }
struct vval_iterator _ZNSt6vectorIN4bloc5ValueESaIS1_EE3endEv(struct vec_Value *this) { struct vval_iterator it; LIVE(this, 24, "std::vector<Value>::end"); ITER_IDX(&it) = SZ(this); return it; }
/* walking the elements of a table: every element is the ghost element */
struct vval_iterator *_ZN9__gnu_cxx17__normal_iteratorIPN4bloc5ValueESt6vectorIS2_SaIS2_EEEppEv(struct vval_iterator *this) { ITER_IDX(this) = ITER_IDX(this) + 1; return this; }
_Bool _ZN9__gnu_cxxneIPN4bloc5ValueESt6vectorIS2_SaIS2_EEEEbRKNS_17__normal_iteratorIT_T0_EESC_(const struct vval_iterator *a, const struct vval_iterator *b) { return ITER_IDX(a) != ITER_IDX(b); }
struct Value *_ZNK9__gnu_cxx17__normal_iteratorIPN4bloc5ValueESt6vectorIS2_SaIS2_EEEdeEv(const struct vval_iterator *this) { (void)this; return &g_tab_elem; }
/* std::vector<Value>(): empty;  push_back(Value&&): like insert at the end */
void _ZNSt6vectorIN4bloc5ValueESaIS1_EEC1Ev(struct vec_Value *this) { SZ(this) = 0; CW(this, 0) = 0; CW(this, 2) = 0; }
void _ZNSt6vectorIN4bloc5ValueESaIS1_EE9push_backEOS1_(struct vec_Value *this, struct Value *v)
{
  LIVE(this, 24, "std::vector<Value>::push_back");
  __CPROVER_assume(SZ(this) < MAXLEN); SZ(this) = SZ(this) + 1;
  if (__g2c_nondet_bool()) { g_tab_elem._flags = v->_flags; g_tab_elem._type._major = v->_type._major; g_tab_elem._type._minor = v->_type._minor; g_tab_elem._type._level = v->_type._level; g_tab_elem._value.i = v->_value.i; }
  v->_flags = 0;
}
/* std::vector<Value>::insert(pos, Value&&): the new element becomes one of "the elements" (g_tab_elem stands for any of them); the argument is left moved-from */
struct vval_iterator _ZNSt6vectorIN4bloc5ValueESaIS1_EE6insertEN9__gnu_cxx17__normal_iteratorIPKS1_S3_EEOS1_(struct vec_Value *this, struct vval_citerator pos, struct Value *v)
{
  struct vval_iterator it; LIVE(this, 24, "std::vector<Value>::insert");
  __CPROVER_assert(ITER_IDX(&pos) <= SZ(this), "std::vector<Value>::insert(iterator, v): the position is within [begin, end]");
  __CPROVER_assume(SZ(this) < MAXLEN); SZ(this) = SZ(this) + 1;
  if (__g2c_nondet_bool()) { g_tab_elem._flags = v->_flags; g_tab_elem._type._major = v->_type._major; g_tab_elem._type._minor = v->_type._minor; g_tab_elem._type._level = v->_type._level; g_tab_elem._value.i = v->_value.i; }
  v->_flags = 0;
  ITER_IDX(&it) = ITER_IDX(&pos); return it;
}
#ifdef G2C_HAVE_Collection
/* Collection::iterator Collection::erase(const_iterator pos) { return v.erase(pos); }  (collection.cpp; contract = std::vector::erase) */
struct vval_iterator _ZN4bloc10Collection5eraseEN9__gnu_cxx17__normal_iteratorIPKNS_5ValueESt6vectorIS3_SaIS3_EEEE(struct Collection *this, struct vval_citerator pos)
{ struct vval_iterator it; __CPROVER_assert(ITER_IDX(&pos) < SZ(&this->v), "std::vector<Value>::erase(iterator): the position is dereferenceable (erase(end()) is undefined)"); SZ(&this->v) = SZ(&this->v) - 1; ITER_IDX(&it) = ITER_IDX(&pos); return it; }
#endif /* G2C_HAVE_Collection */
#endif
#endif /* CONTAINERS_STRINGS_ONLY */
#endif
