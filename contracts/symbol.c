/* contracts of bloc::Symbol::check_safety and Symbol::upgrade(const Type&) (C02): the constraint of a type-protected
 * symbol ('$' variables, for / forall iterators while their loop is compiled or runs).
 *  - a scalar symbol accepts only scalars of its own major type (an object of another module type is a refinement of
 *    the same major type: SAFE_UPG); a table symbol accepts only tables; anything else is SAFE_KO;
 *  - SAFE_EQU exactly for the identical type;
 *  - upgrade() makes the symbol's type the given type (and forgets a tuple declaration). */
#include "prelude_lite.h"
#define SAFE_KO 0
#define SAFE_EQU 1
#define SAFE_UPG 2
#define SMAJ (this->_base_Type._major)
#define SMIN (this->_base_Type._minor)
#define SLEV (this->_base_Type._level)
#ifdef JOB_CHECK
unsigned _ZNK4bloc6Symbol12check_safetyERKNS_4TypeE(const struct Symbol *this, const struct Type *t)
__CPROVER_requires(IS_FRESH(this, sizeof(*this)) && IS_FRESH(t, sizeof(*t)) && __exc == 0)
__CPROVER_assigns()
PROP(C01, C02) __CPROVER_ensures(__exc == 0 && RET <= 2)
PROP(C02) __CPROVER_ensures((RET == SAFE_EQU) == (t->_major == SMAJ && t->_minor == SMIN && t->_level == SLEV))
/* a scalar symbol keeps its major type and stays scalar */
PROP(C02) __CPROVER_ensures((RET != SAFE_KO && SLEV == 0) ==> (t->_level == 0 && t->_major == SMAJ))
/* a table symbol stays a table */
PROP(C02) __CPROVER_ensures((RET != SAFE_KO && SLEV > 0) ==> t->_level > 0)
/* and nothing that respects the constraint is refused */
PROP(C02) __CPROVER_ensures((SLEV == 0 && t->_level == 0 && t->_major == SMAJ) ==> RET != SAFE_KO)
PROP(C02) __CPROVER_ensures((SLEV > 0 && t->_level > 0) ==> RET != SAFE_KO)
/* the symbol itself is only read */
PROP(C02) __CPROVER_ensures(SMAJ == __CPROVER_old(SMAJ) && SMIN == __CPROVER_old(SMIN) && SLEV == __CPROVER_old(SLEV) && this->_safety == __CPROVER_old(this->_safety) && this->_locked == __CPROVER_old(this->_locked))
;
#endif
#ifdef JOB_UPGRADE
int g_decl_clear_n; const void *g_decl_clear_obj;
void _ZNSt6vectorIN4bloc4TypeESaIS1_EE5clearEv(void *this) { g_decl_clear_n++; g_decl_clear_obj = this; }
void _ZN4bloc6Symbol7upgradeERKNS_4TypeE(struct Symbol *this, const struct Type *t)
__CPROVER_requires(IS_FRESH(this, sizeof(*this)) && IS_FRESH(t, sizeof(*t)) && __exc == 0 && g_decl_clear_n == 0)
__CPROVER_assigns(__CPROVER_object_whole(this))
PROP(C01, C02) __CPROVER_ensures(__exc == 0)
PROP(C02) __CPROVER_ensures(SMAJ == t->_major && SMIN == t->_minor && SLEV == t->_level && g_decl_clear_n == 1)
/* name, id and constraints are not the type's business */
PROP(C02) __CPROVER_ensures(this->_id == __CPROVER_old(this->_id) && this->_safety == __CPROVER_old(this->_safety) && this->_locked == __CPROVER_old(this->_locked))
;
#endif

#include FNS_C
