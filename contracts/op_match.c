/* contract of bloc::OpMATCHExpression::value  (operator MATCHES: string against a regular expression)
 *
 * std::regex is outside the cut: the pattern compiler and the matcher of libstdc++ are not verified, their answers are
 * arbitrary (any boolean, or a std::regex_error).  What the contract decides is the part BLOC owns: WHICH subject is
 * matched against WHICH pattern -- the two operands of this very evaluation (C05: the answer of an operator depends on
 * its operands now, not on what an earlier evaluation left in the node), that a library error leaves as a BLOC
 * RuntimeError (C01), and the usual ownership frame. */
#define PAYLOAD_LITERAL
#include "prelude.h"

/* ---- ghost model of the std::regex API (trusted: [re.regex], [re.alg.match]) ---- */
const void *g_re_obj;      /* the regex object compiled last */
long g_re_src;             /* the string object it was compiled from (address bits, as in a Value payload) */
int g_re_built_n, g_re_live;
int g_match_n;             /* calls of std::regex_match */
long g_match_subject;      /* its subject string */
long g_match_pattern;      /* the string its pattern was compiled from; 0: a pattern not compiled during this evaluation */
_Bool g_match_result;
char _ZTISt11regex_error_obj[32];

static void re_compile(const void *self, const struct std_string *s)
{
  if (__g2c_nondet_bool()) { __cxa_throw(_ZTISt11regex_error_obj, G2C_EXC_regex_error, 0); return; }   /* ill-formed pattern */
  g_re_obj = self; g_re_src = (long)(const void *)s; g_re_built_n++;
}
/* basic_regex(const std::string&, flag_type) */
void _ZNSt7__cxx1111basic_regexIcNS_12regex_traitsIcEEEC1ISt11char_traitsIcESaIcEEERKNS_12basic_stringIcT_T0_EENSt15regex_constants18syntax_option_typeE(struct basic_regex *this, const struct std_string *s, unsigned f)
{ (void)f; re_compile(this, s); if (!__exc) g_re_live++; }
/* basic_regex() */
void _ZNSt7__cxx1111basic_regexIcNS_12regex_traitsIcEEEC1Ev(struct basic_regex *this) { (void)this; g_re_live++; }
/* basic_regex& assign(const std::string&, flag_type) */
struct basic_regex *_ZNSt7__cxx1111basic_regexIcNS_12regex_traitsIcEEE6assignISt11char_traitsIcESaIcEEERS3_RKNS_12basic_stringIcT_T0_EENSt15regex_constants18syntax_option_typeE(struct basic_regex *this, const struct std_string *s, unsigned f)
{ (void)f; re_compile(this, s); return this; }
/* ~basic_regex() */
void _ZNSt7__cxx1111basic_regexIcNS_12regex_traitsIcEEED1Ev(struct basic_regex *this) { if (this == g_re_obj) g_re_obj = 0; g_re_live--; }
/* bool std::regex_match(const std::string&, const std::regex&, match_flag_type) */
_Bool _ZSt11regex_matchISt11char_traitsIcESaIcEcNSt7__cxx1112regex_traitsIcEEEbRKNS3_12basic_stringIT1_T_T0_EERKNS3_11basic_regexIS7_T2_EENSt15regex_constants15match_flag_typeE(const struct std_string *s, const struct basic_regex *re, unsigned f)
{
  (void)f;
  if (__g2c_nondet_bool()) { __cxa_throw(_ZTISt11regex_error_obj, G2C_EXC_regex_error, 0); return 0; }   /* error_complexity, error_stack */
  g_match_n++; g_match_subject = (long)(const void *)s;
  g_match_pattern = ((const void *)re == g_re_obj) ? g_re_src : 0;
  g_match_result = __g2c_nondet_bool() ? 1 : 0;   /* (a body-less _Bool function may hand any byte back in CBMC) */
  return g_match_result;
}
/* const char* std::regex_error::what() : some message */
char g_re_what[8];
const char *VCALL_runtime_error_what(const void *e) { (void)e; return g_re_what; }

#define BOTH_SET (g_eval_n == 2 && !V_ISNULL(A1) && !V_ISNULL(A2))
#define BOTH_STR (BOTH_SET && V_IS(A1, LITERAL) && V_IS(A2, LITERAL))

struct Value *_ZNK4bloc17OpMATCHExpression5valueERNS_7ContextE(struct OpMATCHExpression *this, struct Context *ctx)
EVAL_PRE_BINOP
__CPROVER_requires(g_re_obj == 0 && g_re_live == 0 && g_re_built_n == 0 && g_match_n == 0 && g_match_pattern == 0)
EVAL_ASSIGNS
ENS_ONLY_RT
ENS_EVAL_BOTH
/* C05: the subject is operand 1 and the pattern is compiled from operand 2 AS EVALUATED NOW; the answer is the matcher's */
PROP(C05) __CPROVER_ensures((OK && BOTH_STR) ==> (g_match_n == 1 && g_match_subject == V_I(A1) && g_match_pattern == V_I(A2)))
PROP(C05) __CPROVER_ensures((OK && BOTH_STR) ==> (V_IS(RET, BOOLEAN) && !V_ISNULL(RET) && V_BOOL(RET) == g_match_result))
/* a null operand gives the boolean null, and nothing is compiled or matched */
PROP(C04) __CPROVER_ensures((OK && g_eval_n == 2 && (V_ISNULL(A1) || V_ISNULL(A2))) ==> (V_IS(RET, BOOLEAN) && V_ISNULL(RET) && g_match_n == 0 && g_re_built_n == 0))
/* C01: an ill-formed pattern is the catchable RuntimeError; C17: no compiled pattern outlives the evaluation */
PROP(C01) __CPROVER_ensures((!OK && BOTH_STR) ==> THROWN_RT(EXC_RT_OTHER_S))
/* an operand that is set and is not a string (an untyped parameter, say) is NOT_LITERAL, whatever the other one is */
PROP(C04) __CPROVER_ensures((BOTH_SET && !V_IS(A2, LITERAL)) ==> THROWN_RT(EXC_RT_NOT_LITERAL))
/* (a subject that is not a string: NOT_LITERAL too, unless the pattern was looked at first and is ill-formed -- C++ leaves the order open) */
PROP(C04) __CPROVER_ensures((BOTH_SET && !V_IS(A1, LITERAL)) ==> (THROWN_RT(EXC_RT_NOT_LITERAL) || THROWN_RT(EXC_RT_OTHER_S)))
PROP(C17) __CPROVER_ensures(g_re_live == 0)
ENS_TYPE(BOOLEAN)
ENS_FRAME1
ENS_FRAME2
ENS_OWN2
;

#include FNS_C
