/* contract of bloc::OpMODExpression::type -- the compiled type of operator % */
#include "prelude.h"

const struct Type *_ZNK4bloc15OpMODExpression4typeERNS_7ContextE(struct OpMODExpression *this, struct Context *ctx)
__CPROVER_requires(IS_FRESH(this, sizeof(*this)) && IS_FRESH(this->arg1, sizeof(struct Expression)) && IS_FRESH(this->arg2, sizeof(struct Expression)))
__CPROVER_requires(__exc == 0 && g_type_n == 0 && GLOBALS_PINNED)
__CPROVER_assigns(g_type_n, __CPROVER_object_whole(g_stype), __CPROVER_object_whole(g_type_node))
/* % has no complex or string form */
PROP(C02) __CPROVER_ensures(g_type_n <= 2 && __exc == 0)
PROP(C02) __CPROVER_ensures((g_type_n == 2 && ST1->_level == 0 && ST2->_level == 0 && (ST_MAJ(ST1) == NO_TYPE || ST_MAJ(ST1) == INTEGER || ST_MAJ(ST1) == NUMERIC) && (ST_MAJ(ST2) == NO_TYPE || ST_MAJ(ST2) == INTEGER || ST_MAJ(ST2) == NUMERIC)) ==> (RET->_level == 0 && RET->_major == ARITH_TYPE(ST_MAJ(ST1), ST_MAJ(ST2))))
;

#include FNS_C
