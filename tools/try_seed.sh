#!/bin/sh
# try_seed.sh <patch.diff> <PROP> [PROP...] : apply a seeded change to /repo, run the checks, undo it.
P="$1"; shift
git -C /repo apply "$P" || { echo "patch does not apply"; exit 3; }
for p in "$@"; do
  timeout 1500 /verif/check $p quick 2>&1 | grep -v "^WARNING" | cut -c1-260
  echo "  -> $p rc=$?"
done
git -C /repo checkout -- .
git -C /verif checkout -- evidence 2>/dev/null
git -C /repo status --short | head -3
