#!/bin/bash
# try_benign.sh <id> <PROP> [PROP...] : apply /verif/benign/<id>/patch.diff to a scratch checkout of /repo HEAD (never to /repo),
# run the properties' quick checks on that checkout (VERIF_REPO), print the verdict lines, remove the checkout.
ID="$1"; shift
W=/tmp/bw/$ID
rm -rf $W; mkdir -p /tmp/bw
git -C /repo worktree add -q --detach $W HEAD || exit 3
git -C $W apply /verif/benign/$ID/patch.diff || { echo "$ID patch does not apply"; git -C /repo worktree remove --force $W; exit 3; }
for p in "$@"; do
  VERIF_REPO=$W VERIF_SCRATCH=1 timeout 3000 /usr/bin/python3 /verif/tools/runner.py $p > /tmp/bw/$ID.$p.log 2>&1; rc=$?
  echo "$ID $p rc=$rc $(grep -c '^VIOLATION' /tmp/bw/$ID.$p.log) violations $(grep -c '^INCONCLUSIVE' /tmp/bw/$ID.$p.log) inconclusive | $(grep -E '^C[0-9]+:' /tmp/bw/$ID.$p.log | tail -1 | cut -c1-150)"
done
git -C /repo worktree remove --force $W
