#!/bin/bash
# try_seed_scratch.sh <seed-id> <PROP> [PROP...] : apply /verif/seeded/<id>/patch.diff to a scratch checkout of /repo HEAD (never to
# /repo itself), run the properties' quick checks on it (VERIF_REPO; evidence untouched: VERIF_SCRATCH), remove the checkout.
# Several of these can run side by side, and /repo stays clean for the registered checks.
ID="$1"; shift
W=/tmp/bw/$ID
rm -rf $W; mkdir -p /tmp/bw
git -C /repo worktree add -q --detach $W HEAD || exit 3
git -C $W apply /verif/seeded/$ID/patch.diff || { echo "$ID patch does not apply"; git -C /repo worktree remove --force $W; exit 3; }
for p in "$@"; do
  VERIF_REPO=$W VERIF_SCRATCH=1 timeout 3000 /usr/bin/python3 /verif/tools/runner.py $p 2>&1 | grep -v "^WARNING" | tail -4 | cut -c1-260
  echo "  -> $ID $p rc=${PIPESTATUS[0]}"
done
git -C /repo worktree remove --force $W
