# gdb -batch -x gdb_types.py  (env: G2C_REQ=request.json G2C_OUT=answer.json) <object file with -g -femit-class-debug-always>
# Type oracle for g2c: struct layouts and scalar typedef resolution, read from the DWARF
# that the *same* g++ invocation that produced the GIMPLE dumps wrote.
import gdb, json, os, re

req = json.load(open(os.environ['G2C_REQ']))
out = {'structs': {}, 'scalars': {}, 'layouts': {}, 'errors': []}

def scalar_ctype(t):
    """C spelling for a scalar gdb.Type (after strip_typedefs), or None"""
    t = t.strip_typedefs()
    c = t.code
    if c == gdb.TYPE_CODE_BOOL:
        return '_Bool'
    if c == gdb.TYPE_CODE_CHAR or (c == gdb.TYPE_CODE_INT and t.name in ('char',)):
        return 'char'
    if c == gdb.TYPE_CODE_INT:
        sz = t.sizeof
        sg = t.is_signed
        if t.name == 'signed char': return 'signed char'
        if t.name == 'unsigned char': return 'unsigned char'
        return {1: 'signed char', 2: 'short', 4: 'int', 8: 'long', 16: '__int128'}[sz] if sg else \
               {1: 'unsigned char', 2: 'unsigned short', 4: 'unsigned int', 8: 'unsigned long', 16: 'unsigned __int128'}[sz]
    if c == gdb.TYPE_CODE_FLT:
        return {4: 'float', 8: 'double', 16: 'long double'}[t.sizeof]
    if c == gdb.TYPE_CODE_ENUM:
        sg = False
        try:
            sg = t.target().strip_typedefs().is_signed
        except Exception:
            sg = any(f.enumval < 0 for f in t.fields())
            if t.sizeof == 4 and not sg:
                # plain enum: underlying type unsigned int when no negative enumerator (g++)
                sg = False
        return ({1: 'signed char', 2: 'short', 4: 'int', 8: 'long'} if sg else
                {1: 'unsigned char', 2: 'unsigned short', 4: 'unsigned int', 8: 'unsigned long'})[t.sizeof]
    return None

def qname_of(t):
    """qualified name of a struct/union type; an anonymous aggregate reached through a typedef
    (typedef struct {...} Imaginary;) is named by the typedef"""
    st = t.strip_typedefs()
    n = st.name or st.tag
    if n:
        return n
    u = t
    last = None
    while u.code == gdb.TYPE_CODE_TYPEDEF:
        last = u.name
        u = u.target()
    return last

pending = []
seen = set()

def want_layout(q):
    if q not in seen:
        seen.add(q); pending.append(q)

def is_transparent(q):
    if q is None:
        return False
    for pat in req.get('opaque_prefixes', ['std::', '__gnu_cxx::']):
        if q.startswith(pat):
            return q in req.get('transparent', [])
    return True

def ctype(t, depth=0):
    """C type text with @Q<qname>@ placeholders for struct tags"""
    t0 = t
    t = t.strip_typedefs()
    c = t.code
    s = scalar_ctype(t)
    if s:
        return s
    if c in (gdb.TYPE_CODE_PTR, gdb.TYPE_CODE_REF, gdb.TYPE_CODE_RVALUE_REF):
        tg0 = t.target()
        tg = tg0.strip_typedefs()
        if tg.code in (gdb.TYPE_CODE_FUNC, gdb.TYPE_CODE_METHOD, gdb.TYPE_CODE_VOID):
            return 'void *'
        if tg.code in (gdb.TYPE_CODE_STRUCT, gdb.TYPE_CODE_UNION):
            q = qname_of(tg0)
            if q is None:
                return 'void *'
            return ('union' if tg.code == gdb.TYPE_CODE_UNION else 'struct') + ' @Q' + q + '@ *'
        inner = ctype(tg, depth + 1)
        if inner is None:
            return 'void *'
        return inner + ' *'
    if c in (gdb.TYPE_CODE_STRUCT, gdb.TYPE_CODE_UNION):
        q = qname_of(t0)
        kw = 'union' if c == gdb.TYPE_CODE_UNION else 'struct'
        if q is None:
            # anonymous aggregate: inline
            body = layout_body(t)
            if body is None:
                return None
            return kw + ' { ' + ' '.join(body) + ' }'
        want_layout(q)
        return kw + ' @Q' + q + '@'
    if c == gdb.TYPE_CODE_ARRAY:
        lo, hi = t.range()
        el = ctype(t.target(), depth + 1)
        if el is None:
            return None
        return ('ARRAY', el, hi - lo + 1)
    return None

def layout_body(t):
    """list of C member declarations, or None if not expressible"""
    mem = []
    flds = list(t.fields())
    if t.code == gdb.TYPE_CODE_UNION:
        # widest member first: CBMC represents a nondeterministic union by its first member only,
        # so a narrow first member would leave the other bytes unconstrained on every read.
        # Member order does not affect the layout of a union.
        flds = sorted(flds, key=lambda f: -(f.type.sizeof if hasattr(f, 'bitpos') else 0))
    else:
        # declaration order is not layout order (a primary vptr precedes a non-polymorphic base)
        flds = sorted(flds, key=lambda f: (f.bitpos if hasattr(f, 'bitpos') else -1))
    for f in flds:
        if not hasattr(f, 'bitpos'):
            continue            # static member
        if f.bitsize:
            return None
        ft = f.type
        if f.is_base_class:
            bq = qname_of(ft)
            if ft.sizeof <= 1 and len([x for x in ft.strip_typedefs().fields() if hasattr(x, 'bitpos')]) == 0:
                continue        # empty base
            want_layout(bq)
            mem.append('struct @Q%s@ _base_@C%s@;' % (bq, bq))
            continue
        name = f.name
        ct = ctype(ft)
        if ct is None:
            ct = ('ARRAY', 'unsigned char', ft.sizeof)
        if name is None or name == '':
            if isinstance(ct, tuple):
                return None
            mem.append(ct + ';')
            continue
        name = re.sub(r'[.$#~]', '_', name)
        if isinstance(ct, tuple):
            mem.append('%s %s[%d];' % (ct[1], name, ct[2]))
        else:
            mem.append('%s %s;' % (ct, name))
    return mem

def do_layout(q):
    try:
        t = gdb.lookup_type(q).strip_typedefs()
    except gdb.error as e:
        out['errors'].append('no type %s: %s' % (q, e)); return
    ent = {'qname': q, 'size': t.sizeof, 'kind': 'union' if t.code == gdb.TYPE_CODE_UNION else 'struct'}
    try:
        ent['align'] = t.alignof
    except Exception:
        ent['align'] = 8 if t.sizeof >= 8 else (4 if t.sizeof >= 4 else 1)
    if t.code in (gdb.TYPE_CODE_STRUCT, gdb.TYPE_CODE_UNION):
        try:
            ent['opaque_bases'] = [[qname_of(f.type), f.bitpos // 8] for f in t.fields() if f.is_base_class]
        except Exception:
            ent['opaque_bases'] = []
    if is_transparent(q):
        body = layout_body(t)
        if body is not None:
            ent['members'] = body
            ent['offsets'] = []
            for f in t.fields():
                if hasattr(f, 'bitpos') and not f.is_base_class and f.name:
                    ent['offsets'].append([re.sub(r'[.$#~]', '_', f.name), f.bitpos // 8])
            ent['bases'] = [[qname_of(f.type), f.bitpos // 8] for f in t.fields() if f.is_base_class]
    out['layouts'][q] = ent

# typedefs fixed by the C++ standard ([re.syn]: typedef basic_regex<char> regex)
STD_TYPEDEFS = {'regex': 'std::__cxx11::basic_regex<char, std::__cxx11::regex_traits<char> >'}

def candidates(name, kinds):
    """qualified names of all types whose unqualified name is `name`"""
    try:
        s = gdb.execute('info types -q ' + re.escape(name) + '$', to_string=True)
        if not re.search(r'^\d+:', s, re.M):
            s = gdb.execute('info types -q ' + re.escape(name) + '<', to_string=True)
    except gdb.error:
        return []
    res = []
    for ln in s.splitlines():
        m = re.match(r'^\d+:\s+(.*);$', ln)
        if not m:
            continue
        d = m.group(1)
        d = re.sub(r'^(typedef|struct|class|union|enum)\s+', '', d) if not d.startswith('typedef') else d[len('typedef '):]
        # qualified name = suffix after the last depth-0 space
        depth = 0; cut = 0
        for i, ch in enumerate(d):
            if ch in '<(': depth += 1
            elif ch in '>)': depth -= 1
            elif ch == ' ' and depth == 0: cut = i + 1
        q = d[cut:]
        # strip template arguments of the last component for the comparison
        depth = 0; base = ''
        for ch in q:
            if ch == '<': depth += 1
            elif ch == '>': depth -= 1
            elif depth == 0: base += ch
        if q == name or q.endswith('::' + name) or base == name or base.endswith('::' + name):
            res.append(q)
    return res

# --- signature hints: exact types of return value and parameters of functions in the dump
hint_struct, hint_scalar = {}, {}
def base_type(t):
    """strip pointers/references/arrays (and the typedefs in between), keep the innermost typedef"""
    while True:
        st = t.strip_typedefs()
        if st.code in (gdb.TYPE_CODE_PTR, gdb.TYPE_CODE_REF, gdb.TYPE_CODE_RVALUE_REF, gdb.TYPE_CODE_ARRAY):
            t = st.target()
            continue
        return t
def find_func(mangled, dem):
    names = [mangled, dem]
    # strip a leading return type (templates): last depth-0 space before the parameter list
    depth = 0; cut = 0
    for i, ch in enumerate(dem):
        if ch in '<(': 
            if ch == '(' and depth == 0: break
            depth += 1
        elif ch in '>)': depth -= 1
        elif ch == ' ' and depth == 0: cut = i + 1
    if cut:
        names.append(dem[cut:])
    for n in names:
        for fn in (gdb.lookup_global_symbol, gdb.lookup_static_symbol):
            try:
                sy = fn(n)
            except Exception:
                sy = None
            if sy is not None and sy.type.code in (gdb.TYPE_CODE_FUNC, gdb.TYPE_CODE_METHOD):
                return sy
    return None
for sg in req.get('sigs', []):
    sy = find_func(sg['mangled'], sg['dem'])
    if sy is None:
        continue
    ft = sy.type
    gts = [ft.target()] + [f.type for f in ft.fields()]
    want = [sg['ret']] + sg['params']
    if len(gts) != len(want):
        continue
    for w, gt in zip(want, gts):
        if not w:
            continue
        kind, uid, name = w
        bt = base_type(gt)
        if kind in ('struct', 'union') and bt.strip_typedefs().code in (gdb.TYPE_CODE_STRUCT, gdb.TYPE_CODE_UNION):
            q = qname_of(bt)
            if q:
                hint_struct.setdefault(uid, q)
        elif kind == 'scalar':
            sc = scalar_ctype(bt)
            if sc:
                hint_scalar.setdefault(uid, sc)

# --- struct requests: [uid, name, qname|null]
for ent_ in req.get('structs', []):
    uid, name, q = ent_[0], ent_[1], ent_[2]
    scopes = ent_[3] if len(ent_) > 3 else []
    t = None
    if uid in hint_struct:
        q = hint_struct[uid]
    if q:
        try:
            t = gdb.lookup_type(q)
        except gdb.error:
            t = None
    if t is None:
        # a member typedef (iterator, value_type, ...) of a class whose method produces the value
        for sc in scopes:
            try:
                t = gdb.lookup_type(sc + '::' + name)
                break
            except gdb.error:
                t = None
    if t is None and name in STD_TYPEDEFS:
        # a typedef of the standard library that g++ names in the dump but leaves out of the DWARF
        try:
            t = gdb.lookup_type(STD_TYPEDEFS[name])
        except gdb.error:
            t = None
    if t is None:
        cs = []
        for cq in candidates(name, None):
            try:
                ct = gdb.lookup_type(cq)
            except gdb.error:
                continue
            if ct.strip_typedefs().code in (gdb.TYPE_CODE_STRUCT, gdb.TYPE_CODE_UNION):
                qn = qname_of(ct)
                if qn and qn not in cs:
                    cs.append(qn)
        if len(cs) > 1:
            # several instantiations of a library template: interchangeable when they are all opaque and of one size
            try:
                ts = [gdb.lookup_type(c) for c in cs]
                if all(not is_transparent(c) for c in cs) and len(set((x.sizeof, x.alignof) for x in ts)) == 1:
                    cs = [sorted(cs)[0]]
            except Exception:
                pass
        if len(cs) > 1 and scopes:
            # the class of a method that takes / produces the value IS one of the candidates (e.g. the converting
            # constructor const_iterator(const iterator&) is a member of the const_iterator class itself)
            inter = [c for c in cs if c in scopes]
            if len(inter) == 1:
                cs = inter
        if len(cs) == 1:
            t = gdb.lookup_type(cs[0])
        elif len(cs) == 0 and q:
            # only forward-declared in this translation unit: an incomplete type, usable through pointers only
            out['structs'][uid] = {'qname': q, 'kind': 'struct', 'incomplete': True}
            continue
        else:
            out['structs'][uid] = {'error': 'cannot resolve struct %s (uid %s, hint %s): candidates %s' % (name, uid, q, cs[:8])}
            continue
    qn = qname_of(t)
    out['structs'][uid] = {'qname': qn, 'kind': 'union' if t.strip_typedefs().code == gdb.TYPE_CODE_UNION else 'struct'}
    want_layout(qn)

for q in req.get('extra_structs', []):
    try:
        gdb.lookup_type(q); want_layout(q)
    except gdb.error as e:
        out.setdefault('warnings', []).append('no type %s in this translation unit (requested by the job)' % q)

# --- scalar requests: [uid, name]
for ent_ in req.get('scalars', []):
    uid, name = ent_[0], ent_[1]
    if uid in hint_scalar:
        out['scalars'][uid] = {'ctype': hint_scalar[uid]}
        continue
    # a member typedef of the class whose method produces the value
    got = None
    for sc in (ent_[2] if len(ent_) > 2 else []):
        try:
            got = scalar_ctype(gdb.lookup_type(sc + '::' + name))
        except gdb.error:
            got = None
        if got:
            break
    if got:
        out['scalars'][uid] = {'ctype': got}
        continue
    scope_hint = (ent_[2] if len(ent_) > 2 else [])
    cts = {}
    for cq in candidates(name, None):
        try:
            ct = gdb.lookup_type(cq)
        except gdb.error:
            continue
        s = scalar_ctype(ct)
        if s is None:
            st = ct.strip_typedefs()
            if st.code in (gdb.TYPE_CODE_PTR, gdb.TYPE_CODE_REF):
                s = 'void *'
            else:
                s = '?' + str(st)
        cts.setdefault(s, []).append(cq)
    if len(cts) != 1 and scope_hint:
        # gdb cannot look up a member typedef of a class template by qualified name; take the candidates declared in a
        # class that shares a template argument with the class whose method produces the value (std::string::at() ->
        # value_type of allocator_traits<allocator<char> >); recorded as a heuristic resolution
        def targs(q):
            i = q.find('<')
            if i < 0: return []
            body = q[i + 1:q.rfind('>')]
            res, depth, cur = [], 0, ''
            for ch in body:
                if ch == '<': depth += 1
                elif ch == '>': depth -= 1
                if ch == ',' and depth == 0:
                    res.append(cur.strip()); cur = ''
                else:
                    cur += ch
            if cur.strip(): res.append(cur.strip())
            return res
        wanted = set()
        for sc in scope_hint:
            wanted.update(a_ for a_ in targs(sc) if '<' in a_)
        if wanted:
            keep = {k: [c for c in v if any(('<' + w + ' >') in c or ('<' + w + '>') in c or ('<' + w + ',') in c for w in wanted)] for k, v in cts.items()}
            keep = {k: v for k, v in keep.items() if v}
            if len(keep) == 1:
                cts = keep
                out.setdefault('warnings', []).append('typedef %s (uid %s) resolved to %s through template-argument matching with %s' % (name, uid, list(keep)[0], scope_hint))
    if len(cts) != 1 and uid in set(req.get('arith_scalars', [])):
        # the GIMPLE uses this type with an integer literal (`_Literal (T) 32`): it is an arithmetic type
        cts = {k: v for k, v in cts.items() if not k.startswith('?') and k != 'void *'}
    if len(cts) == 1:
        out['scalars'][uid] = {'ctype': list(cts)[0]}
    else:
        out['scalars'][uid] = {'error': 'ambiguous or unknown scalar type %s (uid %s): %s' % (name, uid, {k: v[:3] for k, v in cts.items()})}

while pending:
    do_layout(pending.pop())

# --- enumerators of requested enums (by qualified name) -> #defines
out['enums'] = {}
for q in req.get('enums', []):
    try:
        t = gdb.lookup_type(q).strip_typedefs()
    except gdb.error as e:
        out['errors'].append('no enum %s' % q); continue
    if t.code != gdb.TYPE_CODE_ENUM:
        out['errors'].append('%s is not an enum' % q); continue
    out['enums'][q] = [[f.name.split('::')[-1], int(f.enumval)] for f in t.fields()]

json.dump(out, open(os.environ['G2C_OUT'], 'w'), indent=1)
