# gdb -batch -x gdb_globals.py (env G2C_REQ, G2C_OUT) <shared object linked from the TU's object file>
# Emits C definitions (with initialisers) of constant tables of the translation unit, read from the
# initialised data of the object the repository's compiler produced.
import gdb, json, os, re
req = json.load(open(os.environ['G2C_REQ']))
out = {'defs': [], 'errors': []}

def cname_struct(t):
    n = t.strip_typedefs().name or t.name
    if n.startswith('bloc::'): n = n[6:]
    return n.replace('::', '__')

def c_init(v):
    t = v.type.strip_typedefs()
    c = t.code
    if c == gdb.TYPE_CODE_ARRAY:
        lo, hi = t.range()
        return '{ ' + ', '.join(c_init(v[i]) for i in range(lo, hi + 1)) + ' }'
    if c in (gdb.TYPE_CODE_STRUCT, gdb.TYPE_CODE_UNION):
        return '{ ' + ', '.join(c_init(v[f.name]) for f in t.fields() if hasattr(f, 'bitpos') and f.name) + ' }'
    if c in (gdb.TYPE_CODE_INT, gdb.TYPE_CODE_ENUM, gdb.TYPE_CODE_BOOL, gdb.TYPE_CODE_CHAR):
        return str(int(v))
    if c == gdb.TYPE_CODE_FLT:
        return repr(float(v))
    if c == gdb.TYPE_CODE_PTR:
        tg = t.target().strip_typedefs()
        if tg.code in (gdb.TYPE_CODE_INT, gdb.TYPE_CODE_CHAR) and tg.sizeof == 1:
            if int(v) == 0:
                return '0'
            s = v.string()
            return '"' + s.replace('\\', '\\\\').replace('"', '\\"').replace('\n', '\\n') + '"'
        raise RuntimeError('pointer member of unsupported kind')
    raise RuntimeError('unsupported member type %s' % t)

def c_decl(t, name):
    t = t.strip_typedefs()
    if t.code == gdb.TYPE_CODE_ARRAY:
        lo, hi = t.range()
        return c_decl(t.target(), '%s[%d]' % (name, hi - lo + 1))
    if t.code in (gdb.TYPE_CODE_STRUCT, gdb.TYPE_CODE_UNION):
        return 'struct %s %s' % (cname_struct(t), name)
    if t.code == gdb.TYPE_CODE_PTR:
        return 'const char *%s' % name
    return 'long %s' % name

for q in req.get('globals', []):
    try:
        sym = gdb.lookup_global_symbol(q) or gdb.lookup_static_symbol(q)
        v = gdb.parse_and_eval("'%s'" % q)
        ln = sym.linkage_name if sym is not None else None
        if not ln:
            raise RuntimeError('no linkage name')
        out['defs'].append('/* %s: initialised data of the compiled translation unit */\n%s = %s;' % (q, c_decl(v.type, ln), c_init(v)))
    except Exception as e:
        out['errors'].append('%s: %s' % (q, e))
json.dump(out, open(os.environ['G2C_OUT'], 'w'))
