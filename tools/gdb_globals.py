# gdb -batch -x gdb_globals.py (env G2C_REQ, G2C_OUT) <shared object linked from the TU's object file>
# Emits C definitions (with initialisers) of constant tables of the translation unit, read from the
# initialised data of the object the repository's compiler produced.
import gdb, json, os, re
req = json.load(open(os.environ['G2C_REQ']))
out = {'defs': [], 'errors': []}
extent_only = {}

def cname_struct(t):
    n = t.strip_typedefs().name or t.name
    if n.startswith('bloc::'): n = n[6:]
    return n.replace('::', '__')

def c_init(v):
    t = v.type.strip_typedefs()
    c = t.code
    if c == gdb.TYPE_CODE_ARRAY:
        lo, hi = t.range()
        return '{ ' + ', '.join(c_init(v[i]) for i in range(lo, hi + 1)) + ' }'
    if c in (gdb.TYPE_CODE_STRUCT, gdb.TYPE_CODE_UNION):
        return '{ ' + ', '.join(c_init(v[f.name]) for f in t.fields() if hasattr(f, 'bitpos') and f.name) + ' }'
    if c in (gdb.TYPE_CODE_INT, gdb.TYPE_CODE_ENUM, gdb.TYPE_CODE_BOOL, gdb.TYPE_CODE_CHAR):
        return str(int(v))
    if c == gdb.TYPE_CODE_FLT:
        return repr(float(v))
    if c == gdb.TYPE_CODE_PTR:
        tg = t.target().strip_typedefs()
        if tg.code in (gdb.TYPE_CODE_INT, gdb.TYPE_CODE_CHAR) and tg.sizeof == 1:
            if int(v) == 0:
                return '0'
            s = v.string()
            return '"' + s.replace('\\', '\\\\').replace('"', '\\"').replace('\n', '\\n') + '"'
        # pointer to another table of the same object: name the table, declare it by extent only (contents not modelled)
        if int(v) == 0:
            return '0'
        info = gdb.execute('info symbol 0x%x' % int(v), to_string=True).strip()
        m = re.match(r'^(\S+) in section', info)
        if not m:
            raise RuntimeError('pointer to %s: not the start of a symbol' % info)
        tgt = m.group(1)
        sym = gdb.lookup_global_symbol(tgt) or gdb.lookup_static_symbol(tgt)
        if sym is None or not sym.linkage_name:
            raise RuntimeError('pointer to %s: no linkage name' % tgt)
        tv = gdb.parse_and_eval("'%s'" % tgt)
        if tv.type.strip_typedefs().code != gdb.TYPE_CODE_ARRAY:
            raise RuntimeError('pointer to %s: not an array' % tgt)
        if sym.linkage_name not in extent_only:
            extent_only[sym.linkage_name] = '/* %s: extent only, contents not modelled */\n%s;' % (tgt, c_decl(tv.type, sym.linkage_name))
        return sym.linkage_name
    raise RuntimeError('unsupported member type %s' % t)

def c_decl(t, name):
    t = t.strip_typedefs()
    if t.code == gdb.TYPE_CODE_ARRAY:
        lo, hi = t.range()
        return c_decl(t.target(), '%s[%d]' % (name, hi - lo + 1))
    if t.code in (gdb.TYPE_CODE_STRUCT, gdb.TYPE_CODE_UNION):
        return 'struct %s %s' % (cname_struct(t), name)
    if t.code == gdb.TYPE_CODE_PTR:
        tg = t.target().strip_typedefs()
        if tg.code in (gdb.TYPE_CODE_STRUCT, gdb.TYPE_CODE_UNION):
            return 'struct %s *%s' % (cname_struct(tg), name)
        return 'const char *%s' % name
    return 'long %s' % name

for q in req.get('globals', []):
    if q.startswith('extent:'):
        # a table whose contents no clause depends on: declared by extent only
        q = q[len('extent:'):]
        try:
            sym = gdb.lookup_global_symbol(q) or gdb.lookup_static_symbol(q)
            v = gdb.parse_and_eval("'%s'" % q)
            extent_only[sym.linkage_name] = '/* %s: extent only, contents not modelled */\n%s;' % (q, c_decl(v.type, sym.linkage_name))
        except Exception as e:
            out['errors'].append('%s: %s' % (q, e))
        continue
    forced = None
    if '=' in q:
        # 'bloc::B64index=_ZN4blocL8B64indexE': a table with internal linkage has no linkage name in the DWARF; the caller gives the
        # assembler name the rendered code uses (GCC's own, from the GIMPLE dump)
        q, forced = q.split('=', 1)
    try:
        sym = gdb.lookup_global_symbol(q) or gdb.lookup_static_symbol(q)
        v = gdb.parse_and_eval("'%s'" % q)
        ln = forced or (sym.linkage_name if sym is not None else None)
        if not ln:
            raise RuntimeError('no linkage name')
        out['defs'].append('/* %s: initialised data of the compiled translation unit */\n%s = %s;' % (q, c_decl(v.type, ln), c_init(v)))
    except Exception as e:
        out['errors'].append('%s: %s' % (q, e))
out['defs'] = list(extent_only.values()) + out['defs']
json.dump(out, open(os.environ['G2C_OUT'], 'w'))
