#!/usr/bin/env python3
"""regenerate /verif/MANIFEST.json from the table below (keeps the interface file consistent)"""
import json
NOTE = ('Contract clauses on the real code (g++ -O0 GIMPLE of /repo\'s working tree rendered as C on every run) discharged by CBMC 6.11 for all inputs, '
        'callees replaced by their contracts. Trusted: g++ lowering, the generic GIMPLE->C renderer, DWARF-derived struct mirrors (static-asserted), CBMC/SAT, '
        'assumed libstdc++/libm API contracts, the interface contract of child expressions, and the (argued, not mechanised) structural induction from per-function '
        'contracts to whole programs/histories. Obligations of functions checked only up to a stated bound are reported separately (coverage.bounded) and not counted as proved. See evidence.assumptions.')
TECH = ('contract-based deductive verification: CBMC code-contract clauses (requires/ensures/assigns) on GIMPLE-extracted real code, enforced per function by a '
        'generated assume/assert harness with contract stubs for callees (loop-free => unbounded proof; loops: complete unwinding or stated bound)')
claims = {
 'C01': 'partial: safety obligations (pointer validity, bounds, division by zero, signed overflow, shift distance, float->int conversion range, std::terminate through noexcept) and the exception boundary (only RuntimeError leaves an evaluator; nothing leaves a C API accessor) on every function under contract; parser and scanner are outside the cut (assumed)',
 'C02': 'partial: per node, the run-time type of value() equals the compiled type for the full operand-tag matrix (all operators, constants), and type() of the arithmetic operators agrees with what value() can deliver; builtins/members as they come under contract; batch == statement-at-a-time outputs not applicable',
 'C03': 'exact results of + - * / % unary minus, & | ^ ~ << >> for all 2^128 operand pairs, DIVIDE_BY_ZERO on zero divisors, IEEE double results with a decimal operand (multiplication/division/decimal add/sub via uninterpreted-function abstraction of the machine operation); ** total/typed with a complete unwinding of the power loop (exactness beyond b=0 undecided); int()/num() pending',
 'C04': 'Kleene tables of AND/OR/XOR/NOT and null propagation of the six relational operators over every tag/nullness/ownership of the operands; while and if (bounded: <= 3 rules) run their block exactly when the condition is a non-null true; the null constant is owned storage',
 'C05': 'partial: every node under contract leaves LVALUE operands unchanged bit-for-bit and content-for-content (string/complex payloads), on normal and exceptional return, and returns a temporary or an untouched operand (IC-own/IC-frame); constants hand out owned storage; copy semantics of assignment/containers pending',
 'C06': 'partial: one-step relations of FORStatement::doit (bounds/step once, null bound, step < 1, direction rule, exact advance decided over the mathematical integers, leave <=> next value past the limit, record released exactly once), WHILEStatement::doit and IFStatement::doit (bounded: <= 3 rules); forall pending',
 'C07': 'partial: the catchable set is exactly {user-raised, OUT_OF_RANGE, DIVIDE_BY_ZERO} (RuntimeError::throwable / findThrowable over the table read from the compiled object); raise throws the error its name stands for; BEGINStatement::docatch / doit (bounded: <= 3 when clauses): the first matching clause and only it runs, with the error recorded before and cleared after, unmatched or uncatchable errors propagate unchanged, the execution-level stack is balanced on every way out; Statement::execute stamps the level before doit; Executable::run (bounded) calls onRuntimeError exactly once for whatever is thrown and rethrows it; Context::onRuntimeError (bounded: <= 4 open loops) closes exactly the loops of the interrupted region, each finalised once, and purges temporaries. Whole-program placement combinations, table locks / iterator constraints inside finalizeControl, functor calls and the CLI are not covered',
 'C09': 'partial: at / put / delete on tables, strings and bytes over an abstract container model (size + one ghost element): every out-of-range or null position is an index error that leaves the container unchanged, put keeps the table uniform (element type = table type one level down, for nested tables and tuples too) and its length, delete removes exactly one element, at returns the element with ownership inherited from the table; insert/concat/set@/tuples pending',
 'C10': 'partial: chr() succeeds exactly on 0..255 (OUT_OF_RANGE otherwise, null => null); hash() yields 0 <= h < modulus for every modulus or a BLOC error, its loop reads only buf[0,len) (bounded: buffers <= 6 bytes); at() on strings/bytes yields 0..255; put() rejects codes outside 0..255; the other string builtins and the converters pending; int(str(i)) / num(str(d)) not applicable (libc formatting)',
 'C15': 'partial: the typed accessors bloc_boolean/integer/numeric/literal/tabchar and bloc_value_isnull: succeed exactly on the matching type, NULL data for a null value, bloc_errno set on mismatch, nothing escapes, value unchanged; call sequences and ownership pending',
 'C16': 'partial: PluginManager::bannedPlugin / unbanPlugin over the list of granted names (bounded: <= 3 names): banned unless exactly this name was granted, granting adds only this name; ComplexCTORExpression::parse (bounded argument list): not trusted and not granted => ParseError before any node is allocated, any token consumed or any argument compiled, and the question is asked about the module the type id denotes; IMPORTStatement::parse: not trusted => only a module name compiles, a path expression is refused without being compiled; Context::createChildShell copies the trusted flag unchanged. include, clones, the C API grant/revoke entry points and the module loader are not covered',
 'C17': 'partial: the reference-counted handle bloc::Complex (copy, destructor, assignment in both aliasing cases, swap) against a ghost count of destroyObject calls: destroyed exactly when the last handle goes; wrappers in Value/containers pending',
}
base = json.load(open('/verif/MANIFEST.json'))
checks = []
for p, txt in claims.items():
    checks.append({'property_id': p, 'quick_cmd': './check %s quick' % p, 'thorough_cmd': './check %s thorough' % p,
                   'evidence_file': '/verif/evidence/%s.json' % p, 'replay_cmd_template': 'cat {path}', 'engine': 'g2c+c2h+cbmc',
                   'level_claimed': {'category': 'proof', 'text': txt, 'design_ref': 'DESIGN.md section 4 ' + p},
                   'level_note': NOTE, 'technique': TECH})
base['checks'] = checks
base['engines'] = [{'name': 'g2c+c2h+cbmc', 'path': '/verif/tools', 'serves_properties': sorted(claims),
                    'kind_free_text': 'g++ GIMPLE dump -> C renderer (g2c), contract clause -> harness generator (c2h), CBMC 6.11 (SAT); native replay of counterexamples (ASan/UBSan)'}]
base['setup_cmd'] = 'true'
todo = [p for p in ('C07', 'C08', 'C09', 'C10', 'C11', 'C13', 'C14', 'C16', 'C18') if p not in claims]
base['notes'] = 'Properties %s are designed (DESIGN.md section 4) and not yet built; they are listed neither as checks nor as not_applicable.' % ', '.join(todo)
json.dump(base, open('/verif/MANIFEST.json', 'w'), indent=1)
