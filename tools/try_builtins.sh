#!/bin/bash
# try_builtins.sh name:Class:nargs ... : run the generic builtin contract (contracts/builtin_generic.c) on candidates,
# one line of result each; used to grow BUILTINS_GENERIC in jobs.py.  Evidence files are not touched.
cd /verif
one() {
  a="$1"; n=${a%%:*}
  r=$(VERIF_SCRATCH=1 VERIF_BUILTINS="$a" timeout 900 /usr/bin/python3 tools/runner.py --only bi_$n C01 2>&1 | grep -v "^WARNING" | grep -v "^VIOLATION" | tail -2 | tr '\n' ' ' | cut -c1-330)
  v=$(VERIF_SCRATCH=1 VERIF_BUILTINS="$a" timeout 900 /usr/bin/python3 tools/runner.py --only bi_$n C05 2>&1 | grep -v "^WARNING" | tail -1 | cut -c1-200)
  echo "$a | $r | $v"
}
export -f one
printf '%s\n' "$@" | xargs -P 5 -I{} bash -c 'one {}'
