#!/usr/bin/env python3
"""c2h -- contract-to-harness ("Mode B", DESIGN 2.5).

Reads C files whose function declarations carry CBMC contract clauses
(__CPROVER_requires / __CPROVER_ensures / __CPROVER_assigns) and rewrites them so that plain
`cbmc` (no goto-instrument) checks the same contract text:

  * the ENFORCED function:  its clauses are turned into a harness  `void modeb_harness(void)`
      params nondet; assume(requires...); snapshot __CPROVER_old(); call; assert(ensures...)
  * every REPLACED function: its clauses are turned into a stub body
      assert(requires...); snapshot; havoc(assigns targets); nondet result; assume(ensures...)
  * any other declaration with clauses: the clauses are dropped (plain prototype).

What Mode B does not check: the assigns clause of the ENFORCED function (frame conditions that
matter are written as explicit ensures over snapshots).  Everything else is the same text.

usage: c2h.py --enforce NAME [--replace NAME ...] --out DIR file.c|file.h ...
Writes DIR/<basename> for every input file and DIR/modeb.json (clause table with property tags).
"""
import re, sys, os, json, argparse

CL = re.compile(r'__CPROVER_(requires|ensures|assigns|frees)\s*\(')

def match_paren(s, i):
    depth = 0
    k = i
    n = len(s)
    while k < n:
        c = s[k]
        if c == '"':
            k += 1
            while s[k] != '"':
                if s[k] == '\\': k += 1
                k += 1
        elif c == "'":
            k += 1
            while s[k] != "'":
                if s[k] == '\\': k += 1
                k += 1
        elif c == '(': depth += 1
        elif c == ')':
            depth -= 1
            if depth == 0:
                return k
        k += 1
    raise SystemExit('c2h: unbalanced parenthesis')

def split_top(s, sep=','):
    out, depth, cur = [], 0, ''
    for ch in s:
        if ch in '([{': depth += 1
        elif ch in ')]}': depth -= 1
        if ch == sep and depth == 0:
            out.append(cur); cur = ''
        else:
            cur += ch
    if cur.strip():
        out.append(cur)
    return [x.strip() for x in out]

def find_contracts(text):
    """yield dicts: start, end (span of whole declaration incl. ';'), ret, name, params, clauses[(kind, expr, tags, line)]"""
    res = []
    pos = 0
    while True:
        m = CL.search(text, pos)
        if not m:
            break
        # header = text between previous ';' / '}' / preprocessor line / comment end and m.start()
        hs = m.start()
        k = hs
        # walk back over whitespace/comments/markers to the ')' closing the parameter list
        j = k - 1
        while True:
            while j >= 0 and text[j] in ' \t\r\n':
                j -= 1
            if j >= 1 and text[j - 1:j + 1] == '*/':
                j = text.rfind('/*', 0, j) - 1
                continue
            if j >= 0 and text[j] == ')':
                mp = re.search(r'PROP\s*\([^()]*\)$', text[:j + 1])
                if mp:
                    j = mp.start() - 1
                    continue
            # a '# 12 "file"' line marker between the header and the first clause
            ls = text.rfind('\n', 0, j + 1) + 1
            if text[ls:ls + 1] == '#':
                j = ls - 1
                continue
            break
        if j < 0 or text[j] != ')':
            pos = m.end(); continue
        # find matching '('
        depth = 0
        p = j
        while p >= 0:
            if text[p] == ')': depth += 1
            elif text[p] == '(':
                depth -= 1
                if depth == 0: break
            p -= 1
        params = text[p + 1:j]
        # name and return type before '('
        mm = re.search(r'([A-Za-z_][\w \t\*]*?[\s\*])([A-Za-z_]\w*)\s*$', text[:p])
        if not mm:
            pos = m.end(); continue
        ret, name = mm.group(1).strip(), mm.group(2)
        start = mm.start(1)
        # make sure 'ret' does not swallow a previous token line: cut at last newline-before-declaration boundary
        nl = text.rfind('\n', 0, start)
        seg = text[nl + 1:start]
        if seg.strip():
            # something else on the same line before the return type: keep it out
            pass
        clauses = []
        k = hs
        tagtxt = ''
        while True:
            # skip whitespace and comments; a comment tags every clause up to the next comment
            while True:
                while k < len(text) and text[k] in ' \t\r\n':
                    k += 1
                if text.startswith('/*', k):
                    e = text.index('*/', k)
                    tagtxt = text[k + 2:e]
                    k = e + 2
                    continue
                if text.startswith('//', k):
                    e = text.index('\n', k)
                    tagtxt = text[k + 2:e]
                    k = e
                    continue
                mp = re.match(r'PROP\s*\(([^)]*)\)', text[k:])
                if mp:
                    tagtxt = mp.group(1)
                    k += mp.end()
                    continue
                if text[k:k + 1] == '#':          # preprocessor line marker
                    e = text.find('\n', k)
                    k = e if e >= 0 else len(text)
                    continue
                break
            m2 = CL.match(text, k)
            if not m2:
                break
            e = match_paren(text, m2.end() - 1)
            tags = re.findall(r'\bC\d\d\b|\bUF\b', tagtxt)
            line = text.count('\n', 0, k) + 1
            clauses.append((m2.group(1), text[m2.end():e].strip(), tags, line, tagtxt.strip()))
            k = e + 1
        # after the clauses: ';' (declaration) or '{' (definition with contract)
        while k < len(text) and text[k] in ' \t\r\n':
            k += 1
        term = text[k] if k < len(text) else ''
        res.append(dict(start=start, clause_start=hs, end=k, term=term, ret=ret, name=name, params=params.strip(), clauses=clauses))
        pos = k
    return res

def param_names(params):
    if not params or params == 'void':
        return []
    names = []
    for p in split_top(params):
        m = re.search(r'([A-Za-z_]\w*)\s*(?:\[[^\]]*\])?$', p)
        names.append(m.group(1))
    return names

def olds(exprs):
    """collect distinct __CPROVER_old(E) argument texts, in order"""
    found = []
    for e in exprs:
        i = 0
        while True:
            k = e.find('__CPROVER_old', i)
            if k < 0: break
            p = e.index('(', k)
            q = match_paren(e, p)
            a = e[p + 1:q].strip()
            if a not in found:
                found.append(a)
            i = q
    return found

def sub_olds(e, table):
    out = ''
    i = 0
    while True:
        k = e.find('__CPROVER_old', i)
        if k < 0:
            out += e[i:]; break
        p = e.index('(', k)
        q = match_paren(e, p)
        a = e[p + 1:q].strip()
        out += e[i:k] + table[a]
        i = q + 1
    return out

def sub_fresh(e, mode):
    """IS_FRESH(p, n) -> MODEB_FRESH_ASSUME / MODEB_FRESH_ASSERT"""
    return re.sub(r'\bIS_FRESH\s*\(', 'MODEB_FRESH_%s(' % mode, e)

def sub_ptreq(e):
    """PTR_EQ(a, b) in an asserted position -> ((a) == (b))"""
    while True:
        m = re.search(r'\b(?:PTR_EQ|SET_EQ)\s*\(', e)
        if not m:
            return e
        q = match_paren(e, m.end() - 1)
        a = split_top(e[m.end():q])
        e = e[:m.start()] + '((%s) == (%s))' % (a[0], a[1]) + e[q + 1:]

def cstr(s):
    s = re.sub(r'\s+', ' ', s)
    return s.replace('\\', '\\\\').replace('"', '\\"')

def strip_parens(e):
    e = e.strip()
    while e.startswith('(') and match_paren(e, 0) == len(e) - 1:
        e = e[1:-1].strip()
    return e

def split_top_op(e, op):
    """split expression text at top-level occurrences of the operator token `op`"""
    out, depth, cur, i = [], 0, '', 0
    while i < len(e):
        ch = e[i]
        if ch in '([{': depth += 1
        elif ch in ')]}': depth -= 1
        if depth == 0 and e.startswith(op, i):
            out.append(cur); cur = ''; i += len(op); continue
        cur += ch; i += 1
    out.append(cur)
    return [x.strip() for x in out]

def assume_stmts(e):
    """statements that assume clause `e` in a stub body.  PTR_EQ(lhs, rhs) conjuncts become
    assignments (lhs was havocked; CBMC's dereferencing follows assignments, not assumptions)."""
    e = strip_parens(e)
    parts = split_top_op(e, '==>')
    if len(parts) == 2 and '?' not in parts[0]:
        inner = assume_stmts(parts[1])
        return ['if (%s) {' % parts[0]] + ['  ' + x for x in inner] + ['}']
    out = []
    for cj in split_top_op(e, '&&'):
        cj = strip_parens(cj)
        m = re.match(r'^MODEB_FRESH_ASSUME\s*\((.*)\)$', cj, re.S)
        if m and match_paren(cj, cj.index('(')) == len(cj) - 1:
            a = split_top(m.group(1))
            out.append('%s = __CPROVER_allocate(%s, 0);' % (a[0], a[1]))
            continue
        if 'MODEB_FRESH_ASSUME' in cj and len(split_top_op(cj, '==>')) == 1 and len(split_top_op(cj, '&&')) == 1:
            raise SystemExit('c2h: IS_FRESH must be a top-level conjunct (possibly under one implication): ' + cj)
        m = re.match(r'^(?:PTR_EQ|SET_EQ)\s*\((.*)\)$', cj, re.S)
        if m and match_paren(cj, cj.index('(')) == len(cj) - 1:
            a = split_top(m.group(1))
            if len(a) != 2:
                raise SystemExit('c2h: PTR_EQ needs two arguments: ' + cj)
            out.append('%s = %s;' % (a[0], a[1]))
        elif len(split_top_op(cj, '==>')) == 2 or (len(split_top_op(cj, '&&')) > 1):
            out.extend(assume_stmts(cj))
        else:
            if 'PTR_EQ' in cj or 'SET_EQ' in cj:
                raise SystemExit('c2h: PTR_EQ must be a top-level conjunct of an assumed clause: ' + cj[:200])
            out.append('__CPROVER_assume(%s);' % cj)
    return out

def gen_stub(c, table):
    ret, name, params = c['ret'], c['name'], c['params']
    req = [x for x in c['clauses'] if x[0] == 'requires']
    ens = [x for x in c['clauses'] if x[0] == 'ensures']
    asg = [x for x in c['clauses'] if x[0] == 'assigns']
    L = ['%s %s(%s)' % (ret, name, params or 'void'), '{']
    for i, (_, e, tags, line, _) in enumerate(req, 1):
        cid = '%s.requires.%d' % (name, i)
        table.append(dict(id=cid, kind='callee-requires', function=name, tags=tags, text=e, line=line))
        L.append('  __CPROVER_assert(%s, "%s: %s");' % (sub_ptreq(sub_fresh(e, 'ASSERT')), cid, cstr(e)[:300]))
    ol = olds([e for _, e, _, _, _ in ens])
    ot = {}
    for i, a in enumerate(ol):
        ot[a] = '__old_%d' % i
        L.append('  __typeof__(%s) __old_%d = %s;' % (a, i, a))
    # assigns: evaluate target addresses in the pre-state, then havoc
    tg = []
    for _, e, _, _, _ in asg:
        for grp in split_top(e, ';'):
            cond = None
            m = re.match(r'^([^?]*?[^:]):(?!:)(.*)$', grp, re.S)
            if m:
                cond, grp = m.group(1).strip(), m.group(2).strip()
            for t in split_top(grp):
                if t:
                    tg.append((cond, t))
    hav = []
    for i, (cond, t) in enumerate(tg):
        m = re.match(r'^__CPROVER_object_whole\s*\((.*)\)$', t)
        if m:
            L.append('  void *__tgt_%d = (void *)(%s);' % (i, m.group(1)))
            h = '__CPROVER_havoc_object(__tgt_%d);' % i
        else:
            L.append('  __typeof__(%s) *__tgt_%d = &(%s);' % (t, i, t))
            h = '{ __typeof__(%s) __nd; *__tgt_%d = __nd; }' % (t, i)
        if cond:
            L.append('  _Bool __tgc_%d = (%s);' % (i, cond))
            h = 'if (__tgc_%d) %s' % (i, h)
        hav.append('  ' + h)
    L.extend(hav)
    isvoid = (ret.strip() == 'void')
    if not isvoid:
        L.append('  %s __ret;' % ret)
    for i, (_, e, tags, line, _) in enumerate(ens, 1):
        e2 = sub_fresh(sub_olds(e, ot), 'ASSUME').replace('__CPROVER_return_value', '__ret')
        for st in assume_stmts(e2):
            L.append('  ' + st)
    if not isvoid:
        L.append('  return __ret;')
    L.append('}')
    return '\n'.join(L)

KNOWN = []
UF_MODE = ['all']   # all | skip (omit clauses tagged UF) | only (emit only clauses tagged UF)

def lower_implies(e):
    """C/C++ have no ==>: rewrite a ==> b as (!(a) || (b)), recursively inside parentheses"""
    parts = split_top_op(e, '==>')
    if len(parts) > 1:
        return '(!(%s) || (%s))' % (lower_implies(parts[0]), lower_implies(' ==> '.join(parts[1:])))
    out, i = '', 0
    while i < len(e):
        if e[i] == '(':
            q = match_paren(e, i)
            out += '(' + lower_implies(e[i + 1:q]) + ')'
            i = q + 1
        else:
            out += e[i]; i += 1
    return out

NATIVE = []

def gen_harness(c, table):
    ret, name, params = c['ret'], c['name'], c['params']
    req = [x for x in c['clauses'] if x[0] == 'requires']
    ens = [x for x in c['clauses'] if x[0] == 'ensures']
    L = ['void modeb_harness(void)', '{']
    pn = param_names(params)
    if params and params != 'void':
        for p in split_top(params):
            L.append('  %s;' % p)
    for i, (_, e, tags, line, _) in enumerate(req, 1):
        m = re.match(r'^INPUT_STATE\s*\((.*)\)$', e.strip(), re.S)
        if m:
            # ghost / global state the function reads: nondeterministic on entry (statics are zero in plain cbmc)
            for t in split_top(m.group(1)):
                L.append('  { __typeof__(%s) __nd; %s = __nd; }' % (t, t))
            continue
        for st in assume_stmts(sub_fresh(e, 'ASSUME')):
            L.append('  ' + st)
    ol = olds([e for _, e, _, _, _ in ens])
    ot = {}
    for i, a in enumerate(ol):
        ot[a] = '__old_%d' % i
        L.append('  __typeof__(%s) __old_%d = %s;' % (a, i, a))
    isvoid = (ret.strip() == 'void')
    call = '%s(%s)' % (name, ', '.join(pn))
    if isvoid:
        L.append('  %s;' % call)
    else:
        L.append('  %s __ret = %s;' % (ret, call))
    # vacuity canaries: these assertions MUST fail (they prove that the call returns under the
    # precondition, normally and -- where the function can throw -- exceptionally)
    L.append('  if (__exc) __CPROVER_assert(0, "CANARY %s.returns.exceptional"); else __CPROVER_assert(0, "CANARY %s.returns.normal");' % (name, name))
    for i, (_, e, tags, line, comment) in enumerate(ens, 1):
        cid = '%s.ensures.%d' % (name, i)
        isuf = 'UF' in tags
        tags = [t for t in tags if t != 'UF']
        if (UF_MODE[0] == 'skip' and isuf) or (UF_MODE[0] == 'only' and not isuf):
            continue
        table.append(dict(id=cid, kind='ensures', function=name, tags=tags, text=e, line=line, comment=comment, uf=isuf))
        e2 = sub_ptreq(sub_fresh(sub_olds(e, ot), 'POST').replace('__CPROVER_return_value', '__ret'))
        if not ol:
            NATIVE.append((cid, re.sub(r'\bthis\b', 'self_', lower_implies(e2))))
        tg = ''.join('[%s]' % t for t in tags)
        e = e[:300]
        kfs = [k for k in KNOWN if k.get('clause') == 'ensures.%d' % i]
        if kfs:
            # a recorded known finding splits the clause: outside the recorded witness class it is still
            # claimed; inside it the failure is expected and reported as KNOWN-FINDING
            W = ' || '.join('(%s)' % k['witness'] for k in kfs)
            L.append('  __CPROVER_assert((!(%s)) ==> (%s), "%s %s: %s");' % (W, e2, tg, cid, cstr(e)))
            for k in kfs:
                L.append('  __CPROVER_assert((%s) ==> (%s), "%s %s[%s]: %s");' % (k['witness'], e2, tg, cid, k['id'], cstr(e)))
        else:
            L.append('  __CPROVER_assert(%s, "%s %s: %s");' % (e2, tg, cid, cstr(e)))
    L.append('}')
    return '\n'.join(L)

def transform(text, enforce, replace, table, seen):
    cs = find_contracts(text)
    out = ''
    pos = 0
    tail = ''
    for c in cs:
        out += text[pos:c['start']]
        proto = '%s %s(%s)' % (c['ret'], c['name'], c['params'] or 'void')
        if c['term'] == '{':
            # definition carrying a contract: keep the definition, drop the clauses
            out += proto + '\n'
            pos = c['end']
            if c['name'] == enforce:
                tail += '\n' + gen_harness(c, table) + '\n'; seen.add(c['name'])
            continue
        if c['name'] in replace:
            out += gen_stub(c, table) + '\n'
            seen.add(c['name'])
        else:
            out += proto + ';\n'
            if c['name'] == enforce:
                tail += '\n' + gen_harness(c, table) + '\n'; seen.add(c['name'])
        pos = c['end'] + 1
    out += text[pos:]
    return out + tail

def main():
    ap = argparse.ArgumentParser()
    ap.add_argument('--enforce', required=True)
    ap.add_argument('--replace', action='append', default=[])
    ap.add_argument('--out', required=True)
    ap.add_argument('--known')
    ap.add_argument('--uf-mode', default='all')
    ap.add_argument('--native', help='write the ensures clauses of the enforced function as C++ expressions')
    ap.add_argument('files', nargs='+')
    a = ap.parse_args()
    UF_MODE[0] = a.uf_mode
    if a.known:
        KNOWN.extend(json.load(open(a.known)))
    os.makedirs(a.out, exist_ok=True)
    table, seen = [], set()
    for f in a.files:
        t = open(f).read()
        o = transform(t, a.enforce, set(a.replace), table, seen)
        open(os.path.join(a.out, os.path.basename(f)), 'w').write(o)
    if a.native:
        with open(a.native, 'w') as f:
            for cid, e in NATIVE:
                f.write('CLAUSE("%s", (%s))\n' % (cid, re.sub(r'\s+', ' ', e)))
    missing = [x for x in [a.enforce] + a.replace if x not in seen]
    json.dump(dict(enforce=a.enforce, replace=a.replace, clauses=table, missing=missing), open(os.path.join(a.out, 'modeb.json'), 'w'), indent=1)
    if missing:
        print('c2h: no contract found for: ' + ' '.join(missing), file=sys.stderr)
        sys.exit(2)

if __name__ == '__main__':
    main()
