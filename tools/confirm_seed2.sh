#!/bin/bash
# confirm_seed2.sh <worktree> <i> <seed-id> <property> : like confirm_seed.sh, for seeds whose demonstration is a
# script out/demo<i>.run <build-dir> (C API hosts, modules, interactive sessions) printing what demo<i>.expected holds.
W="$1"; I="$2"; ID="$3"; PROP="$4"
cd "$W" || exit 3
git checkout -q -- . ; git apply out/patch$I.diff || { echo "patch does not apply"; exit 3; }
cmake --build _b -j8 >/dev/null 2>&1 || { echo "BUILD FAILED"; git checkout -q -- .; exit 3; }
T=$(ctest --test-dir _b -j8 --timeout 900 2>&1 | grep "tests passed")
runit() {
  if [ -f out/demo$I.run ]; then timeout 120 sh out/demo$I.run _b 2>&1
  else LD_LIBRARY_PATH=_b/blocc timeout 20 _b/apps/bloc out/demo$I.bloc 2>&1; fi; }
OUT_P=$(runit)
git checkout -q -- .
cmake --build _b -j8 >/dev/null 2>&1
OUT_H=$(runit)
EXP=$(cat out/demo$I.expected)
echo "tests with change: $T"
if [ "$OUT_H" == "$EXP" ]; then echo "demo on HEAD: matches expected"; H=1; else echo "demo on HEAD: DIFFERS"; diff <(echo "$OUT_H") <(echo "$EXP") | head -10; H=0; fi
if [ "$OUT_P" != "$EXP" ]; then echo "demo with change: differs from expected (good)"; diff <(echo "$OUT_P") <(echo "$EXP") | head -6; P=1; else echo "demo with change: SAME (bad)"; P=0; fi
case "$T" in *"100% tests passed"*) TT=1;; *) TT=0;; esac
if [ $H = 1 ] && [ $P = 1 ] && [ $TT = 1 ]; then
  D=/verif/seeded/$ID; mkdir -p $D
  cp out/patch$I.diff $D/patch.diff; cp out/notes$I.md $D/notes.md
  for f in out/demo$I*; do b=$(basename $f); cp $f $D/${b/demo$I/demo}; done
  [ -f $D/demo.run ] && sed -i "s/demo$I/demo/g" $D/demo.run
  python3 - "$D" "$PROP" "$T" <<'PY'
import json,sys,os
d,prop,t=sys.argv[1:4]
notes=open(d+'/notes.md').read()
demo='demo.run <build dir> (prints demo.expected on the unchanged tree)' if os.path.exists(d+'/demo.run') else 'demo.bloc (expected output demo.expected on the unchanged tree)'
json.dump({'property':prop,'breaks':prop,'patch':'patch.diff','demonstration':demo,
 'needs_to_manifest':notes[:1500],
 'confirmed':{'how':'applied in a scratch worktree of /repo HEAD, incremental rebuild, ctest, ran the demonstration with and without the change (tools/confirm_seed2.sh)','existing_tests_with_change':t,'demo_on_unchanged_tree':'matches demo.expected','demo_with_change':'differs from demo.expected'}},
 open(d+'/meta.json','w'),indent=1)
PY
  echo "stored $D"
else echo "NOT stored"; fi
