#!/usr/bin/env python3
"""extract.py -- compile one translation unit of /repo's working tree with the repository's own g++,
dump GIMPLE + DWARF, and render the requested functions as C (tools/g2c.py).

  extract.py --src blocc/operator/op_bior.cpp --out DIR --tag bior --root MANGLED [--root ...]
             [--cut MANGLED ...] [--enum bloc::EXC_RT ...] [--no-line]
Exit status: 0 ok, 2 extraction aborted (inconclusive).
"""
import argparse, os, subprocess, sys, json, time
sys.path.insert(0, os.path.dirname(os.path.abspath(__file__)))
import g2c

REPO = os.environ.get('VERIF_REPO', '/repo')
CXXFLAGS = ['-std=gnu++11', '-O0', '-g', '-femit-class-debug-always', '-fPIC', '-w',
            '-DNDEBUG', '-DLIBSOVERSION="2.9"', '-DLIBVERSION="2.9.3"', '-DLIB_DLL_EXPORTS', '-Dblocc_EXPORTS']

def compile_dump(src, outdir, tag, extra_inc=()):
    srcp = src if os.path.isabs(src) else os.path.join(REPO, src)
    base = os.path.join(outdir, tag)
    incs = ['-I' + REPO, '-I' + os.path.join(REPO, 'blocc')] + ['-I' + i for i in extra_inc]
    cmd = ['g++'] + CXXFLAGS + incs + ['-c', srcp, '-o', base + '.o',
           '-fdump-tree-cfg-gimple-uid-eh-asmname-lineno=' + base + '.cfg',
           '-fdump-tree-ssa-gimple-uid-asmname=' + base + '.ssa',
           '-fdump-tree-optimized-uid-asmname=' + base + '.opt',
           '-fdump-lang-class=' + base + '.cls']
    p = subprocess.run(cmd, capture_output=True, text=True)
    if p.returncode != 0:
        raise g2c.G2CError('g++ failed on %s:\n%s' % (src, p.stderr[-3000:]))
    return base, ' '.join(cmd)

def main():
    ap = argparse.ArgumentParser()
    ap.add_argument('--src', required=True); ap.add_argument('--out', required=True); ap.add_argument('--tag', required=True)
    ap.add_argument('--root', action='append', default=[]); ap.add_argument('--cut', action='append', default=[])
    ap.add_argument('--enum', action='append', default=[]); ap.add_argument('--transparent', action='append', default=[])
    ap.add_argument('--inc', action='append', default=[]); ap.add_argument('--global', dest='globals_', action='append', default=[]); ap.add_argument('--struct', action='append', default=[]); ap.add_argument('--render-ns', dest='render_ns', action='append', default=[]); ap.add_argument('--global-src', dest='global_src', default=None)
    ap.add_argument('--no-line', action='store_true')
    a = ap.parse_args()
    os.makedirs(a.out, exist_ok=True)
    t0 = time.time()
    try:
        base, cmd = compile_dump(a.src, a.out, a.tag, a.inc)
        U = g2c.Unit(base + '.cfg', base + '.ssa', base + '.opt', base + '.cls')
        aliases = json.load(open(os.path.join(os.path.dirname(os.path.abspath(__file__)), 'aliases.json')))
        R = g2c.Renderer(U, base + '.o', aliases=aliases, line_directives=not a.no_line, transparent=a.transparent, enums=a.enum, extra_structs=a.struct)
        R.render_ns = list(a.render_ns)
        R.render_closure(a.root, cut=a.cut)
        th, fc = R.resolve(a.out)
    except g2c.G2CError as e:
        print('EXTRACTION-ABORT: %s' % e, file=sys.stderr)
        sys.exit(2)
    if a.globals_:
        # constant tables: link the object into a shared object (relocations resolved) and read the initialised data
        so = base + '.so'
        gobj = base + '.o'
        if a.global_src:
            # the tables are defined in another translation unit of the repository: compile that one for its data
            gsrc = a.global_src if os.path.isabs(a.global_src) else os.path.join(REPO, a.global_src)
            gobj = base + '.gdata.o'
            pg = subprocess.run(['g++'] + CXXFLAGS + ['-I' + REPO, '-I' + os.path.join(REPO, 'blocc')] + ['-I' + i for i in a.inc] + ['-c', gsrc, '-o', gobj], capture_output=True, text=True)
            if pg.returncode != 0:
                print('EXTRACTION-ABORT: g++ failed on %s: %s' % (a.global_src, pg.stderr[-800:]), file=sys.stderr); sys.exit(2)
        # static, non-PIE link with undefined symbols ignored: every pointer inside the data is resolved at link time
        p = subprocess.run(['g++', '-static', '-nostdlib', '-nostartfiles', '-no-pie', '-Wl,--unresolved-symbols=ignore-all,-e,0', '-o', so, gobj], capture_output=True, text=True)
        if p.returncode != 0:
            p = subprocess.run(['g++', '-shared', '-o', so, gobj], capture_output=True, text=True)
        reqf, outf = base + '.greq.json', base + '.gans.json'
        json.dump({'globals': a.globals_}, open(reqf, 'w'))
        here = os.path.dirname(os.path.abspath(__file__))
        p = subprocess.run(['gdb', '-batch', '-nx', '-x', os.path.join(here, 'gdb_globals.py'), so], env=dict(os.environ, G2C_REQ=reqf, G2C_OUT=outf), capture_output=True, text=True)
        if not os.path.exists(outf):
            print('EXTRACTION-ABORT: globals oracle failed: ' + p.stderr[-500:], file=sys.stderr); sys.exit(2)
        ga = json.load(open(outf))
        if ga['errors']:
            print('EXTRACTION-ABORT: globals: ' + '; '.join(ga['errors']), file=sys.stderr); sys.exit(2)
        th += '\n' + '\n'.join(ga['defs']) + '\n'
        for f in (so, reqf, outf):
            try: os.remove(f)
            except OSError: pass
    open(base + '.types.h', 'w').write(th)
    open(base + '.fns.c', 'w').write(fc)
    meta = {'src': a.src, 'compile_cmd': cmd, 'roots': a.root, 'cut': a.cut,
            'rendered': {mg: {'pretty': R.unit.by_mangled[mg].pretty, 'lines': body.count('\n') + 1, 'has_loops': fr.has_loops,
                              'back_edges': fr.back_edges}
                         for mg, (sig, body, fr) in R.rendered.items()},
            'external': sorted(R.external), 'vcalls': R.vcalls, 'file_statics': sorted(R.file_statics), 'seconds': round(time.time() - t0, 2)}
    json.dump(meta, open(base + '.meta.json', 'w'), indent=1)
    for f in ('.cfg', '.ssa', '.opt', '.cls', '.o'):
        if not os.environ.get('G2C_KEEP'):
            try: os.remove(base + f)
            except OSError: pass
    print('extracted %s: %d functions, %d external callees, %.1fs' % (a.tag, len(R.rendered), len(R.external), time.time() - t0))

if __name__ == '__main__':
    main()
