#!/usr/bin/env python3
"""g2c -- render g++ GIMPLE dumps (-fdump-tree-cfg-gimple-uid-eh-asmname-lineno) as C for CBMC.

Generic: knows GIMPLE statement forms, not BLOC functions.  Any form it does not
know raises G2CError (callers turn that into exit 2 = inconclusive, never a
violation).  See DESIGN.md section 2.2 for the rule table and the list of what
the extraction drops.

Usage as a library:  see tools/extract.py.
"""
import re, sys, json, subprocess, collections

class G2CError(Exception):
    pass

LOC_RE = re.compile(r'\[(/[^\]\s:]+):(\d+):(\d+)(?: discrim \d+)?\] ?')
LOC2_RE = re.compile(r'\[\d+:\d+(?: discrim \d+)?\] ?')

# --------------------------------------------------------------------------
# dump parsing
# --------------------------------------------------------------------------
class Block:
    __slots__ = ('id', 'labels', 'stmts', 'succs')
    def __init__(self, id):
        self.id = id; self.labels = []; self.stmts = []; self.succs = []

class Func:
    def __init__(self):
        self.pretty = None      # bloc::Value::isNull
        self.uid = None
        self.mangled = None
        self.rettype = None
        self.params = []        # raw param strings
        self.eh = []            # raw eh tree lines
        self.decls = []         # raw decl lines
        self.blocks = []        # Block list in dump order
        self.succs = {}         # id -> [ids]
        self.attrs = ''

def parse_dump(path):
    """returns list of Func (cfg or ssa dump in -gimple syntax)"""
    lines = open(path, errors='replace').read().split('\n')
    funcs = []
    n = len(lines)
    i = 0
    pending_succs = {}
    while i < n:
        ln = lines[i]
        m = re.match(r';; (\d+) succs \{(.*)\}', ln)
        if m:
            pending_succs[int(m.group(1))] = [int(x) for x in m.group(2).split()]
            i += 1; continue
        if ln.startswith(';; ') and 'loops found' in ln:
            pending_succs = {}
            i += 1; continue
        if '__GIMPLE (' in ln and not ln.startswith(' '):
            f = Func()
            f.rettype = re.sub(r'__GIMPLE \([^)]*\)', '', ln).strip()
            f.succs = pending_succs; pending_succs = {}
            hdr = lines[i + 1]
            # header may span one line only in practice
            m = re.match(r'(.*?)D_(\d+) \((.*)\)$', hdr)
            if not m:
                raise G2CError('cannot parse function header: %r' % hdr)
            f.pretty, f.uid = m.group(1), m.group(2)
            f.params = split_top(m.group(3), ',') if m.group(3).strip() else []
            k = i + 2
            while k < n and not lines[k].startswith('{'):
                f.eh.append(lines[k]); k += 1
            k += 1
            # decls until first __BB
            while k < n and not lines[k].lstrip().startswith('__BB(') and not lines[k].startswith('}'):
                if lines[k].strip():
                    f.decls.append(lines[k].strip())
                k += 1
            cur = None
            while k < n and not lines[k].startswith('}'):
                s = lines[k]
                st = s.strip()
                k += 1
                if not st:
                    continue
                m = re.match(r'__BB\((\d+)(?:,.*)?\):$', st)
                if m:
                    cur = Block(int(m.group(1))); f.blocks.append(cur); continue
                if cur is None:
                    raise G2CError('statement outside block in %s: %r' % (f.pretty, st))
                # continuation lines of if/else
                cur.stmts.append(st)
            f.blocks_by_id = {b.id: b for b in f.blocks}
            funcs.append(f)
            i = k + 1
            continue
        i += 1
    return funcs

def split_top(s, sep):
    out, depth, cur = [], 0, ''
    for ch in s:
        if ch in '(<[{': depth += 1
        elif ch in ')>]}': depth -= 1
        if ch == sep and depth == 0:
            out.append(cur); cur = ''
        else:
            cur += ch
    if cur.strip():
        out.append(cur)
    return [x.strip() for x in out]

def uid_map(optpath):
    """decl uid -> asm name, from the 'optimized' dump (plain syntax: name.D.uid / nameD.uid)"""
    m = {}
    t = open(optpath, errors='replace').read()
    for mm in re.finditer(r'\b(_Z\w+?)D\.(\d+)', t):
        m[mm.group(2)] = mm.group(1)
    for mm in re.finditer(r';; Function .* \((\S+), funcdef_no=\d+, decl_uid=(\d+),', t):
        m[mm.group(2)] = mm.group(1)
    return m

def demangle(names):
    names = list(names)
    if not names:
        return {}
    p = subprocess.run(['c++filt'], input='\n'.join(names) + '\n', capture_output=True, text=True, check=True)
    out = p.stdout.split('\n')
    return dict(zip(names, out))

def class_of_method(dem):
    """'std::vector<int, std::allocator<int> >::size() const' -> 'std::vector<int, std::allocator<int> >'"""
    # find top-level '(' that starts the parameter list
    depth = 0
    par = None
    i = 0
    s = dem
    # skip 'operator()' / 'operator<' style pitfalls: locate 'operator' token
    mo = re.search(r'\boperator\b', s)
    while i < len(s):
        ch = s[i]
        if mo and i == mo.start():
            # skip the operator symbol
            j = mo.end()
            mm = re.match(r'\s*(\(\)|\[\]|->\*?|<<=?|>>=?|<=>|[<>]=?|[^\w\s(]+|\s+\w[\w:<>, *&]*?(?=\())', s[j:])
            i = j + (mm.end() if mm else 0)
            continue
        if ch == '<': depth += 1
        elif ch == '>': depth -= 1
        elif ch == '(' and depth == 0:
            par = i; break
        i += 1
    head = s if par is None else s[:par]
    # last top-level '::'
    depth = 0
    last = None
    i = 0
    lim = mo.start() if mo and mo.start() < len(head) else len(head)
    while i < lim:
        ch = head[i]
        if ch == '<': depth += 1
        elif ch == '>': depth -= 1
        elif ch == ':' and depth == 0 and head[i:i+2] == '::':
            last = i; i += 1
        i += 1
    if last is None:
        return None
    cls = head[:last]
    # strip return type prefix for templates ("void std::foo<..>::bar" has a space at depth 0)
    depth = 0
    cut = 0
    for i, ch in enumerate(cls):
        if ch == '<': depth += 1
        elif ch == '>': depth -= 1
        elif ch == ' ' and depth == 0:
            cut = i + 1
    return cls[cut:]

# --------------------------------------------------------------------------
# unit = one translation unit's dumps
# --------------------------------------------------------------------------
BUILTIN_TYPES = {
    'void': 'void', 'bool': '_Bool', 'char': 'char', 'signed char': 'signed char',
    'unsigned char': 'unsigned char', 'short int': 'short', 'short unsigned int': 'unsigned short',
    'int': 'int', 'unsigned int': 'unsigned int', 'long int': 'long', 'long unsigned int': 'unsigned long',
    'long long int': 'long long', 'long long unsigned int': 'unsigned long long',
    'float': 'float', 'double': 'double', 'long double': 'long double', 'wchar_t': 'int',
    'char16_t': 'unsigned short', 'char32_t': 'unsigned int', '__int128': '__int128',
    '__int128 unsigned': 'unsigned __int128',
}
BUILTIN_LAST = {k.split()[-1] for k in BUILTIN_TYPES}

IDCH = r'[A-Za-z_0-9.$#~]'
# an identifier carrying a uid:  nameD_123  or anonymous D_123
UIDTOK = re.compile(r'(?<![A-Za-z_0-9.$#~])((?:[A-Za-z_~]' + IDCH + r'*?)??)D_(\d+)(?![A-Za-z_0-9])')

class Unit:
    def __init__(self, cfg, ssa, opt, cls=None):
        self.uids = uid_map(opt)
        self.funcs = parse_dump(cfg)
        self.by_uid = {}
        for f in self.funcs:
            f.mangled = self.uids.get(f.uid)
            self.by_uid[f.uid] = f
        self.by_mangled = {f.mangled: f for f in self.funcs if f.mangled}
        self.ssa = {}
        for f in parse_dump(ssa):
            self.ssa[f.uid] = f
        names = set(self.uids.values())
        self.dem = demangle(sorted(names))
        # struct uid -> qualified class name, from the 'this' parameter of any method in the dump
        self.struct_q = {}
        for f in self.funcs:
            if not f.mangled or not f.params:
                continue
            m = re.match(r'(?:const )?(struct|union) (\S*?)D_(\d+) \* const thisD_\d+$', f.params[0])
            if not m:
                continue
            cq = class_of_method(self.dem.get(f.mangled, ''))
            if cq:
                self.struct_q.setdefault(m.group(3), cq)
        self.vtables = parse_vtables(cls) if cls else {}

def parse_vtables(path):
    """-fdump-lang-class: 'Vtable for bloc::Expression' blocks -> {class: [entry strings by slot]}"""
    vt = {}
    cur = None
    for ln in open(path, errors='replace'):
        m = re.match(r'Vtable for (.*)$', ln.rstrip())
        if m:
            cur = m.group(1); vt[cur] = {}; continue
        if cur is None:
            continue
        m = re.match(r'(\d+)\s+\(int \(\*\)\(\.\.\.\)\)(.*)$', ln.strip())
        if m:
            off = int(m.group(1))
            vt[cur][off] = m.group(2).strip()
        elif ln.startswith('Class ') or ln.startswith('VTT '):
            cur = None
    return vt

# --------------------------------------------------------------------------
# rendering
# --------------------------------------------------------------------------
LIBC_OK = set('''memcpy memmove memset memcmp strlen strcmp strncmp strchr strrchr strstr snprintf sprintf
fprintf printf fputs fputc putc puts fwrite fread fflush fopen fclose fseek ftell feof ferror fgetc getc ungetc rewind
malloc calloc realloc free abort exit getenv time clock isspace isdigit isalpha isalnum toupper tolower isxdigit isprint
strtol strtoll strtoul strtoull strtod strtof strtold vsnprintf __errno_location __assert_fail
pow sqrt fabs floor ceil fmod sin cos tan asin acos atan atan2 exp log log10 log2 round trunc
sinh cosh tanh cbrt hypot ldexp frexp modf llround lround nearbyint rint isatty fileno
dup dup2 fdopen close open read write dlopen dlsym dlclose dlerror usleep nanosleep memchr strcpy strncpy strcat strdup qsort rand srand random srandom
__cxa_allocate_exception __cxa_throw __cxa_begin_catch __cxa_end_catch __cxa_rethrow __cxa_free_exception
__cxa_guard_acquire __cxa_guard_release __cxa_guard_abort __cxa_atexit __cxa_pure_virtual __cxa_bad_cast __cxa_bad_typeid
__cxa_throw_bad_array_new_length __dynamic_cast _Unwind_Resume __atomic_load_1 __g2c_atexit_dropped
'''.split())

STD_RENDER_OK = re.compile(r'^std::(move|forward|min|max|addressof|__addressof)<')

F2I_TYPES = {'long': 'long', 'int': 'int', 'unsigned long': 'ulong', 'unsigned int': 'uint', 'short': 'short', 'unsigned short': 'ushort', 'signed char': 'schar', 'unsigned char': 'uchar', 'char': 'schar', 'long long': 'long', 'unsigned long long': 'ulong'}
BINOPS = {'+', '-', '*', '/', '%', '&', '|', '^', '<<', '>>', '==', '!=', '<', '>', '<=', '>=', '/[ex]',
          '&&', '||'}

def match_paren(s, i, open='(', close=')'):
    """s[i] == open; return index of matching close"""
    depth = 0
    for k in range(i, len(s)):
        if s[k] == open: depth += 1
        elif s[k] == close:
            depth -= 1
            if depth == 0:
                return k
    raise G2CError('unbalanced %s in %r' % (open, s))

class FuncRenderer:
    def __init__(self, R, f):
        self.R = R; self.U = R.unit; self.f = f
        self.vars = {}      # token (nameD_uid or _N) -> (cname, rawtype)
        self.strs = []
        self.struct_refs = R.struct_refs
        self.callees = set()
        self.has_loops = False
        self.tmpdefs = {}
        self.tmpuses = collections.Counter()

    # ---- types ----
    def ctype(self, t):
        """GIMPLE type text -> C type text with @S / @T placeholders"""
        t = t.strip()
        t = re.sub(r'\b(const|volatile|register|restrict|static)\b', ' ', t)
        t = re.sub(r'\bsizetype\b', 'unsigned long', re.sub(r'\bssizetype\b', 'long', t))
        t = t.replace('&', '*')
        if '(*)' in t or re.search(r'\(\s*\*\s*(?:<\w+>|\w*)\s*\)', t):
            return 'void *'
        # anonymous unscoped enum (no fixed underlying type can be named in the dump): g++ gives it unsigned int
        t = re.sub(r'(?:enum )?\._anon_\d+D_\d+', 'unsigned int', t)
        # anonymous struct named by its typedef for linkage: the dump prints the mangled (length-prefixed) name
        def demangle_td(m):
            return (m.group(2) + 'D_' + m.group(3)) if len(m.group(2)) == int(m.group(1)) else m.group(0)
        t = re.sub(r'\b(\d+)([A-Za-z_]\w*?)D_(\d+)\b', demangle_td, t)
        def rep(m):
            name, uid = m.group(1), m.group(2)
            return '@U%s:%s@' % (uid, name)
        t = UIDTOK.sub(rep, t)
        # struct/union/enum tags
        def tag(m):
            kind, uid, name = m.group(1), m.group(2), m.group(3)
            if kind == 'enum':
                self.R.scalar_refs.add((uid, name))
                return '@T%s:%s@' % (uid, name)
            self.struct_refs.add((uid, name))
            return '%s @S%s:%s@' % (kind, uid, name)
        t = re.sub(r'\b(struct|union|enum) @U(\d+):([^@]*)@', tag, t)
        # multiword builtins: "long unsigned @U16:int@"
        def scal(m):
            pre, uid, name = m.group(1) or '', m.group(2), m.group(3)
            full = (pre + name).strip()
            full = re.sub(r'\s+', ' ', full)
            if full in BUILTIN_TYPES:
                return BUILTIN_TYPES[full] + ' '
            if pre.strip():
                raise G2CError('unknown builtin type %r' % full)
            self.R.scalar_refs.add((uid, name))
            return '@T%s:%s@' % (uid, name)
        t = re.sub(r'((?:(?:long|short|unsigned|signed)\s+)*)@U(\d+):([^@]*)@', scal, t)
        t = re.sub(r'\s+', ' ', t).strip()
        t = re.sub(r'\s*\*\s*', ' *', t)
        return t

    def icall(self, tmp, args):
        """call through a function pointer loaded from a struct member: ICALL_<member>(pointer, args...) -- a stub the
        contract file supplies, like the VCALL_ stubs of virtual calls"""
        d = self.tmpdefs.get(tmp, '')
        m = re.search(r'(?:->|\.)([A-Za-z_]\w*?)(?:D_\d+)?$', d)
        if not m:
            raise G2CError('indirect call through %s (= %r): cannot name the pointer in %s' % (tmp, d, self.f.pretty))
        name = 'ICALL_' + m.group(1)
        self.R.icalls.add(name)
        return '%s (%s%s%s)' % (name, tmp, ', ' if args.strip() else '', args)

    def is_ptr_type(self, rawtype):
        return '*' in rawtype or '&' in rawtype

    # ---- declarations ----
    def collect_vars(self):
        f = self.f
        names = collections.Counter()
        entries = []
        def add(tok, rawtype, arr=''):
            m = re.match(r'^(.*?)D_(\d+)$', tok)
            base = m.group(1) if m else tok
            base = re.sub(r'[.$#~]', '_', base)
            entries.append((tok, base, rawtype, arr))
            names[base] += 1
        self.params = []
        for p in f.params:
            m = re.match(r'^(.*?)\s*((?:[A-Za-z_]' + IDCH + r'*?)?D_\d+)$', p.strip())
            if not m:
                raise G2CError('cannot parse parameter %r of %s' % (p, f.pretty))
            add(m.group(2), m.group(1))
            self.params.append(m.group(2))
        self.local_decl = []
        self.static_init = {}
        for d in f.decls:
            d0 = d
            d = re.sub(r'\s*\[value-expr: .*\];$', ';', d)
            init = None
            mi = re.match(r'^(.*?) = (.*);$', d)
            if mi:
                d, init = mi.group(1) + ';', mi.group(2)
            m = re.match(r'^(.*?)\s*((?:[A-Za-z_]' + IDCH + r'*?)?D_\d+)((?:\[\d*\])*);$', d)
            if not m:
                raise G2CError('cannot parse declaration %r in %s' % (d0, f.pretty))
            if 'value-expr' in d0 and '<retval>' in d0:
                continue
            add(m.group(2), m.group(1), m.group(3))
            self.local_decl.append(m.group(2))
            if init is not None:
                self.static_init[m.group(2)] = init
        ssa = self.U.ssa.get(f.uid)
        self.temps = []
        if ssa:
            for d in ssa.decls:
                m = re.match(r'^(.*\S)\s+(_\d+);$', d)
                if m:
                    self.vars[m.group(2)] = (m.group(2), m.group(1), '')
                    self.temps.append(m.group(2))
        for tok, base, rawtype, arr in entries:
            m = re.match(r'^(.*?)D_(\d+)$', tok)
            uid = m.group(2)
            if base == '' or names[base] > 1 or not re.match(r'^[A-Za-z_]\w*$', base):
                cname = (base or 'D') + '_' + uid
            else:
                cname = base
            if cname in C_KEYWORDS:
                cname += '_' + uid
            self.vars[tok] = (cname, rawtype, arr)

    # ---- expressions ----
    def protect_strings(self, s):
        out = ''
        i = 0
        while i < len(s):
            if s[i] == '"':
                j = i + 1
                while j < len(s):
                    if s[j] == '\\': j += 2; continue
                    if s[j] == '"': break
                    j += 1
                self.strs.append(s[i:j + 1])
                out += '@STR%d@' % (len(self.strs) - 1)
                i = j + 1
            elif s[i] == "'" :
                j = i + 1
                while j < len(s):
                    if s[j] == '\\': j += 2; continue
                    if s[j] == "'": break
                    j += 1
                self.strs.append(s[i:j + 1])
                out += '@STR%d@' % (len(self.strs) - 1)
                i = j + 1
            else:
                out += s[i]; i += 1
        return out

    def restore_strings(self, s):
        return re.sub(r'@STR(\d+)@', lambda m: self.strs[int(m.group(1))], s)

    def resolve_calls(self, s):
        """replace function designators carrying a uid by the asm name"""
        U = self.U
        def rep(m):
            pre, name, uid = m.group(1) or '', m.group(2), m.group(3)
            tok = name + 'D_' + uid
            if tok in self.vars:
                return m.group(0)           # call through a local function pointer
            if uid in U.uids:
                self.callees.add(U.uids[uid])
                return U.uids[uid] + ' ('
            full = (pre + name).strip()
            if name.startswith('__builtin_') or name in LIBC_OK:
                return name + ' ('
            if pre:
                raise G2CError('cannot resolve callee %r (uid %s) in %s' % (full, uid, self.f.pretty))
            raise G2CError('cannot resolve callee %r (uid %s) in %s' % (full, uid, self.f.pretty))
        # operator forms and ctor/dtor placeholders first
        s = re.sub(r'(operator ?)((?:new|delete)(?:\[\])?|\(\)|\[\]|->\*?|[^\w\s(]+|)D_(\d+) \(',
                   lambda m: rep_op(self, m), s)
        s = re.sub(r'(__(?:ct|dt)_(?:comp|base|del) )()D_(\d+) \(', lambda m: rep_op(self, m), s)
        s = re.sub(r'(?<![A-Za-z_0-9.$#~>])()((?:[A-Za-z_~]' + IDCH + r'*?)??)D_(\d+) \(', rep, s)
        return s

    def mem_refs(self, s):
        while True:
            mm = re.search(r'__MEM <', s)
            if not mm:
                return s
            j = match_paren(s, mm.end() - 1, '<', '>')
            ty = s[mm.end():j]
            if ',' in ty:
                # __MEM <T, align>
                ty = ty.rsplit(',', 1)[0]
            k = s.index('(', j)
            e = match_paren(s, k)
            inner = s[k + 1:e].strip()
            cty = self.ctype(ty)
            # inner: "(castT)base + off" | "(castT)base" | "base"
            m = re.match(r'^\((.*?)\)\s*(\S+) \+ (\S+)$', inner) if inner.startswith('(') else None
            if m and balanced(m.group(1)):
                base, off = m.group(2), m.group(3)
                r = '(*(%s *)((char *)(%s) + %s))' % (cty, base, off)
            else:
                m = re.match(r'^(\S+) \+ (\S+)$', inner)
                if m:
                    r = '(*(%s *)((char *)(%s) + %s))' % (cty, m.group(1), m.group(2))
                else:
                    m = re.match(r'^\((.*)\)\s*(\S+)$', inner) if inner.startswith('(') else None
                    if m and balanced(m.group(1)):
                        r = '(*(%s *)(%s))' % (cty, m.group(2))
                    else:
                        r = '(*(%s *)(%s))' % (cty, inner)
            s = s[:mm.start()] + r + s[e + 1:]

    def literals(self, s):
        while True:
            mm = re.search(r'_Literal \(', s)
            if not mm:
                return s
            e = match_paren(s, mm.end() - 1)
            ty = s[mm.end():e]
            rest = s[e + 1:].lstrip()
            if re.match(r'^-?\d', rest):
                for name_, uid_ in UIDTOK.findall(ty):
                    self.R.arith_scalars.add(uid_)
            s = s[:mm.start()] + '(' + self.ctype(ty) + ')' + rest

    def casts(self, s):
        """plain C-style casts '(type) x' whose type mentions a uid token"""
        def rep(m):
            inner = m.group(1)
            if '@' in inner or '(' in inner:
                return m.group(0)
            if UIDTOK.search(inner) and not re.search(r'->|\.|[,=+]', inner):
                toks = UIDTOK.findall(inner)
                # all uid tokens must be types (not variables)
                for name, uid in toks:
                    if (name + 'D_' + uid) in self.vars:
                        return m.group(0)
                return '(' + self.ctype(inner) + ')'
            return m.group(0)
        return re.sub(r'\(([^()]*(?:\(\*\)[^()]*\(\))?[^()]*)\)', rep, s)

    def idents(self, s, lhs_type=None):
        """variables, fields, anonymous base fields"""
        # fields first:  ->nameD_uid  .nameD_uid
        def fld(m):
            op, name, uid = m.group(1), m.group(2), m.group(3)
            if name == '':
                return '%s@B%s@' % (op, uid)
            return op + re.sub(r'[.$#~]', '_', name)
        s = re.sub(r'(->|\.)((?:[A-Za-z_]' + IDCH + r'*?)??)D_(\d+)(?![A-Za-z_0-9])', fld, s)
        def var(m):
            tok = m.group(0)
            if tok in self.vars:
                return self.vars[tok][0]
            name, uid = m.group(1), m.group(2)
            if uid in self.U.uids:
                # address of a function or a global with asm name
                return self.U.uids[uid]
            if name.startswith('_Z') or name.startswith('_ZT'):
                return name
            if name in self.R.file_statics:
                return name
            if re.match(r'^[A-Za-z_]\w*$', name) and not name.startswith('_Z'):
                # a file-scope static variable (no assembler name in the dump): the contract file must declare it
                self.R.file_statics.add(name)
                return name
            raise G2CError('unknown identifier %r in %s' % (tok, self.f.pretty))
        s = UIDTOK.sub(var, s)
        return s

    def vtype(self, tok):
        """raw declared type of a variable token, or None"""
        tok = tok.strip()
        if tok in self.vars:
            return self.vars[tok][1]
        return None

    def expr(self, s):
        s = self.mem_refs(s)
        s = self.literals(s)
        s = self.casts(s)
        s = self.idents(s)
        s = s.replace('<retval>', '__retval')
        s = s.replace('(sizetype)', '(unsigned long)').replace('(ssizetype)', '(long)')
        s = re.sub(r'&(@STR\d+@)', r'((char *)\1)', s)
        if re.search(r'\b__(MIN|MAX|VIEW|BIT_FIELD_REF|BIT_INSERT|REALPART|IMAGPART|ROTATE\w*|UNLT|UNLE|UNGT|UNGE|UNEQ|LTGT|UNORDERED|ORDERED)\b', s) or ' r>> ' in s or ' r<< ' in s:
            raise G2CError('unsupported GIMPLE operator in %r (%s)' % (s, self.f.pretty))
        return s

def balanced(t):
    d = 0
    for ch in t:
        if ch == '(': d += 1
        elif ch == ')':
            d -= 1
            if d < 0: return False
    return d == 0

def rep_op(fr, m):
    uid = m.group(3)
    if uid in fr.U.uids:
        fr.callees.add(fr.U.uids[uid])
        return fr.U.uids[uid] + ' ('
    raise G2CError('cannot resolve callee %r (uid %s) in %s' % (m.group(0), uid, fr.f.pretty))

C_KEYWORDS = set('auto break case char const continue default do double else enum extern float for goto if inline int long register restrict return short signed sizeof static struct switch typedef union unsigned void volatile while _Bool'.split())

class EH:
    def __init__(self, lines):
        self.lp = {}        # landing pad number -> label
        self.catches = {}   # region number -> [(label, typename or None)]
        self.kind = {}
        for e in lines:
            m = re.match(r'\s*(\d+) (\w+)(.*)$', e)
            if not m:
                continue
            reg, kind, rest = int(m.group(1)), m.group(2), m.group(3)
            self.kind[reg] = kind
            for mm in re.finditer(r'land:\{(\d+),<(L\d+)>\}', rest):
                self.lp[mm.group(1)] = mm.group(2)
            if kind == 'try':
                cs = []
                # 'catch:{lab:<L62>;struct invalid_argument},{lab:<L63>;struct out_of_range}': only the first handler carries the 'catch:' prefix
                cm = re.search(r'catch:((?:\{lab:<L\d+>;[^}]*\},?)+)', rest)
                for mm in re.finditer(r'\{lab:<(L\d+)>;([^}]*)\}', cm.group(1) if cm else ''):
                    cs.append((mm.group(1), mm.group(2).strip() or None))
                if len(cs) != rest.count('{lab:'):
                    raise G2CError('try region %d: %d handlers parsed, %d in the dump: %r' % (reg, len(cs), rest.count('{lab:'), rest))
                self.catches[reg] = cs
            elif kind not in ('cleanup', 'must_not_throw'):
                raise G2CError('unsupported EH region kind %r' % kind)

def method_render(self):
    f = self.f
    # guarded initialisation of a function-local static: GCC's artificial guard variable (_ZGV...) and __dso_handle are globals that
    # appear in no declaration list; they become plain C identifiers (defined in contracts/rt.h as G2C_GUARD(<name>) / __dso_handle), and
    # the registration of the destructor with __cxa_atexit is dropped (process exit is outside every contract)
    guards = set()
    for b in f.blocks:
        for i, st in enumerate(b.stmts):
            if '_ZGV' in st or '__dso_handle' in st:
                for g_ in re.findall(r'\b(_ZGV\w+?)D_\d+\b', st):
                    guards.add(g_)
                st = re.sub(r'\b(_ZGV\w+?)D_\d+\b', r'\1', st)
                st = re.sub(r'\b__dso_handleD_\d+\b', '__dso_handle', st)
                if re.search(r'\b__cxa_atexitD_\d+ \(', st):
                    st = re.sub(r'^(\s*(?:\[[^\]]*\]\s*)?)__cxa_atexitD_\d+ \(.*\);\s*$', r'\1__g2c_atexit_dropped ();', st)
                b.stmts[i] = st
    self.R.guard_vars = getattr(self.R, 'guard_vars', set()) | guards
    self.collect_vars()
    eh = EH(f.eh[1:] if f.eh and f.eh[0].startswith('Eh tree') else f.eh)
    ret = self.ctype(f.rettype)
    isvoid = (ret == 'void')
    # <retval> mode
    body_txt = '\n'.join('\n'.join(b.stmts) for b in f.blocks)
    byref = False
    if '<retval>' in body_txt:
        if re.search(r'<retval>->|\(<retval>[,)]|, <retval>[,)]|\(<retval>\)', body_txt):
            byref = True
    self.byref = byref
    # pre-scan temporaries for vptr chains
    for b in f.blocks:
        for st in b.stmts:
            st = LOC2_RE.sub('', LOC_RE.sub('', st))
            m = re.match(r'^(_\d+) = (.*);$', st)
            if m:
                self.tmpdefs[m.group(1)] = m.group(2)
                rhs = m.group(2)
            else:
                rhs = st
            for t in re.findall(r'(?<![\w.])_\d+\b', rhs):
                self.tmpuses[t] += 1
    dead = set()
    for b in f.blocks:
        for st in b.stmts:
            m = re.search(r'OBJ_TYPE_REF\((_\d+);', st)
            if m:
                t = m.group(1)
                chain = []
                while t and t in self.tmpdefs and self.tmpuses[t] == 1:
                    chain.append(t)
                    d = self.tmpdefs[t]
                    mm = re.match(r'^(?:\[[^\]]*\] ?)*__MEM <[^>]*(?:\(\*\) \(\))?[^>]*> \((_\d+)\)$', d) or re.match(r'^(_\d+) \+ \d+ul$', d)
                    if mm:
                        t = mm.group(1); continue
                    if '_vptr' in d:
                        break
                    chain = None; break
                if chain is None or not chain or '_vptr' not in self.tmpdefs.get(chain[-1], ''):
                    raise G2CError('cannot isolate vptr load chain for %r in %s' % (st, f.pretty))
                dead.update(chain)
    out = []     # list of (blockid, [lines])
    exit_stmt = 'return;' if isvoid else ('return __retobj;' if byref else 'return __retdummy;')
    edges = collections.defaultdict(set)
    label_block = {}
    for b in f.blocks:
        for st in b.stmts:
            m = re.match(r'^(?:\[[^\]]*\] ?)*(L\d+):$', st)
            if m:
                label_block[m.group(1)] = b.id
    def lab_target(l):
        if l not in label_block:
            raise G2CError('unknown label %s in %s' % (l, f.pretty))
        return 'BB%d' % label_block[l]
    lp_blocks = set()
    for lab in eh.lp.values():
        if lab in label_block:
            lp_blocks.add(label_block[lab])
    for b in f.blocks:
        lines = []
        cur_loc = None
        stmts = list(b.stmts)
        if b.id in lp_blocks:
            # entering a landing pad: the exception is in flight, not propagating; cleanups and handlers run
            # normally and 'resx' resumes the propagation
            lines.append('  __g2c_landing_pad();')
        # join if/else
        joined = []
        k = 0
        while k < len(stmts):
            st = stmts[k]
            bare = LOC2_RE.sub('', LOC_RE.sub('', st))
            if bare.startswith('if (') and not bare.endswith(';'):
                joined.append(st + ' ' + ' '.join(LOC2_RE.sub('', LOC_RE.sub('', x)) for x in stmts[k + 1:k + 4]))
                k += 4
            else:
                joined.append(st); k += 1
        terminated = False
        for st in joined:
            mloc = LOC_RE.search(st)
            if mloc:
                loc = (mloc.group(1), int(mloc.group(2)))
                if loc != cur_loc and self.R.line_directives:
                    lines.append('#line %d "%s"' % (loc[1], loc[0]))
                cur_loc = loc
            s = LOC2_RE.sub('', LOC_RE.sub('', st)).strip()
            if not s or s.startswith('//') or s == 'GIMPLE_NOP' or 'CLOBBER' in s:
                continue
            if re.match(r'^L\d+:$', s):
                continue
            lpno = None; mnt = False
            m = re.match(r'^\[LP (\d+)\] (.*)$', s)
            if m:
                lpno, s = m.group(1), m.group(2)
            m = re.match(r'^\[MNT (\d+)\] (.*)$', s)
            if m:
                mnt, s = True, m.group(2)
            def propagate():
                if mnt:
                    return ' if (__exc) __g2c_terminate();'
                if lpno is not None:
                    if lpno not in eh.lp:
                        raise G2CError('unknown landing pad %s in %s' % (lpno, f.pretty))
                    tgt = lab_target(eh.lp[lpno])
                    edges[b.id].add(int(tgt[2:]))
                    return ' if (__exc) goto %s;' % tgt
                return ' if (__exc) %s' % exit_stmt
            # --- control statements ---
            m = re.match(r'^goto __BB(\d+);$', s)
            if m:
                lines.append('  goto BB%s;' % m.group(1)); edges[b.id].add(int(m.group(1))); terminated = True; continue
            m = re.match(r'^if \((.*)\) goto __BB(\d+); else goto __BB(\d+);$', s)
            if m:
                c = self.expr(self.protect_strings(m.group(1)))
                lines.append('  if (%s) goto BB%s; else goto BB%s;' % (self.restore_strings(c), m.group(2), m.group(3)))
                edges[b.id].update([int(m.group(2)), int(m.group(3))]); terminated = True; continue
            m = re.match(r'^switch \((.*?)\) \{(.*)\}$', s)
            if m:
                o = '  switch (%s) {' % self.expr(m.group(1))
                for c in m.group(2).split(';'):
                    c = LOC2_RE.sub('', LOC_RE.sub('', c)).strip()
                    if not c:
                        continue
                    lab, tgt = c.rsplit(':', 1)
                    tgt = lab_target(tgt.strip()); edges[b.id].add(int(tgt[2:]))
                    lab = self.literals(lab)
                    mm = re.match(r'^case (.*) \.\.\. (.*)$', lab)
                    if mm:
                        o += ' case %s ... %s: goto %s;' % (mm.group(1), mm.group(2), tgt)
                    else:
                        o += ' %s: goto %s;' % (lab, tgt)
                o += ' }'
                lines.append(o); terminated = True; continue
            if s == 'return;':
                lines.append('  return;'); terminated = True; continue
            m = re.match(r'^return (.*);$', s)
            if m:
                v = m.group(1)
                if v == '<retval>':
                    lines.append('  return __retobj;')
                else:
                    lines.append('  return %s;' % self.expr(v))
                terminated = True; continue
            m = re.match(r'^resx (\d+)$', s)
            if m:
                if lpno is not None:
                    tgt = lab_target(eh.lp[lpno]); edges[b.id].add(int(tgt[2:]))
                    lines.append('  goto %s;' % tgt)
                elif mnt:
                    lines.append('  __g2c_terminate(); __CPROVER_assume(0);')
                else:
                    lines.append('  __g2c_resume(); ' + exit_stmt)
                terminated = True; continue
            m = re.match(r'^eh_dispatch (\d+)$', s)
            if m:
                reg = int(m.group(1))
                if reg not in eh.catches:
                    raise G2CError('eh_dispatch of non-try region %d in %s' % (reg, f.pretty))
                for lab, ty in eh.catches[reg]:
                    tgt = lab_target(lab); edges[b.id].add(int(tgt[2:]))
                    if ty is None:
                        lines.append('  goto %s;' % tgt)
                    else:
                        tn = UIDTOK.sub(lambda mm: mm.group(1), ty).replace('struct ', '').replace('const ', '').replace('&', '').replace('*', '').strip()
                        lines.append('  if (__g2c_exc_isa(__exc_type, G2C_EXC_%s)) goto %s;' % (re.sub(r'\W', '_', tn), tgt))
                continue
            # --- ordinary statements ---
            s = self.protect_strings(s)
            s = re.sub(r'\s*\[return slot optimization\]', '', s)
            s = re.sub(r'\s*\[tail call\]', '', s)
            # drop dead vptr chain
            m = re.match(r'^(_\d+) = ', s)
            if m and m.group(1) in dead:
                continue
            # vtable address stores
            if re.search(r'&_ZTV\w+', s) or re.search(r'&_ZTT\w+', s):
                m = re.match(r'^(\S+) = .*$', s)
                if not m:
                    raise G2CError('unexpected vtable reference %r' % s)
                lines.append('  %s = (void *)0; /* vtable address */' % self.expr(m.group(1)))
                continue
            if '_vptr' in s:
                m = re.match(r'^(\S*(?:->|\.)_vptr\.\S+) = (_\d+);$', s)
                if m:
                    lines.append('  /* vptr store dropped */')
                    continue
                raise G2CError('unexpected vptr use %r in %s' % (s, f.pretty))
            # virtual call
            m = re.search(r'OBJ_TYPE_REF\((_\d+);\((?:const )?struct (\S+?)D_\d+\)(\S+?)->(?:_Literal \([^)]*\) )?(\d+)\) \(', s)
            if m:
                cls, slot = m.group(2), int(m.group(4))
                name = self.R.vcall_name(cls, slot)
                s = s[:m.start()] + name + ' (' + s[m.end():]
                self.callees.add(name)
                s2 = self.resolve_calls(s)
                lines.append('  ' + self.restore_strings(self.expr(s2)) + propagate())
                continue
            if 'OBJ_TYPE_REF' in s:
                raise G2CError('unparsed OBJ_TYPE_REF %r' % s)
            s = self.resolve_calls(s)
            # scope hint: the class of a callee whose result lands in a variable of a typedef-named struct type
            mh = re.match(r'^(\S+) = (_Z\w+) \(', s)
            if mh:
                vt = self.vtype(mh.group(1))
                mu = re.search(r'(?:struct|union) (\S*?)D_(\d+)', vt or '')
                if mu:
                    cq = class_of_method(self.U.dem.get(mh.group(2), ''))
                    if cq:
                        self.R.scope_hints.setdefault(mu.group(2), set()).add(cq)
                else:
                    # the same for a typedef-named scalar (value_type, size_type, ...)
                    ms_ = re.match(r'^(?:const )?([A-Za-z_]\w*?)D_(\d+)\b', (vt or '').strip())
                    if ms_:
                        cq = class_of_method(self.U.dem.get(mh.group(2), ''))
                        if cq:
                            self.R.scalar_scope_hints.setdefault(ms_.group(2), set()).add(cq)
            mh = re.search(r'\b(_Z\w+) \((.*)\);$', s)
            if mh:
                cq = class_of_method(self.U.dem.get(mh.group(1), ''))
                if cq:
                    for a_ in split_top(mh.group(2), ','):
                        a_ = a_.lstrip('&')
                        vt = self.vtype(a_)
                        mu = re.search(r'(?:struct|union) (\S*?)D_(\d+)', vt or '')
                        if mu:
                            self.R.scope_hints.setdefault(mu.group(2), set()).add(cq)
            m = re.match(r'^__cxa_throw \((.*), (&\S+), (\S+)\);$', s)
            if m:
                s = '__cxa_throw (%s, %s, 0);' % (m.group(1), m.group(2))   # destructor pointer dropped
            # classify: assignment with binary rhs / unary / call
            # value-initialisation of a std::vector member written out field by field (`x.v.<base>._M_impl.<base>._M_start = 0`):
            # the three stores together make the vector empty; for the opaque mirror that is zeroing the object
            mz = re.match(r'^(.*?)(?:\.D_\d+)?\._M_implD_\d+(?:\.D_\d+)?\._M_(?:start|finish|end_of_storage)D_\d+ = (?:_Literal \([^)]*\) )?0;$', s)
            if mz:
                lines.append('  __builtin_memset(&(%s), 0, 24); /* std::vector internals zeroed: empty vector */' % self.expr(mz.group(1)))
                continue
            m = re.match(r'^(.*?) = (.*);$', s)
            iscall = False
            if m and balanced(m.group(1)):
                lhs, rhs = m.group(1), m.group(2)
                parts = rhs.split(' ')
                # pointer arithmetic (byte offsets)
                if len(parts) == 3 and parts[1] in ('+', '-') and '(' not in rhs:
                    a, op, c = parts
                    ta, tc = self.vtype(a), self.vtype(c)
                    pa = (ta is not None and self.is_ptr_type(ta)) or a.startswith('&')
                    pc = (tc is not None and self.is_ptr_type(tc)) or c.startswith('&')
                    L = self.expr(lhs)
                    if op == '+' and pa and not pc:
                        lines.append('  %s = (__typeof__(%s))((char *)%s + %s);' % (L, L, self.expr(a), self.expr(c))); continue
                    if op == '-' and pa and pc:
                        lines.append('  %s = (char *)%s - (char *)%s;' % (L, self.expr(a), self.expr(c))); continue
                    if pa or pc:
                        raise G2CError('unsupported pointer arithmetic %r in %s' % (s, f.pretty))
                # 64-bit / double multiplication, division, remainder go through macros so that a proof
                # may abstract the machine operation as an uninterpreted function (rt.h, G2C_ABSTRACT_MULDIV)
                if len(parts) == 3 and parts[1] in ('*', '/', '%', '+', '-') and '(' not in rhs:
                    mac = {'*': 'G2C_MUL', '/': 'G2C_DIV', '%': 'G2C_MOD', '+': 'G2C_ADD', '-': 'G2C_SUB'}[parts[1]]
                    lines.append('  %s = %s(%s, %s);' % (self.expr(lhs), mac, self.expr(parts[0]), self.expr(parts[2]))); continue
                # float -> integer conversion: undefined outside the target range.  CBMC's own check is off by
                # one at exactly -2^63, so the renderer states the exact range itself (rt.h, G2C_F2I_OK_*)
                m2 = re.match(r'^\(([^()]*)\) (\S+)$', rhs)
                if m2:
                    tt = self.ctype(m2.group(1)) if UIDTOK.search(m2.group(1)) else None
                    ot = self.vtype(m2.group(2))
                    if tt and ot and re.search(r'\b(double|float)D_', ot) and tt in F2I_TYPES:
                        lines.append('  __CPROVER_assert(G2C_F2I_OK_%s(%s), "g2c-safety: float-to-integer conversion within the range of %s");' % (F2I_TYPES[tt], self.expr(m2.group(2)), tt))
                    elif tt and ot and tt in F2I_TYPES and '*' not in ot and '&' not in ot and not re.search(r'\b(struct|union|enum)\b', ot) and \
                            not re.search(r'\b(int|long|short|char|bool|_Bool|unsigned|signed)D_', ot) and UIDTOK.search(ot):
                        # the operand's type is a typedef (bloc::Numeric is double): decide at C level whether it is floating
                        x_ = self.expr(m2.group(2))
                        lines.append('  __CPROVER_assert(_Generic((%s), double: G2C_F2I_OK_%s(%s), float: G2C_F2I_OK_%s(%s), default: 1), "g2c-safety: float-to-integer conversion within the range of %s");' % (x_, F2I_TYPES[tt], x_, F2I_TYPES[tt], x_, tt))
                m2 = re.match(r'^__ABS (\S+)$', rhs)
                if m2:
                    # ABS_EXPR: for a signed integer, |minimum| overflows (undefined); for a double it clears the sign
                    x = self.expr(m2.group(1)); tx = self.vtype(m2.group(1)) or ''
                    if 'double' in tx or 'float' in tx:
                        lines.append('  %s = (%s < 0 ? -%s : %s);' % (self.expr(lhs), x, x, x))
                    else:
                        lines.append('  __CPROVER_assert(%s != (-(%s)0x7fffffffffffffffl - 1) || sizeof(%s) < 8, "g2c-safety: ABS_EXPR of the most negative value overflows");' % (x, 'long', x))
                        lines.append('  __CPROVER_assert(%s != (-0x7fffffff - 1) || sizeof(%s) != 4, "g2c-safety: ABS_EXPR of the most negative value overflows");' % (x, x))
                        lines.append('  %s = (%s < 0 ? -%s : %s);' % (self.expr(lhs), x, x, x))
                    continue
                m2 = re.match(r'^~(\S+)$', rhs)
                if m2:
                    lines.append('  %s = G2C_NOT(%s);' % (self.expr(lhs), self.expr(m2.group(1)))); continue
                m2 = re.match(r'^(\S+) /\[ex\] (\S+)$', rhs)
                if m2:
                    lines.append('  %s = %s / %s;' % (self.expr(lhs), self.expr(m2.group(1)), self.expr(m2.group(2)))); continue
                if re.search(r'/\[|%\[', rhs):
                    raise G2CError('unsupported division flavour %r' % rhs)
                iscall = bool(re.match(r'^[A-Za-z_]\w* \(.*\)$', rhs)) and not rhs.startswith('(')
                mi = re.match(r'^(_\d+) \((.*)\)$', rhs)
                if mi and mi.group(1) in self.vars:
                    rhs = self.icall(mi.group(1), mi.group(2)); iscall = True
                L = self.expr(lhs); Rr = self.expr(rhs)
                if iscall:
                    # a call whose result is a struct: remember the type, so that a callee outside the cut gets a declaration
                    vt_ = self.vars.get(lhs.strip())
                    mc_ = re.match(r'^([A-Za-z_]\w*) \(', Rr)
                    if vt_ and mc_ and re.search(r'\b(struct|union)\b', vt_[1]) and '*' not in vt_[1] and '&' not in vt_[1]:
                        self.R.struct_ret.setdefault(mc_.group(1), self.ctype(vt_[1]))
                if rhs.startswith('&') and '@B' in Rr and Rr.endswith('@'):
                    # `_1 = &obj->D_uid` (address of a base sub-object): the type of _1 names the base
                    mb = re.search(r'@B(\d+)@$', Rr)
                    vt = self.vars.get(lhs.strip())
                    mt = re.search(r'(?:struct|union) (\S*?)D_(\d+)', vt[1]) if vt else None
                    if mb and mt:
                        self.R.base_field_struct[mb.group(1)] = mt.group(2)
                lines.append('  %s = %s;%s' % (L, Rr, propagate() if iscall else ''))
                continue
            m = re.match(r'^([A-Za-z_]\w*) \((.*)\);$', s)
            if m:
                fn = m.group(1)
                lines.append('  ' + self.expr(s) + propagate())
                continue
            m = re.match(r'^(\S+) \((.*)\);$', s)
            if m and m.group(1) in self.vars and re.match(r'^_\d+$', m.group(1)):
                lines.append('  ' + self.expr(self.icall(m.group(1), m.group(2)) + ';') + propagate())
                continue
            if m and m.group(1) in self.vars:
                raise G2CError('indirect call %r in %s' % (s, f.pretty))
            raise G2CError('unknown statement form %r in %s' % (self.restore_strings(s), f.pretty))
        if not terminated:
            lines.append('  __CPROVER_assume(0); /* no successor (noreturn call) */')
        out.append((b.id, [self.restore_strings(x) for x in lines]))
    # --- order blocks: reverse post-order from the entry, detect cycles ---
    entry = f.blocks[0].id
    order, state = [], {}
    back = []
    stack = [(entry, iter(sorted(edges[entry])))]
    state[entry] = 1
    while stack:
        n, it = stack[-1]
        adv = False
        for m_ in it:
            if m_ not in state:
                state[m_] = 1
                stack.append((m_, iter(sorted(edges[m_]))))
                adv = True
                break
            elif state[m_] == 1:
                back.append((n, m_))
        if not adv:
            state[n] = 2; order.append(n); stack.pop()
    order.reverse()
    if back and entry == min(order):
        # functions with loops: GCC's own block numbering keeps every loop contiguous and properly nested, with the
        # loop test as a conditional backward jump (the shape CBMC's unwinder counts correctly); a DFS order can
        # interleave an inner loop's body with the outer loop's exit (seen on Executable::run)
        order = sorted(order)
    self.has_loops = bool(back)
    self.back_edges = back
    bylines = dict(out)
    # --- signature and locals ---
    ps = []
    for p in self.params:
        cname, raw, arr = self.vars[p]
        ps.append('%s %s' % (self.ctype(raw), cname))
    sig = '%s %s(%s)' % (ret, f.mangled, ', '.join(ps) if ps else 'void')
    text = [sig, '{']
    for d in self.local_decl:
        cname, raw, arr = self.vars[d]
        st = ''
        init = ''
        if d in self.static_init:
            st = 'static '
            iv = self.static_init[d]
            if re.match(r'^".*"$', iv):
                init = ' = ' + iv
        elif re.match(r'^\s*static\b', [x for x in f.decls if d in x][0]):
            st = 'static '
        text.append('  %s%s %s%s%s;' % (st, self.ctype(raw), cname, arr, init))
    for t in self.temps:
        cname, raw, arr = self.vars[t]
        if t in dead:
            continue
        text.append('  %s %s;' % (self.ctype(raw), cname))
    if byref:
        text.append('  %s __retobj; %s *__retval = &__retobj;' % (ret, ret))
    elif '<retval>' in body_txt:
        text.append('  %s __retobj; ' % ret)
    if not isvoid and not byref:
        text.append('  %s __retdummy;' % ret)
    for bid in order:
        text.append('BB%d:;' % bid)
        text.extend(bylines[bid])
    text.append('}')
    body = '\n'.join(text)
    if not byref:
        body = body.replace('__retval', '__retobj')
    return sig, body

FuncRenderer.render = method_render

# --------------------------------------------------------------------------
# top level
# --------------------------------------------------------------------------
def cname_of(q, aliases):
    if q in aliases:
        return aliases[q]
    s = q
    if s.startswith('bloc::'):
        s = s[6:]
    s = s.replace('::', '__')
    if re.match(r'^\w+$', s):
        return s
    import hashlib
    h = hashlib.sha1(q.encode()).hexdigest()[:8]
    s2 = re.sub(r'\W+', '_', s).strip('_')
    return (s2[:40] + '_' + h)

# names of pure virtual slots, used only when no overrider's vtable is in the translation unit; every
# translation unit where the name CAN be derived is checked against this table (mismatch = abort)
KNOWN_SLOTS = {('Controller', 4): 'finalizeControl', ('Expression', 2): 'unparse', ('Expression', 4): 'type', ('Expression', 5): 'value',
               ('PluginBase', 2): 'declareInterface', ('PluginBase', 3): 'createObject', ('PluginBase', 4): 'destroyObject', ('PluginBase', 5): 'executeMethod'}

class Renderer:
    def __init__(self, unit, objfile, aliases=None, line_directives=True, transparent=(), enums=(), extra_structs=()):
        self.enums = list(enums)
        self.base_field_struct = {}   # uid of an anonymous (base-class) field -> uid of the struct it is
        self.icalls = set()
        self.struct_ret = {}          # callee name -> C type of its struct result (seen at a call site)
        self.render_ns = []           # further namespaces whose functions are rendered (default: bloc::)
        self.extra_structs = list(extra_structs)
        self.unit = unit
        self.obj = objfile
        self.aliases = aliases or {}
        self.line_directives = line_directives
        self.struct_refs = set()
        self.scalar_refs = set()
        self.arith_scalars = set()   # uids of typedef'd scalar types seen in `_Literal (T) <integer>`
        self.file_statics = set()
        self.scope_hints = {}
        self.scalar_scope_hints = {}
        self.rendered = {}      # mangled -> (sig, body, FuncRenderer)
        self.external = set()   # callees not rendered
        self.transparent = list(transparent)
        self.vcalls = {}

    def vcall_name(self, cls, slot):
        """static class name + vtable slot -> VCALL_<Class>_<method> (method name from -fdump-lang-class)"""
        base_q, vt = None, None
        for q, ent in self.unit.vtables.items():
            if q == cls or q.endswith('::' + cls):
                base_q, vt = q, ent; break
        meth = None
        off = 16 + 8 * slot
        def uq(e):
            return re.sub(r'\W', '_', e.split('::')[-1])
        if vt is not None and off in vt:
            e = vt[off]
            if not e.startswith('__cxa_pure_virtual') and e != '0':
                meth = uq(e)
            else:
                names = set()
                for q2, v2 in self.unit.vtables.items():
                    if q2 == base_q or off not in v2:
                        continue
                    # v2 belongs to a class derived from base_q if it repeats one of base's own entries
                    if any(o in v2 and v2[o] == e1 and e1.startswith(base_q + '::') for o, e1 in vt.items()):
                        e2 = v2[off]
                        if not e2.startswith('__cxa_pure_virtual') and e2 != '0':
                            names.add(uq(e2))
                if len(names) == 1:
                    meth = names.pop()
        known = KNOWN_SLOTS.get((cls, slot))
        if meth and known and meth != known:
            raise G2CError('vtable slot %d of %s is %s, the table in g2c.py says %s: update KNOWN_SLOTS' % (slot, cls, meth, known))
        if not meth and known:
            meth = known      # pure virtual in this translation unit and no overrider in sight
        name = 'VCALL_%s_%s' % (cls, meth if meth else str(slot))
        self.vcalls[name] = (cls, slot, meth)
        return name

    def renderable(self, mangled, cut):
        f = self.unit.by_mangled.get(mangled)
        if f is None or mangled in cut:
            return False
        if f.pretty.startswith('bloc::') or f.pretty.startswith('bloc_') or STD_RENDER_OK.match(f.pretty) or any(f.pretty.startswith(ns + '::') for ns in self.render_ns):
            return True
        return False

    def render_closure(self, roots, cut=(), extra_ok=None):
        cut = set(cut)
        work = list(roots)
        for r in roots:
            if r not in self.unit.by_mangled:
                raise G2CError('function %s is not defined in this translation unit' % r)
        while work:
            mg = work.pop()
            if mg in self.rendered:
                continue
            f = self.unit.by_mangled[mg]
            fr = FuncRenderer(self, f)
            sig, body = fr.render()
            self.rendered[mg] = (sig, body, fr)
            for c in sorted(fr.callees):
                c2 = ctor_alias(c)
                if c2 != c and c2 in self.unit.by_mangled and c not in self.unit.by_mangled:
                    target = c2
                else:
                    target = c
                if target in self.rendered:
                    continue
                if self.renderable(target, cut) or (extra_ok and extra_ok(self.unit.by_mangled.get(target))):
                    work.append(target)
                else:
                    self.external.add(c)

    def resolve(self, workdir):
        """ask the gdb oracle about every struct / scalar placeholder; returns (types_h, fns_c)"""
        import os, tempfile
        reqf = os.path.join(workdir, 'g2c_req.json'); outf = os.path.join(workdir, 'g2c_ans.json')
        structs = [[uid, name, self.unit.struct_q.get(uid), sorted(self.scope_hints.get(uid, []))] for uid, name in sorted(self.struct_refs)]
        sigs = []
        def base_tok(raw):
            m = re.search(r'(?:(struct|union|enum) )?((?:[A-Za-z_]' + IDCH + r'*?)??)D_(\d+)', raw)
            if not m:
                return None
            kind = m.group(1) or 'scalar'
            if kind == 'enum': kind = 'scalar'
            return [kind, m.group(3), m.group(2)]
        for f in self.unit.funcs:
            if not f.mangled:
                continue
            ps = []
            for p in f.params:
                mm = re.match(r'^(.*?)\s*((?:[A-Za-z_]' + IDCH + r'*?)?D_\d+)$', p.strip())
                ps.append(base_tok(mm.group(1)) if mm else None)
            sigs.append({'mangled': f.mangled, 'dem': self.unit.dem.get(f.mangled, ''), 'ret': base_tok(f.rettype), 'params': ps})
        req = {'structs': structs, 'arith_scalars': sorted(self.arith_scalars), 'scalars': [list(x) + [sorted(self.scalar_scope_hints.get(x[0], []))] for x in sorted(self.scalar_refs)], 'transparent': self.transparent, 'sigs': sigs, 'enums': self.enums, 'extra_structs': self.extra_structs}
        json.dump(req, open(reqf, 'w'))
        env = dict(os.environ, G2C_REQ=reqf, G2C_OUT=outf)
        here = os.path.dirname(os.path.abspath(__file__))
        p = subprocess.run(['gdb', '-batch', '-nx', '-x', os.path.join(here, 'gdb_types.py'), self.obj],
                           env=env, capture_output=True, text=True)
        if not os.path.exists(outf):
            raise G2CError('type oracle failed: ' + p.stdout[-2000:] + p.stderr[-2000:])
        ans = json.load(open(outf))
        errs = [v['error'] for v in ans['structs'].values() if 'error' in v] + \
               [v['error'] for v in ans['scalars'].values() if 'error' in v] + ans['errors']
        if errs:
            raise G2CError('type oracle: ' + '; '.join(errs))
        lay = ans['layouts']
        cn = lambda q: cname_of(q, self.aliases)
        def fill(s):
            s = re.sub(r'@Q([^@]*)@', lambda m: cn(m.group(1)), s)
            s = re.sub(r'@C([^@]*)@', lambda m: cn(m.group(1)), s)
            return s
        # emit struct definitions in containment order
        emitted, lines = set(), []
        lines.append('/* generated by g2c from the DWARF of the same g++ run that produced the GIMPLE */')
        for q in sorted(lay):
            lines.append('%s %s;' % (lay[q]['kind'], cn(q)))
        for uid, v in sorted(ans['structs'].items()):
            if v.get('incomplete'):
                lines.append('struct %s; /* incomplete in this translation unit: %s */' % (cn(v['qname']), v['qname']))
        def emit(q, stack=()):
            if q in emitted:
                return
            if q in stack:
                raise G2CError('recursive by-value containment at ' + q)
            ent = lay[q]
            if 'members' in ent:
                for mline in ent['members']:
                    for dq in re.findall(r'@Q([^@]*)@(?! \*)', mline):
                        if dq in lay:
                            emit(dq, stack + (q,))
            emitted.add(q)
            c = cn(q)
            if 'members' in ent and ent['members']:
                lines.append('%s %s { %s };' % (ent['kind'], c, ' '.join(fill(x) for x in ent['members'])))
                for fn, off in ent.get('offsets', []):
                    lines.append('_Static_assert(__builtin_offsetof(%s %s, %s) == %d, "layout %s.%s");' % (ent['kind'], c, fn, off, c, fn))
                for bq, off in ent.get('bases', []):
                    if ('struct @Q%s@ _base_@C%s@;' % (bq, bq)) in ent['members']:
                        lines.append('_Static_assert(__builtin_offsetof(%s %s, _base_%s) == %d, "layout %s base %s");' % (ent['kind'], c, cn(bq), off, c, cn(bq)))
            else:
                lines.append('%s %s { _Alignas(%d) unsigned char __opaque[%d]; }; /* opaque: %s */' % (ent['kind'], c, ent['align'], max(ent['size'], 1), q))
            lines.append('_Static_assert(sizeof(%s %s) == %d, "size %s");' % (ent['kind'], c, max(ent['size'], 1), c))
            lines.append('#define G2C_HAVE_%s 1' % re.sub(r'\W', '_', c))
        for q in sorted(lay):
            emit(q)
        for q in sorted(ans.get('enums', {})):
            lines.append('/* enum %s */' % q)
            for nm, val in ans['enums'][q]:
                lines.append('#define %s %d' % (nm, val))
        # complete-object ctor/dtor names alias the base-object bodies (no virtual bases)
        for mg in sorted(self.rendered):
            m = re.match(r'^(_ZN.*?)(C2|D2)(E.*)$', mg)
            if m:
                a = m.group(1) + {'C2': 'C1', 'D2': 'D1'}[m.group(2)] + m.group(3)
                if a not in self.rendered:
                    lines.append('#define %s %s' % (a, mg))
        self.layouts = lay
        smap = {uid: cn(v['qname']) for uid, v in ans['structs'].items() if 'qname' in v}
        self.uid_q = {uid: v['qname'] for uid, v in ans['structs'].items() if 'qname' in v}
        tmap = {uid: v['ctype'] for uid, v in ans['scalars'].items()}
        def final(s):
            s = re.sub(r'@S(\d+):[^@]*@', lambda m: smap[m.group(1)], s)
            s = re.sub(r'@T(\d+):[^@]*@', lambda m: tmap[m.group(1)], s)
            return s
        protos, bodies = [], []
        for mg in sorted(self.rendered):
            sig, body, fr = self.rendered[mg]
            body = self.resolve_bases(final(body), fr)
            protos.append(final(sig) + ';')
            bodies.append(body)
        types_h = '\n'.join(lines) + '\n'
        ext_decl = []
        for name in sorted(self.struct_ret):
            if name in self.external or name.startswith('VCALL_') or name.startswith('ICALL_'):
                # K&R-style declaration: compatible with the full definition a contract header may give before
                ext_decl.append('%s %s();' % (final(self.struct_ret[name]), name))
        guard_decl = ['static long %s;   /* guard of a function-local static (zero: not yet initialised) */' % g_ for g_ in sorted(getattr(self, 'guard_vars', set()))]
        fns_c = '\n'.join(guard_decl + ext_decl + protos) + '\n\n' + '\n\n'.join(bodies) + '\n'
        return types_h, fns_c

    def base_of(self, q, uid_hint, nextfield):
        """which base member of struct q is meant by an anonymous field; returns (member name, base qname)"""
        ent = self.layouts.get(q)
        if not ent or not ent.get('bases'):
            raise G2CError('anonymous field in %s which has no known bases' % q)
        bases = [b for b, off in ent['bases']]
        if len(bases) == 1:
            return bases[0]
        mh = re.match(r'^@B(\d+)@$', uid_hint or '')
        if mh and mh.group(1) in self.base_field_struct:
            bq = self.uid_q.get(self.base_field_struct[mh.group(1)])
            if bq in bases:
                return bq
        def has_field(bq, fn):
            e = self.layouts.get(bq, {})
            if any(n == fn for n, o in e.get('offsets', [])):
                return True
            return any(has_field(b2, fn) for b2, o in e.get('bases', []))
        if nextfield:
            c = [b for b in bases if has_field(b, nextfield)]
            if len(c) == 1:
                return c[0]
        raise G2CError('ambiguous base sub-object in %s' % q)

    def resolve_bases(self, body, fr):
        """@B<uid>@ placeholders: anonymous base-class fields.  Needs the static type of the
        expression to the left, which is always a variable (GIMPLE is three-address)."""
        if '@B' not in body:
            return body
        cn = lambda q: cname_of(q, self.aliases)
        var_q = {}
        for tok, (cname, raw, arr) in fr.vars.items():
            m = re.search(r'(?:struct|union) (\S*?)D_(\d+)', raw)
            if m and m.group(2) in self.uid_q:
                var_q[cname] = self.uid_q[m.group(2)]
        def field_type(q, fn):
            """qname of struct-typed member fn of q (searching bases), else None"""
            ent = self.layouts.get(q, {})
            for mline in ent.get('members', []):
                mm = re.match(r'^(?:struct|union) @Q([^@]*)@ (\w+);$', mline)
                if mm and mm.group(2) == fn:
                    return mm.group(1)
            return None
        def rep(m):
            var, chain = m.group(1), m.group(2)
            if var not in var_q:
                raise G2CError('cannot type %r for base-class access in %s' % (var, fr.f.pretty))
            q = var_q[var]
            parts = re.findall(r'(->|\.)(@B\d+@|\w+)', chain)
            outp = var
            for i, (op, nm) in enumerate(parts):
                if nm.startswith('@B'):
                    nxt = None
                    for op2, nm2 in parts[i + 1:]:
                        if not nm2.startswith('@B'):
                            nxt = nm2; break
                    ent_q = self.layouts.get(q) or {}
                    if not ent_q.get('bases') and ent_q.get('opaque_bases'):
                        # base sub-object of an opaque (library) type: address arithmetic with the DWARF offset
                        obs = ent_q['opaque_bases']
                        pick = None
                        if len(obs) == 1:
                            pick = obs[0]
                        else:
                            mh = re.match(r'^@B(\d+)@$', nm)
                            want = self.uid_q.get(self.base_field_struct.get(mh.group(1), '')) if mh else None
                            cand = [o for o in obs if o[0] == want]
                            if len(cand) == 1:
                                pick = cand[0]
                        if pick is None:
                            raise G2CError('ambiguous base sub-object of opaque %s (in %s)' % (q, fr.f.pretty))
                        addr = ('&(%s)' % outp) if op == '.' else outp
                        outp = '(*(struct %s *)((char *)%s + %d))' % (cn(pick[0]), addr, pick[1])
                        q = pick[0]
                        continue
                    try:
                        bq = self.base_of(q, nm, nxt)
                    except G2CError as e:
                        raise G2CError('%s (in %s, expression %s%s)' % (e, fr.f.pretty, var, chain))
                    outp += op + '_base_' + cn(bq)
                    q = bq
                elif nm == '_M_refcount' and q and q.startswith('std::__shared_ptr<') and not (self.layouts.get(q) or {}).get('members'):
                    # the control block pointer of an opaque std::shared_ptr: its second word
                    outp = '(*(void **)((char *)&(%s) + 8))' % outp if op == '.' else '(*(void **)((char *)(%s) + 8))' % outp
                    q = '@sp_refcount'
                elif nm == '_M_pi' and q == '@sp_refcount':
                    q = None
                elif nm == '_M_ptr' and q and q.startswith('std::__shared_ptr<') and not (self.layouts.get(q) or {}).get('members'):
                    # the pointer of an opaque std::shared_ptr: its first word (libstdc++ layout: _M_ptr, _M_refcount)
                    outp = '(*(void **)&(%s))' % outp if op == '.' else '(*(void **)(%s))' % outp
                    q = None
                else:
                    outp += op + nm
                    q2 = field_type(q, nm) if q else None
                    q = q2
            return outp
        body = re.sub(r'\b([A-Za-z_]\w*)((?:(?:->|\.)(?:@B\d+@|\w+))*(?:->|\.)@B\d+@(?:(?:->|\.)\w+)*)', rep, body)
        if '@B' in body:
            raise G2CError('unresolved base-class field in %s' % fr.f.pretty)
        return body

def ctor_alias(mg):
    """C1/D1 (complete object) <-> C2/D2 (base object) aliasing, as the linker does for classes
    without virtual bases"""
    m = re.match(r'^(_ZN.*?)(C1|D1)(E.*)$', mg)
    if m:
        return m.group(1) + {'C1': 'C2', 'D1': 'D2'}[m.group(2)] + m.group(3)
    return mg
