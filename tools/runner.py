#!/usr/bin/env python3
"""runner.py -- decide one property:  runner.py <PROPERTY-ID> [--tier quick|thorough] [--jobs N] [--only JOB]

For every job (function under contract) that carries obligations of the property:
  extract (g++ GIMPLE -> C, tools/extract.py) -> c2h (contract clauses -> harness + callee stubs)
  -> goto-cc -> cbmc  -> classify every reported obligation -> verdict.

Exit status: 0 every claimed obligation discharged (known findings are reported, not counted)
             1 at least one claimed obligation fails  (VIOLATION property=<id> replay=<path>)
             2 inconclusive (extraction abort, tool error, timeout, vacuity guard)
Evidence is written to /verif/evidence/<id>.json on every run.
"""
import sys, os, json, re, subprocess, time, hashlib, shutil, tempfile, argparse, concurrent.futures, traceback

VERIF = os.path.dirname(os.path.dirname(os.path.abspath(__file__)))
sys.path.insert(0, VERIF)
sys.path.insert(0, os.path.join(VERIF, 'tools'))
import jobs as JOBS

CBMC_FLAGS = ['--object-bits', '12', '--bounds-check', '--pointer-check', '--div-by-zero-check', '--signed-overflow-check',
              '--undefined-shift-check', '--conversion-check', '--pointer-overflow-check', '--no-standard-checks',
              '--bounds-check', '--pointer-check']
# no --conversion-check: every obligation it adds was classified as ignored (integer<->integer conversions are modulo 2^N
# with GCC, never UB; float->integer has the renderer's own exact range assertion) and together with
# --pointer-overflow-check it made one tiny job run for > 15 min
CBMC_FLAGS = ['--object-bits', '12', '--bounds-check', '--pointer-check', '--div-by-zero-check', '--signed-overflow-check',
              '--undefined-shift-check', '--pointer-overflow-check']
ARITH_CLASSES = ('overflow', 'division-by-zero', 'undefined-shift', 'conversion')
MEM_KB = 16 * 1024 * 1024

def sh(cmd, cwd=None, timeout=None, mem_kb=MEM_KB, env=None):
    t0 = time.time()
    pre = 'ulimit -v %d; ' % mem_kb
    try:
        p = subprocess.run(['bash', '-c', pre + 'exec "$@"', 'x'] + cmd, cwd=cwd, capture_output=True, text=True, timeout=timeout, env=env)
        return p.returncode, p.stdout, p.stderr, time.time() - t0
    except subprocess.TimeoutExpired as e:
        return -9, (e.stdout or b'').decode(errors='replace') if isinstance(e.stdout, bytes) else (e.stdout or ''), 'TIMEOUT', time.time() - t0

def tool_versions():
    v = {}
    for t, a in (('cbmc', ['--version']), ('g++', ['-dumpfullversion']), ('gdb', ['--version'])):
        try:
            v[t] = subprocess.run([t] + a, capture_output=True, text=True).stdout.split('\n')[0].strip()
        except Exception:
            v[t] = '?'
    return v

RESULT_RE = re.compile(r'^\[([^\]]+)\] (?:file (\S+) )?line (\d+) (.*): (SUCCESS|FAILURE|UNKNOWN|ERROR)$')

def classify(name, desc, job):
    """-> (kind, clause_id, tags)"""
    cls = name.split('.')[-2] if name.count('.') >= 2 else ''
    if cls == 'assertion':
        if desc.startswith('CANARY'):
            return 'canary', desc, []
        m = re.match(r'^((?:\[C\d\d\])*) ?(\S+)\.ensures\.(\d+): ', desc)
        if m:
            return 'ensures', '%s.ensures.%s' % (m.group(2), m.group(3)), re.findall(r'C\d\d', m.group(1))
        m = re.match(r'^((?:\[C\d\d\])*) ?(\S+)\.ensures\.(\d+)\[(KF-[\w-]+)\]: ', desc)
        if m:
            return 'known', '%s.ensures.%s' % (m.group(2), m.group(3)), [m.group(4)] + re.findall(r'C\d\d', m.group(1))
        m = re.match(r'^(\S+)\.requires\.(\d+): ', desc)
        if m:
            return 'callee-requires', '%s.requires.%s' % (m.group(1), m.group(2)), []
        if desc.startswith('g2c-safety:'):
            return 'safety:conversion', desc, []
        if desc.startswith('g2c:'):
            return 'model-limit', desc, []
        if 'noexcept region' in desc:
            return 'terminate', desc, []
        if desc.startswith('SPEC '):
            return 'spec', desc, re.findall(r'C\d\d', desc)
        return 'assertion', desc, []
    if cls == 'no-body':
        if re.search(r'callee __g2c_nondet_\w+$', desc):
            return 'ignored:nondet-source', desc, []
        return 'no-body', desc, []
    if cls in ('unwind', 'recursion'):
        return 'unwind', desc, []
    if cls == 'overflow' and re.search(r'float to (signed|unsigned) integer type conversion', desc):
        # replaced by the renderer's exact range assertion (CBMC's is off by one at -2^63)
        return 'ignored:float-conversion', desc, []
    if cls == 'overflow' and re.search(r'overflow on (signed|unsigned) (to (signed|unsigned) )?type conversion', desc):
        # integer <-> integer conversions are modulo 2^N with GCC (implementation-defined, never UB)
        return 'ignored:int-conversion', desc, []
    if name.startswith('modeb_harness.'):
        return 'spec-safety', desc, []      # obligation of the contract text itself
    return 'safety:' + cls, desc, []

def run_job(job, work, tier, cache_dir, versions):
    """a function under contract may be looked for under alternative signatures (job['enforce_alt']: [(mangled name, [defines])]): a change of a
    parameter type gives the function another mangled name, and the contract should still find it"""
    res = run_job1(job, work, tier, cache_dir, versions)
    for alt, defs in job.get('enforce_alt', []):
        if res['status'] == 'inconclusive' and 'is not defined in this translation unit' in res.get('reason', ''):
            j2 = dict(job, enforce=alt, roots=[alt], defines=list(job.get('defines', [])) + list(defs))
            if 'thorough' in j2:
                j2.pop('thorough')
            res = run_job1(j2, work, tier, cache_dir, versions)
            res['function'] = alt
    return res

def run_job1(job, work, tier, cache_dir, versions):
    """returns dict with status in ok|inconclusive and list of obligations"""
    res = dict(job=job['id'], src=job['src'], function=job['enforce'], status='ok', reason='', obligations=[], seconds={},
               cache_hit=False, mode='B (generated harness, plain cbmc)', backend='cbmc ' + versions.get('cbmc', '') + ' / MiniSat (default SAT)')
    d = os.path.join(work, job['id'])
    os.makedirs(d, exist_ok=True)
    tag = job['id']
    if job.get('c_source'):
        # a C translation unit of the repository (here: the flex output with the scanner glue) is verified AS IT IS: the
        # contract file #includes it (C_SOURCE); nothing is rendered, nothing is dropped
        srcp = os.path.join(os.environ.get('VERIF_REPO', '/repo'), job['src'])
        nlines = sum(1 for _ in open(srcp, errors='replace'))
        json.dump(dict(rendered={job['enforce']: dict(lines=nlines, has_loops=True)}, compile_cmd='none: %s is C and is included unchanged by contracts/%s' % (job['src'], job['contract'])),
                  open(os.path.join(d, tag + '.meta.json'), 'w'))
        open(os.path.join(d, tag + '.types.h'), 'w').write('/* C source included as is */\n')
        open(os.path.join(d, tag + '.fns.c'), 'w').write('#include "%s"\n' % srcp)
        cmd = ['true']
    else:
        cmd = [sys.executable, os.path.join(VERIF, 'tools', 'extract.py'), '--src', job['src'], '--out', d, '--tag', tag]
    for r in (job['roots'] if not job.get('c_source') else []):
        cmd += ['--root', r]
    for c in job['cut']:
        cmd += ['--cut', c]
    for e in job.get('enums', JOBS.DEFAULT_ENUMS):
        cmd += ['--enum', e]
    for s in job.get('transparent', []):
        cmd += ['--transparent', s]
    for i in job.get('inc', []):
        cmd += ['--inc', i]
    for g_ in job.get('globals', []):
        cmd += ['--global', g_]
    for n_ in job.get('render_ns', []):
        cmd += ['--render-ns', n_]
    if job.get('globals_src'):
        cmd += ['--global-src', job['globals_src']]
    for s_ in job.get('structs', JOBS.DEFAULT_STRUCTS):
        cmd += ['--struct', s_]
    rc, out, err, secs = sh(cmd, timeout=300)
    res['seconds']['extract'] = round(secs, 2)
    if rc != 0:
        res['status'] = 'inconclusive'; res['reason'] = 'extraction: ' + (err.strip().split('\n')[-1] if err.strip() else 'rc=%d' % rc)
        return res
    meta = json.load(open(os.path.join(d, tag + '.meta.json')))
    res['rendered'] = {k: v['lines'] for k, v in meta['rendered'].items()}
    res['rendered_lines'] = sum(v['lines'] for v in meta['rendered'].values())
    res['compile_cmd'] = meta['compile_cmd']
    loops = [k for k, v in meta['rendered'].items() if v['has_loops']]
    res['loops'] = loops
    unwind = job.get('unwind')
    if loops and not unwind:
        res['status'] = 'inconclusive'; res['reason'] = 'rendered code has loops (%s) and the job states no bound' % ', '.join(loops)
        return res
    if unwind:
        res['bounded'] = dict(unwind=unwind, why=job.get('unwind_why', 'loops in rendered code'))
    variants = [('main', 'skip' if job.get('uf') else 'all', [])]
    if job.get('uf_all'):
        variants = [('main', 'all', ['G2C_ABSTRACT_MULDIV'])]
        res['uf_abstraction'] = True
    elif job.get('uf'):
        variants.append(('uf', 'only', ['G2C_ABSTRACT_MULDIV']))
        res['uf_abstraction'] = True
    res['clauses'] = []
    res['seconds']['goto-cc'] = 0.0; res['seconds']['cbmc'] = 0.0
    res['checker_cmd'] = ''
    res['cache_hit'] = True
    for vname, ufmode, vdefs in variants:
        ok, why, obs = run_variant(job, d, tag, tier, cache_dir, versions, vname, ufmode, vdefs, res)
        if not ok:
            res['status'] = 'inconclusive'; res['reason'] = '%s: %s' % (vname, why)
            return res
        if vname == 'uf':
            obs = [dict(o, name='uf:' + o['name'], variant='uf') for o in obs if o['kind'] in ('ensures', 'known', 'canary')]
        res['obligations'].extend(obs)
    if not res['obligations']:
        res['status'] = 'inconclusive'; res['reason'] = 'cbmc reported no obligations'
    return res

def run_variant(job, d, tag, tier, cache_dir, versions, vname, ufmode, vdefs, res):
    """preprocess contract -> c2h -> goto-cc -> cbmc for one variant; returns (ok, why, obligations)"""
    mb = os.path.join(d, 'mb_' + vname)
    os.makedirs(mb, exist_ok=True)
    cdir = os.path.join(VERIF, 'contracts')
    pre = os.path.join(d, '%s.%s.i' % (tag, vname))
    defs = job.get('defines', []) + vdefs
    cmd = ['gcc', '-E', '-x', 'c', '-std=gnu11', '-DMODE_B', '-DPROP(...)=PROP(__VA_ARGS__)', '-DTYPES_H="%s.types.h"' % tag, '-DFNS_C="%s.fns.c"' % tag] + \
          ['-D' + x for x in defs] + ['-I' + cdir, '-I' + d, os.path.join(cdir, job['contract']), '-o', pre]
    rc, out, err, secs = sh(cmd, timeout=60)
    if rc != 0:
        return False, 'cpp: ' + err.strip()[-400:], []
    cmd = [sys.executable, os.path.join(VERIF, 'tools', 'c2h.py'), '--enforce', job['enforce'], '--out', mb, '--uf-mode', ufmode]
    for r_ in job['replace']:
        cmd += ['--replace', r_]
    kf = [k for k in JOBS.known_findings() if k.get('job') == job['id'] and k.get('clause')]
    if kf:
        kff = os.path.join(d, 'known.json'); json.dump(kf, open(kff, 'w')); cmd += ['--known', kff]
    cmd += [pre]
    rc, out, err, secs = sh(cmd, timeout=60)
    if rc != 0:
        return False, 'c2h: ' + err.strip()[-300:], []
    res['clauses'].extend(json.load(open(os.path.join(mb, 'modeb.json')))['clauses'])
    flags = list(CBMC_FLAGS) + job.get('cbmc_flags', [])
    if job.get('unwind'):
        flags += ['--unwind', str(job['unwind']), '--unwinding-assertions']
    src_i = os.path.join(mb, os.path.basename(pre))
    h = hashlib.sha256()
    txt_i = open(src_i, 'rb').read().replace(os.path.dirname(d).encode(), b'@WORK@')
    if os.environ.get('VERIF_REPO', '/repo') != '/repo':
        # experiments on a scratch checkout (tools/try_benign.sh): same text, same verdict -- the checkout's path is not part of the key
        txt_i = txt_i.replace(os.environ['VERIF_REPO'].rstrip('/').encode() + b'/', b'/repo/')
    h.update(txt_i)
    h.update(json.dumps([flags, versions]).encode())
    key = h.hexdigest()
    cf = os.path.join(cache_dir, key + '.json') if cache_dir else None
    gb = os.path.join(mb, 'a.gb')
    cc = ['goto-cc', '--function', 'modeb_harness', src_i, '-o', gb]
    cb = ['cbmc', gb] + flags
    res['checker_cmd'] += ('' if not res['checker_cmd'] else ' ;; ') + ' '.join(cc) + ' && ' + ' '.join(cb)
    if cf and os.path.exists(cf):
        c = json.load(open(cf))
        res['seconds']['goto-cc'] += c['seconds_solver']['goto-cc']; res['seconds']['cbmc'] += c['seconds_solver']['cbmc']
        obs = []
        for o in c['obligations']:      # classification is recomputed (it is not part of the solver's answer)
            kind, cid, tags = classify(o['name'], o['desc'], job)
            obs.append(dict(o, kind=kind, clause=cid, tags=tags))
        return True, '', obs
    res['cache_hit'] = False
    rc, out, err, secs = sh(cc, timeout=300)
    t_cc = round(secs, 2)
    res['seconds']['goto-cc'] += t_cc
    if rc != 0:
        return False, 'goto-cc: ' + (out + err).strip()[-600:], []
    tmo = job.get('timeout', 900 if tier == 'quick' else 3600)
    rc, out, err, secs = sh(cb, timeout=tmo)
    t_cb = round(secs, 2)
    res['seconds']['cbmc'] += t_cb
    open(os.path.join(d, 'cbmc.%s.log' % vname), 'w').write(out + '\n' + err)
    if rc == -9:
        return False, 'cbmc timeout after %ds' % tmo, []
    if rc not in (0, 10):
        return False, 'cbmc rc=%d: %s' % (rc, (out + err).strip()[-400:]), []
    if re.search(r'ignoring forall|SMT2.*Parse Error', out + err):
        return False, 'quantifier ignored by back end', []
    obs = []
    cur_file = None
    for ln in out.split('\n'):
        m = re.match(r'^(\S+) function (\S+)$', ln.strip())
        if m:
            cur_file = m.group(1); continue
        m = RESULT_RE.match(ln.strip())
        if m:
            name, f2, line, desc, st = m.groups()
            kind, cid, tags = classify(name, desc, job)
            obs.append(dict(name=name, file=f2 or cur_file, line=int(line), desc=desc, status=st, kind=kind, clause=cid, tags=tags))
    if cf and obs:
        os.makedirs(cache_dir, exist_ok=True)
        json.dump(dict(obligations=obs, cbmc_rc=rc, seconds_solver={'goto-cc': t_cc, 'cbmc': t_cb}), open(cf + '.tmp', 'w'))
        os.replace(cf + '.tmp', cf)
    return True, '', obs

def attribute(ob, job, prop):
    """does obligation `ob` of `job` belong to property `prop`?"""
    k = ob['kind']
    if k in ('ensures', 'known', 'spec'):
        return prop in ob['tags']
    if k in ('canary', 'no-body', 'model-limit', 'spec-safety') or k.startswith('ignored:'):
        return False
    if k == 'unwind':
        return False
    # safety obligations, callee pre-conditions, std::terminate: C01; arithmetic classes also C03 in C03 jobs
    if prop == 'C01':
        return True
    if prop == 'C03' and 'C03' in job['props'] and k.startswith('safety:') and k.split(':')[1] in ARITH_CLASSES:
        return True
    if prop in job.get('safety_props', []):
        return True
    return False

def make_replay(prop, job, jr, ob, work, replay_dir):
    """re-run the failing obligation with --trace; write the replay file; try the native replay"""
    os.makedirs(replay_dir, exist_ok=True)
    safe = re.sub(r'[^\w.-]+', '_', ob['name'])
    path = os.path.join(replay_dir, '%s__%s.json' % (job['id'], safe))
    d = os.path.join(work, job['id'])
    vname = ob.get('variant', 'main')
    gb = os.path.join(d, 'mb_' + vname, 'a.gb')
    pname = ob['name'][3:] if ob['name'].startswith('uf:') else ob['name']
    rep = dict(property=prop, job=job['id'], function=job['enforce'], source=job['src'], obligation=ob['name'], clause=ob.get('clause'),
               description=ob['desc'], location='%s:%s' % (ob.get('file'), ob.get('line')), reproduced=False)
    trace_txt = ''
    if not os.path.exists(gb):
        # the verdict came from the result cache: rebuild the binary from the preprocessed harness (still in the work
        # directory) so that the counterexample can be extracted and replayed
        mbdir = os.path.dirname(gb)
        srcs = [x for x in (os.listdir(mbdir) if os.path.isdir(mbdir) else []) if x.endswith('.i')]
        if srcs:
            sh(['goto-cc', '--function', 'modeb_harness', os.path.join(mbdir, srcs[0]), '-o', gb], timeout=300)
    if os.path.exists(gb):
        flags = [x for x in CBMC_FLAGS]
        if job.get('unwind'):
            flags += ['--unwind', str(job['unwind'])]
        rc, out, err, secs = sh(['cbmc', gb] + flags + ['--property', pname, '--trace', '--trace-show-function-calls'], timeout=600)
        trace_txt = out
        # cbmc prints one trace per failing property (reachable no-body callees fail too): keep the one asked for
        seg = re.search(r'^Trace for %s:\n(.*?)(?=^Trace for |\Z)' % re.escape(pname), out, re.M | re.S)
        if seg:
            trace_txt = seg.group(0)
    else:
        trace_txt = '(result taken from the solver-result cache; no binary at hand -- rerun with VERIF_NOCACHE=1 for a trace)'
    wit = {}
    for m in re.finditer(r'^\s+(g_\w+(?:\[\d+l?\])?(?:\.\w+)*)=(.*?) \(', trace_txt, re.M):
        wit[m.group(1)] = m.group(2)
    for m in re.finditer(r'^\s+(__exc|__ret)=(.*?) \(', trace_txt, re.M):
        wit[m.group(1)] = m.group(2)
    rep['witness'] = wit
    # a counterexample that runs through a callee WITHOUT body or contract is not a counterexample of the code: CBMC lets such a
    # call return anything.  Such a failure is undecided (model gap), never a violation.
    gaps = []
    for o2 in jr.get('obligations', []):
        if o2.get('kind') == 'no-body' and o2.get('status') != 'SUCCESS':
            mg_ = re.search(r'no body for callee (\S+)', o2.get('desc', ''))
            if mg_ and not re.match(r'__g2c_nondet_\w+$', mg_.group(1)):
                gaps.append(mg_.group(1))
    gaps = sorted(set(gaps))
    if gaps:
        if 'Function call:' in trace_txt or 'Violated property' in trace_txt:
            rep['through_unmodelled'] = [g_ for g_ in gaps if re.search(r'Function call: %s\(' % re.escape(g_), trace_txt)]
        else:
            rep['through_unmodelled'] = gaps   # no trace at hand: cannot tell, so do not claim
    tl = trace_txt.split('\n')
    vi = [i for i, l in enumerate(tl) if l.startswith('Violated property')]
    rep['verifier_output'] = '\n'.join(tl[vi[-1]:vi[-1] + 8]) if vi else '\n'.join(tl[-40:])
    # source line in /repo: the nearest '#line' is already applied by the preprocessor -> cbmc reports it
    native = None
    try:
        import replay_native
        native = replay_native.try_replay(job, wit, ob, work)
    except Exception as e:
        native = dict(attempted=False, why='native replay unavailable: %s' % e)
    rep['native'] = native
    if native and native.get('reproduced'):
        rep['reproduced'] = True
    os.makedirs(replay_dir, exist_ok=True)
    json.dump(rep, open(path, 'w'), indent=1)
    return path, rep['reproduced'], rep.get('through_unmodelled', [])

def main():
    ap = argparse.ArgumentParser()
    ap.add_argument('prop')
    ap.add_argument('--tier', default=os.environ.get('VERIF_TIER', 'quick'))
    ap.add_argument('--jobs', type=int, default=int(os.environ.get('VERIF_JOBS', '16')))
    ap.add_argument('--only', action='append', default=[])
    ap.add_argument('--keep', action='store_true')
    a = ap.parse_args()
    prop = a.prop
    tier = 'thorough' if a.tier == 'thorough' else 'quick'
    seed = int(os.environ.get('VERIF_SEED', '0') or 0)
    t0 = time.time()
    versions = tool_versions()
    sel = [j for j in JOBS.all_jobs() if prop in j['props'] and (not a.only or j['id'] in a.only)]
    if tier == 'thorough':
        # thorough: nothing is taken from the result cache, and bounded jobs run with the larger bounds they declare
        sel = [dict(j, **j['thorough']) if j.get('thorough') else j for j in sel]
    if tier == 'quick':
        sel = [j for j in sel if not j.get('thorough_only')]
    if not sel:
        print('INCONCLUSIVE property=%s no job carries obligations of this property' % prop)
        sys.exit(2)
    work = tempfile.mkdtemp(prefix='verif_%s_' % prop, dir=os.environ.get('TMPDIR', '/tmp'))
    cache_dir = None if (os.environ.get('VERIF_NOCACHE') or tier == 'thorough') else os.path.join(VERIF, '.cache')
    results = []
    try:
        # heavy jobs first
        sel.sort(key=lambda j: -j.get('weight', 1))
        with concurrent.futures.ThreadPoolExecutor(max_workers=a.jobs) as ex:
            futs = {ex.submit(run_job, j, work, tier, cache_dir, versions): j for j in sel}
            for f in concurrent.futures.as_completed(futs):
                j = futs[f]
                try:
                    results.append((j, f.result()))
                except Exception as e:
                    results.append((j, dict(job=j['id'], status='inconclusive', reason='runner exception: %s' % traceback.format_exc()[-400:], obligations=[], seconds={})))
        results.sort(key=lambda x: x[0]['id'])
        known = JOBS.known_findings()
        violations, known_hits, inconcl = [], [], []
        unknown = {}
        total = discharged = 0
        b_total = b_ok = 0
        fuc, samples, bounded, undecided = [], [], [], []
        canaries = 0
        for j, r in results:
            if r['status'] != 'ok':
                inconcl.append('%s: %s' % (j['id'], r['reason'])); continue
            obs = r['obligations']
            # vacuity guards
            can = [o for o in obs if o['kind'] == 'canary']
            need = j.get('canaries', ['normal'])
            for want in need:
                hit = [o for o in can if o['desc'].endswith('returns.' + want)]
                if not hit or hit[0]['status'] != 'FAILURE':
                    inconcl.append('%s: vacuity guard: canary "%s" did not fire (contradictory precondition or stub)' % (j['id'], want))
            canaries += len(can)
            # a call of a function without body or contract matters only where it can be reached (the call-site
            # assertion fails); a call proved unreachable under the contract's preconditions is harmless
            nb = [o for o in obs if o['kind'] == 'no-body' and o['status'] != 'SUCCESS']
            if nb:
                inconcl.append('%s: reachable call to a function without body or contract: %s' % (j['id'], [o['desc'] for o in nb][:3]))
            if any(o['kind'] == 'model-limit' and o['status'] != 'SUCCESS' for o in obs):
                inconcl.append('%s: exception model limit reached' % j['id'])
            bad = [o for o in obs if o['kind'] == 'spec-safety' and o['status'] != 'SUCCESS']
            if bad:
                inconcl.append('%s: the contract text itself has a failing safety obligation: %s' % (j['id'], bad[0]['desc'][:160]))
            if any(o['kind'] == 'unwind' and o['status'] != 'SUCCESS' for o in obs):
                inconcl.append('%s: unwinding assertion failed (bound too small)' % j['id'])
            mine = [o for o in obs if attribute(o, j, prop)]
            if len(mine) < j.get('min_obligations', {}).get(prop, 1):
                inconcl.append('%s: only %d obligations for %s (expected at least %d)' % (j['id'], len(mine), prop, j.get('min_obligations', {}).get(prop, 1)))
            nd = 0
            is_bounded = bool(j.get('bounded_inputs'))
            for o in mine:
                if o['kind'] == 'known':
                    # expected-to-fail half of a clause split by a known finding
                    kid = o['tags'][0]
                    kfe = [k for k in known if k['id'] == kid]
                    if o['status'] == 'FAILURE':
                        known_hits.append((kid, kfe[0]['what'] if kfe else o['desc']))
                    continue
                if is_bounded:
                    # a bounded stand-in is reported separately and never counted as proved
                    b_total += 1
                    if o['status'] == 'SUCCESS':
                        b_ok += 1; nd += 1
                        continue
                else:
                    total += 1
                    if o['status'] == 'SUCCESS':
                        discharged += 1; nd += 1
                        continue
                if o['status'] != 'FAILURE':
                    unknown.setdefault(j['id'], []).append(o['name']); continue
                # a failing safety obligation may be a listed known finding
                kf = JOBS.match_safety_finding(known, prop, j, o)
                if kf:
                    known_hits.append((kf['id'], kf['what']))
                    if is_bounded: b_total -= 1
                    else: total -= 1
                    continue
                violations.append((j, r, o))
            f = dict(function=j['enforce'], pretty=j.get('pretty', ''), source=j['src'], job=j['id'], rendered_lines=r.get('rendered_lines'),
                     mode=r.get('mode'), backend=r.get('backend'), seconds=r.get('seconds'), obligations=len(mine), discharged=nd,
                     cache_hit=r.get('cache_hit', False), callee_contracts=j['replace'])
            if r.get('bounded'):
                f['bounded'] = dict(r['bounded'], counted_as_proved=not is_bounded)
                bounded.append(dict(function=j['enforce'], obligations=len(mine), discharged=nd, counted_as_proved=not is_bounded, **r['bounded']))
            fuc.append(f)
            for o in mine[:400]:
                if o['kind'] == 'ensures' and len(samples) < 12:
                    cl = [c for c in r.get('clauses', []) if c['id'] == o['clause']]
                    samples.append(dict(job=j['id'], obligation=o['clause'], status=o['status'], clause_text=(cl[0]['text'] if cl else o['desc'])[:400]))
            for o in mine:
                if o['kind'].startswith('safety') and len([s for s in samples if s.get('class')]) < 6 and not any(s.get('job') == j['id'] and s.get('class') for s in samples):
                    samples.append(dict(job=j['id'], obligation=o['name'], **{'class': o['kind']}, status=o['status'], text=o['desc'][:200]))
        for jid, names in unknown.items():
            # CBMC reports UNKNOWN for obligations downstream of a failed one
            inconcl.append('%s: %d obligations have status UNKNOWN (first: %s)' % (jid, len(names), names[0]))
        # replay for violations
        replay_dir = os.path.join(VERIF, 'replay', prop)
        shutil.rmtree(replay_dir, ignore_errors=True)
        vlines = []
        real = []
        for j, r, o in violations:
            path, reproduced, through = make_replay(prop, j, r, o, work, replay_dir)
            if through and not reproduced:
                inconcl.append('%s: %s fails only on an execution through %s, which has neither body nor contract here (model gap): undecided, see %s'
                               % (j['id'], o['name'], ', '.join(through[:2]), path))
                continue
            real.append((j, r, o))
            vlines.append('VIOLATION property=%s replay=%s%s' % (prop, path, '' if reproduced else ' no-failing-input-found'))
        violations = real
        seen = set()
        for kid, what in known_hits:
            if kid not in seen:
                seen.add(kid)
                print('KNOWN-FINDING: property=%s %s %s' % (prop, kid, what))
        for l in vlines:
            print(l)
        for l in inconcl:
            print('INCONCLUSIVE property=%s %s' % (prop, l))
        wall = time.time() - t0
        ev = dict(property_id=prop, tier=tier, seed=seed, level='proof', wall_s=round(wall, 2), violations=len(violations),
                  coverage=dict(obligations=total, discharged=discharged,
                                checker_cmd='tools/extract.py (g++ -O0 GIMPLE -> C) ; tools/c2h.py (contract clauses -> harness+stubs) ; goto-cc --function modeb_harness ; cbmc ' + ' '.join(CBMC_FLAGS),
                                trusted_base=JOBS.TRUSTED_BASE, functions_under_contract=fuc, bounded=bounded, bounded_obligations=b_total, bounded_discharged=b_ok, undecided=undecided,
                                inconclusive=inconcl, known_findings=sorted(seen), canaries_fired=canaries,
                                samples=samples, dropped_by_extraction=JOBS.DROPPED, explanation=JOBS.PROP_NOTES.get(prop, '')),
                  assumptions=JOBS.ASSUMPTIONS + JOBS.PROP_ASSUMPTIONS.get(prop, []))
        if total == 0 or discharged == 0:
            # nothing proved without a bound: not a proof-level result
            ev['level'] = 'other'
            if not ev['coverage']['explanation'].strip():
                ev['coverage']['explanation'] = ('bounded contract checking: every obligation of this property that was decided (%d of %d, see coverage.bounded) was decided '
                                                 'by CBMC under a stated bound on a container or loop; none is counted as proved' % (b_ok, b_total))
        if not os.environ.get('VERIF_SCRATCH'):   # experiments (tools/try_builtins.sh) leave the evidence files alone
            os.makedirs(os.path.join(VERIF, 'evidence'), exist_ok=True)
            json.dump(ev, open(os.path.join(VERIF, 'evidence', prop + '.json'), 'w'), indent=1)
        print('%s: %d functions under contract, %d/%d obligations discharged (+%d/%d bounded), %d known findings, %d violations, %d inconclusive, %.1fs'
              % (prop, len(fuc), discharged, total, b_ok, b_total, len(seen), len(violations), len(inconcl), wall))
        if violations:
            sys.exit(1)
        if inconcl:
            sys.exit(2)
        sys.exit(0)
    finally:
        if not a.keep:
            shutil.rmtree(work, ignore_errors=True)
        else:
            print('work dir kept: ' + work)

if __name__ == '__main__':
    main()
