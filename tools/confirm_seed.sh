#!/bin/bash
# confirm_seed.sh <worktree> <i> <seed-id> <property> : confirm a seeded change independently, then store it under /verif/seeded/<seed-id>/
W="$1"; I="$2"; ID="$3"; PROP="$4"
cd "$W" || exit 3
git checkout -q -- . ; git apply out/patch$I.diff || { echo "patch does not apply"; exit 3; }
cmake --build _b -j8 >/dev/null 2>&1 || { echo "BUILD FAILED"; git checkout -q -- .; exit 3; }
T=$(ctest --test-dir _b -j8 --timeout 900 2>&1 | grep "tests passed")
if tail -1 out/demo$I.expected | grep -q "^exit="; then FMT=exit; else FMT=rc; fi
runit() { if [ $FMT = exit ]; then LD_LIBRARY_PATH=_b/blocc timeout 20 _b/apps/bloc out/demo$I.bloc 2>&1; echo "exit=$?"; else LD_LIBRARY_PATH=_b/blocc timeout 20 _b/apps/bloc out/demo$I.bloc 2>&1; echo "rc=$?"; fi; }
OUT_P=$(runit)
git checkout -q -- .
cmake --build _b -j8 >/dev/null 2>&1
OUT_H=$(runit)
if [ $FMT = exit ]; then EXP=$(cat out/demo$I.expected); else EXP=$(cat out/demo$I.expected; echo "rc=0"); fi
echo "tests with change: $T"
if [ "$OUT_H" == "$EXP" ]; then echo "demo on HEAD: matches expected"; H=1; else echo "demo on HEAD: DIFFERS"; H=0; fi
if [ "$OUT_P" != "$EXP" ]; then echo "demo with change: differs from expected (good)"; P=1; else echo "demo with change: SAME (bad)"; P=0; fi
case "$T" in *"100% tests passed"*) TT=1;; *) TT=0;; esac
if [ $H = 1 ] && [ $P = 1 ] && [ $TT = 1 ]; then
  D=/verif/seeded/$ID; mkdir -p $D
  cp out/patch$I.diff $D/patch.diff; cp out/demo$I.bloc $D/demo.bloc; cp out/demo$I.expected $D/demo.expected; cp out/notes$I.md $D/notes.md
  python3 - "$D" "$PROP" "$T" <<'PY'
import json,sys,re
d,prop,t=sys.argv[1:4]
notes=open(d+'/notes.md').read()
json.dump({'property':prop,'breaks':prop,'patch':'patch.diff','demonstration':'demo.bloc (expected output demo.expected on the unchanged tree)',
 'needs_to_manifest':notes[:1500],
 'confirmed':{'how':'applied in a scratch worktree of /repo HEAD, incremental rebuild, ctest, ran demo with and without the change (tools/confirm_seed.sh)','existing_tests_with_change':t,'demo_on_unchanged_tree':'matches demo.expected','demo_with_change':'differs from demo.expected'}},
 open(d+'/meta.json','w'),indent=1)
PY
  echo "stored $D"
else echo "NOT stored"; fi
