/* C17 demo: an instrumented module "probe". Every create / method / destroy
 * event is written to stdout (flushed), so the object lifetime is a trace. */
#include <blocc/plugin.h>
#include <blocc/collection.h>
#include <cstdio>

namespace bloc
{
namespace plugin
{

class ProbePlugin final : public PluginBase
{
public:
  ProbePlugin() = default;
  ~ProbePlugin() override;
  void declareInterface(PLUGIN_INTERFACE * interface) override;
  void * createObject(int ctor_id, bloc::Context& ctx, const std::vector<bloc::Expression*>& args) override;
  void destroyObject(void * object) override;
  Value * executeMethod(bloc::Complex& object_this, int method_id, bloc::Context& ctx,
          const std::vector<bloc::Expression*>& args) override;
};

}
}

PLUGINCREATOR(ProbePlugin)

namespace bloc
{
namespace plugin
{
namespace probe
{

struct Obj { long id; };
static int live = 0;

static void say(const char * what, long id)
{
  printf("%-8s #%ld   (live objects: %d)\n", what, id, live);
  fflush(stdout);
}

static PLUGIN_TYPE ctor_0_args[] = { { "I", 0 } };
static PLUGIN_CTOR ctors[] =
{
  { 0, 1, ctor_0_args, "Build a probe with the given id." },
};

enum Method { Id = 0, Self, Touch, Note, Pair };

static PLUGIN_ARG string_args[] = { { PLUGIN_IN, { "L", 0 } } };

static PLUGIN_METHOD methods[] =
{
  { Id,    "id",    { "I", 0 }, 0, nullptr,     "Returns the id." },
  { Self,  "self",  { "O", 0 }, 0, nullptr,     "Returns the object itself (chaining)." },
  { Touch, "touch", { "B", 0 }, 0, nullptr,     "Logs a touch event." },
  { Note,  "note",  { "B", 0 }, 1, string_args, "Logs a text." },
  { Pair,  "pair",  { "O", 1 }, 0, nullptr,     "Returns a table holding the object twice." },
};

}

ProbePlugin::~ProbePlugin()
{
  printf("module released, objects never destroyed: %d\n", probe::live);
  fflush(stdout);
}

void ProbePlugin::declareInterface(PLUGIN_INTERFACE * interface)
{
  interface->name = "probe";
  interface->method_count = sizeof(probe::methods) / sizeof(PLUGIN_METHOD);
  interface->methods = probe::methods;
  interface->ctors_count = sizeof(probe::ctors) / sizeof(PLUGIN_CTOR);
  interface->ctors = probe::ctors;
}

void * ProbePlugin::createObject(int ctor_id, bloc::Context& ctx, const std::vector<bloc::Expression*>& args)
{
  probe::Obj * o = new probe::Obj { -1 };
  if (ctor_id == 0)
  {
    bloc::Value& a0 = args[0]->value(ctx);
    if (!a0.isNull())
      o->id = (long) *a0.integer();
  }
  probe::live += 1;
  probe::say("create", o->id);
  return o;
}

void ProbePlugin::destroyObject(void * object)
{
  probe::Obj * o = static_cast<probe::Obj*>(object);
  probe::live -= 1;
  probe::say("destroy", o->id);
  o->id = -999;
  delete o;
}

Value * ProbePlugin::executeMethod(bloc::Complex& object_this, int method_id, bloc::Context& ctx,
        const std::vector<bloc::Expression*>& args)
{
  probe::Obj * o = static_cast<probe::Obj*>(object_this.instance());
  switch (method_id)
  {
  case probe::Id:
    return new bloc::Value(bloc::Integer(o->id));
  case probe::Self:
    probe::say("self", o->id);
    return new bloc::Value(new bloc::Complex(object_this));
  case probe::Touch:
    probe::say("touch", o->id);
    return new bloc::Value(bloc::Bool(true));
  case probe::Note:
  {
    bloc::Value& a0 = args[0]->value(ctx);
    printf("-- %s\n", a0.isNull() ? "(null)" : a0.literal()->c_str());
    fflush(stdout);
    return new bloc::Value(bloc::Bool(true));
  }
  case probe::Pair:
  {
    probe::say("pair", o->id);
    bloc::Collection * c = new bloc::Collection(object_this.complex_type().levelUp());
    c->push_back(bloc::Value(new bloc::Complex(object_this)));
    c->push_back(bloc::Value(new bloc::Complex(object_this)));
    return new bloc::Value(c);
  }
  default:
    break;
  }
  return nullptr;
}

}
}
