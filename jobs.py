"""jobs.py -- the functions under contract: which translation unit, which contract file, which callees are
replaced by their contracts, and which properties own obligations of the job."""
import json, os, re

VERIF = os.path.dirname(os.path.abspath(__file__))
DEFAULT_ENUMS = ['bloc::EXC_RT', 'bloc::Type::TypeMajor']
STD_STRING = 'std::__cxx11::basic_string<char, std::char_traits<char>, std::allocator<char> >'
VEC_CHAR = 'std::vector<char, std::allocator<char> >'
DEFAULT_STRUCTS = ['bloc::RuntimeError', 'bloc::Value']

# ---- mangled names used all over ----
VCALL_VALUE   = 'VCALL_Expression_value'
V_MOVE_ASSIGN = '_ZN4bloc5ValueaSEOS0_'
V_CLEAR       = '_ZN4bloc5Value6_clearEv'
V_MOVE_CTOR   = '_ZN4bloc5ValueC1EOS0_'
V_SWAP_RV     = '_ZN4bloc5Value4swapEOS0_'
V_CLONE       = '_ZNK4bloc5Value5cloneEv'
V_CTOR_IMAG   = '_ZN4bloc5ValueC1EPNS_9ImaginaryE'
CTX_ALLOCATE  = '_ZN4bloc7Context8allocateEONS_5ValueE'
RTE_CTOR      = '_ZN4bloc12RuntimeErrorC2ENS_6EXC_RTE'
RTE_CTOR_S    = '_ZN4bloc12RuntimeErrorC2ENS_6EXC_RTEPKc'

EVAL_REPLACE = [VCALL_VALUE, V_MOVE_ASSIGN, V_CLEAR, CTX_ALLOCATE]
EVAL_CUT = EVAL_REPLACE + [RTE_CTOR, RTE_CTOR_S]

OPSYM = {'op_band': '({0} and {1})', 'op_bior': '({0} or {1})', 'op_bxor': '({0} xor {1})', 'op_bnot': '(not {0})', 'op_and': '({0} & {1})',
         'op_ior': '({0} | {1})', 'op_xor': '({0} ^ {1})', 'op_not': '(~{0})', 'op_pop': '({0} << {1})', 'op_pus': '({0} >> {1})',
         'op_add': '({0} + {1})', 'op_sub': '({0} - {1})', 'op_mul': '({0} * {1})', 'op_div': '({0} / {1})', 'op_mod': '({0} % {1})',
         'op_exp': '({0} ** {1})', 'op_neg': '(-{0})', 'op_pos': '(+{0})', 'op_eq': '({0} == {1})', 'op_ne': '({0} != {1})',
         'op_lt': '({0} < {1})', 'op_le': '({0} <= {1})', 'op_gt': '({0} > {1})', 'op_ge': '({0} >= {1})'}
CONST_CTOR_SUFFIX = {'NULLExpression': 'C2Ev', 'TRUEExpression': 'C2Ev', 'FALSEExpression': 'C2Ev', 'PIExpression': 'C2Ev', 'EEExpression': 'C2Ev', 'PHIExpression': 'C2Ev', 'IntegerExpression': 'C2El', 'NumericExpression': 'C2Ed', 'BooleanExpression': 'C2Eb'}
UNARY = ('op_bnot', 'op_not', 'op_neg', 'op_pos')

def op(name, cls, props, contract=None, **kw):
    """a binary/unary operator's value()"""
    mg = '_ZNK4bloc%d%s5valueERNS_7ContextE' % (len(cls), cls)
    j = dict(id=name, src='blocc/operator/%s.cpp' % name, contract=contract or (name + '.c'), enforce=mg, roots=[mg],
             replace=list(EVAL_REPLACE), cut=list(EVAL_CUT), props=props, pretty='bloc::%s::value' % cls, canaries=['normal', 'exceptional'],
             replay=dict(kind='evalnode', headers=['blocc/operator/%s.h' % name], mirror_class=cls, children=(1 if name in UNARY else 2),
                         construct=('new bloc::%s(kids[0])' if name in UNARY else 'new bloc::%s(kids[0], kids[1])') % cls,
                         script=OPSYM.get(name)))
    j.update(kw)
    return j

def all_jobs():
    J = []
    for n, c in (('op_bior', 'OpBIORExpression'), ('op_band', 'OpBANDExpression'), ('op_bxor', 'OpBXORExpression'), ('op_bnot', 'OpBNOTExpression')):
        J.append(op(n, c, ['C01', 'C02', 'C04', 'C05']))
    for n, c in (('op_and', 'OpANDExpression'), ('op_ior', 'OpIORExpression'), ('op_xor', 'OpXORExpression'),
                 ('op_pop', 'OpPOPExpression'), ('op_pus', 'OpPUSExpression'), ('op_not', 'OpNOTExpression')):
        J.append(op(n, c, ['C01', 'C02', 'C03', 'C05']))
    for n, c in (('op_exp', 'OpEXPExpression'), ('op_add', 'OpADDExpression'), ('op_sub', 'OpSUBExpression'), ('op_mul', 'OpMULExpression'), ('op_div', 'OpDIVExpression'), ('op_mod', 'OpMODExpression'),
                 ('op_neg', 'OpNEGExpression'), ('op_pos', 'OpPOSExpression')):
        j = op(n, c, ['C01', 'C02', 'C03', 'C05'], weight=10, uf=(n != 'op_pos'))
        if n == 'op_exp':
            # the power loop runs once per bit of the exponent: unwinding 65 with unwinding assertions is complete;
            # with real 64-bit multipliers that is 128 multiplier circuits, so every obligation of this job is
            # decided under the uninterpreted-function abstraction of * (no obligation of the job concerns *'s value)
            j.update(unwind=65, unwind_why='ipow loop: one iteration per exponent bit (64); complete, not a bound on inputs', uf_all=True, structs=DEFAULT_STRUCTS + ['std::complex<double>'])
        j['replace'] = j['replace'] + [V_CTOR_IMAG] + ([V_CLONE] if n == 'op_add' else [])
        j['cut'] = j['cut'] + [V_CTOR_IMAG] + ([V_CLONE] if n == 'op_add' else [])
        J.append(j)
        if n == 'op_exp':
            for b in (0, 2):
                jb = dict(j); jb.pop('uf_all', None); jb.pop('uf', None)
                jb.update(id='op_exp_base%d' % b, defines=list(j.get('defines', [])) + ['OPEXP_BASE=%d' % b], props=['C03'], pretty='bloc::OpEXPExpression::value (first operand %d)' % b, weight=20)
                jb.pop('replay', None)
                J.append(jb)
    jm = op('op_match', 'OpMATCHExpression', ['C01', 'C02', 'C04', 'C05', 'C17'])
    jm.pop('replay')   # the clauses speak about the ghost model of std::regex: nothing to evaluate natively
    J.append(jm)
    for n, c in (('op_eq', 'OpEQExpression'), ('op_ne', 'OpNEExpression'), ('op_lt', 'OpLTExpression'), ('op_le', 'OpLEExpression'),
                 ('op_gt', 'OpGTExpression'), ('op_ge', 'OpGEExpression')):
        J.append(op(n, c, ['C01', 'C02', 'C04', 'C05'], weight=5))
    for cls in ('NULLExpression', 'TRUEExpression', 'FALSEExpression', 'PIExpression', 'EEExpression', 'PHIExpression', 'IntegerExpression', 'NumericExpression'):
        n = len(cls)
        lit = cls in ('IntegerExpression', 'NumericExpression')
        for kind, mg in (('ctor', '_ZN4bloc%d%s%s' % (n, cls, 'C2EONS_5ValueE' if lit else 'C2Ev')), ('value', '_ZNK4bloc%d%s5valueERNS_7ContextE' % (n, cls))):
            rep = [V_CLEAR] + ([V_MOVE_CTOR] if lit else [])
            src = 'blocc/expression_builtin.cpp'
            if lit:
                src = 'blocc/parse_expression.cpp' if kind == 'ctor' else ('blocc/expression_integer.cpp' if cls == 'IntegerExpression' else 'blocc/expression_numeric.cpp')
            J.append(dict(id='const_%s_%s' % (cls, kind), src=src, contract='const_%s.c' % cls, enforce=mg, roots=[mg], replace=rep,
                          cut=rep + [RTE_CTOR, RTE_CTOR_S], props=(['C01', 'C04', 'C05'] + (['C02'] if (kind == 'value' or lit) else [])), pretty='bloc::%s::%s' % (cls, kind), canaries=['normal']))
    for n, c in (('op_add', 'OpADDExpression'), ('op_sub', 'OpSUBExpression'), ('op_mul', 'OpMULExpression'), ('op_div', 'OpDIVExpression'),
                 ('op_mod', 'OpMODExpression'), ('op_exp', 'OpEXPExpression')):
        mg = '_ZNK4bloc%d%s4typeERNS_7ContextE' % (len(c), c)
        J.append(dict(id='type_' + n, src='blocc/operator/%s.cpp' % n, contract='type_%s.c' % n, enforce=mg, roots=[mg], replace=['VCALL_Expression_type'],
                      cut=['VCALL_Expression_type', RTE_CTOR, RTE_CTOR_S], props=['C01', 'C02'], pretty='bloc::%s::type' % c, canaries=['normal']))
    CX_CUT = ['_ZNK4bloc13PluginManager7pluggedEj', '_ZN4bloc13PluginManager8instanceEv', RTE_CTOR, RTE_CTOR_S]
    for jid, mg, defs in (('complex_dtor', '_ZN4bloc7ComplexD2Ev', []), ('complex_copy', '_ZN4bloc7ComplexC2ERKS0_', []), ('complex_swap', '_ZN4bloc7Complex4swapERS0_', []),
                          ('complex_assign_distinct', '_ZN4bloc7ComplexaSERKS0_', ['ASSIGN_DISTINCT']), ('complex_assign_shared', '_ZN4bloc7ComplexaSERKS0_', [])):
        J.append(dict(id=jid, src='blocc/complex.cpp', contract='complex.c', enforce=mg, roots=[mg], replace=[], cut=CX_CUT, defines=defs,
                      props=['C01', 'C17'], pretty='bloc::Complex (%s)' % jid, canaries=['normal'], structs=DEFAULT_STRUCTS + ['bloc::PLUGGED_MODULE', 'bloc::Complex']))
    for fn in ('bloc_boolean', 'bloc_integer', 'bloc_numeric', 'bloc_literal', 'bloc_tabchar', 'bloc_value_isnull'):
        J.append(dict(id='capi_' + fn, src='blocc/bloc_capi.cpp', contract='capi.c', enforce=fn, roots=[fn], replace=[], cut=[RTE_CTOR, RTE_CTOR_S],
                      props=['C01', 'C15'], pretty=fn, canaries=['normal'], structs=DEFAULT_STRUCTS + [STD_STRING, VEC_CHAR, 'bloc::Error']))
    for fn in ('bloc_table', 'bloc_tuple', 'bloc_imaginary', 'bloc_value_type', 'bloc_assign_null', 'bloc_create_integer', 'bloc_create_numeric', 'bloc_create_boolean', 'bloc_create_null'):
        J.append(dict(id='capi_' + fn, src='blocc/bloc_capi.cpp', contract='capi.c', enforce=fn, roots=[fn], replace=['_ZN4bloc5Value4swapEOS0_', V_CLEAR], cut=[RTE_CTOR, RTE_CTOR_S, '_ZN4bloc5Value4swapEOS0_', V_CLEAR],
                      props=['C01', 'C15'], pretty=fn, canaries=['normal'], defines=['CAPI_MORE'], structs=DEFAULT_STRUCTS + [STD_STRING, VEC_CHAR, 'bloc::Error', 'bloc_type', 'bloc_pair']))
    for fn in ('bloc_array_item', 'bloc_array_size'):
        J.append(dict(id='capi_' + fn, src='blocc/bloc_capi.cpp', contract='capi_array.c', enforce=fn, roots=[fn], replace=[], cut=[RTE_CTOR, RTE_CTOR_S],
                      props=['C01', 'C15'], pretty=fn, canaries=['normal'],
                      structs=DEFAULT_STRUCTS + [STD_STRING, VEC_CHAR, 'bloc::Error', 'bloc::Collection', 'bloc::Expression']))
    STOREV = '_ZN4bloc7Context13storeVariableEjONS_5ValueE'
    for fn, df, rep, cut in (('bloc_ctx_store_variable', 'JOB_STORE', [], [STOREV]), ('bloc_ctx_load_variable', 'JOB_LOAD', [], []), ('bloc_evaluate_expression', 'JOB_EVAL', [VCALL_VALUE], [VCALL_VALUE]),
                             ('bloc_drop_returned', 'JOB_DROP', [], ['_ZN4bloc7Context12dropReturnedEv']), ('bloc_free_value', 'JOB_FREE', [], [V_CLEAR]), ('bloc_create_literal', 'JOB_CREATE_LITERAL', ['_ZN4bloc5ValueC1EPNSt7__cxx1112basic_stringIcSt11char_traitsIcESaIcEEE'], ['_ZN4bloc5ValueC1EPNSt7__cxx1112basic_stringIcSt11char_traitsIcESaIcEEE']),
                             ('bloc_expression_type', 'JOB_EXPR_TYPE', ['VCALL_Expression_type'], ['VCALL_Expression_type']),
                             ('bloc_parse_executable', 'JOB_PARSE_EXEC', [], ['_ZN4bloc6Parser5parseERNS_7ContextERNS0_12StreamReaderEb', '_ZN4bloc12StringReaderC1EPKc', '_ZN4bloc12StringReaderC2EPKc', '_ZN4bloc12StringReaderD1Ev', '_ZN4bloc12StringReaderD2Ev']),
                             ('bloc_execute', 'JOB_EXECUTE', [], ['_ZN4bloc10Executable3runEv']), ('bloc_tuple_size', 'JOB_TUPLE', [], []), ('bloc_tuple_item', 'JOB_TUPLE', [], [])):
        J.append(dict(id='capi_' + fn, src='blocc/bloc_capi.cpp', contract='capi_ctx.c', enforce=fn, roots=[fn], replace=rep, cut=cut + [RTE_CTOR, RTE_CTOR_S], defines=[df],
                      props=['C01', 'C15'], pretty=fn, canaries=['normal'], structs=DEFAULT_STRUCTS + [STD_STRING, VEC_CHAR, 'bloc::Error', 'bloc_type', 'bloc_pair', 'bloc::Context', 'bloc::Symbol', 'bloc::Context::MemorySlot', 'bloc::Expression', 'bloc::Executable', 'bloc::Token', 'bloc::ParseError', 'bloc::Tuple', 'bloc_parsing_position']))
    mg = '_ZN4bloc7Context12dropReturnedEv'
    J.append(dict(id='ctx_dropReturned', src='blocc/context.cpp', contract='capi_ctx.c', enforce=mg, roots=[mg], replace=[], cut=[RTE_CTOR, RTE_CTOR_S], defines=['JOB_CTX_DROP'],
                  props=['C01', 'C15', 'C17'], pretty='bloc::Context::dropReturned', canaries=['normal'], structs=DEFAULT_STRUCTS + [STD_STRING, VEC_CHAR, 'bloc::Context']))
    V_CTOR_LIT_ = '_ZN4bloc5ValueC1EPNSt7__cxx1112basic_stringIcSt11char_traitsIcESaIcEEE'
    for fn in ('bloc_assign_literal',):
        J.append(dict(id='capi_' + fn, src='blocc/bloc_capi.cpp', contract='capi_assign.c', enforce=fn, roots=[fn], replace=['_ZN4bloc5Value4swapEOS0_', V_CLEAR, V_CTOR_LIT_, V_MOVE_ASSIGN, V_MOVE_CTOR], cut=[RTE_CTOR, RTE_CTOR_S, '_ZN4bloc5Value4swapEOS0_', V_CLEAR, V_CTOR_LIT_, V_MOVE_ASSIGN, V_MOVE_CTOR],
                      props=['C01', 'C15'], pretty=fn, canaries=['normal'], structs=DEFAULT_STRUCTS + [STD_STRING, VEC_CHAR, 'bloc::Error', 'bloc_type', 'bloc_pair']))
    V_SWAP_RV_, V_CTOR_LIT = '_ZN4bloc5Value4swapEOS0_', '_ZN4bloc5ValueC1EPNSt7__cxx1112basic_stringIcSt11char_traitsIcESaIcEEE'
    MEMB_REPLACE = [VCALL_VALUE, V_MOVE_ASSIGN, V_CLEAR, CTX_ALLOCATE, V_SWAP_RV_, V_CLONE, V_CTOR_LIT, V_MOVE_CTOR]
    MEMB_CUT = MEMB_REPLACE + [RTE_CTOR, RTE_CTOR_S, '_ZNK4bloc5Value8toStringB5cxx11Ev', '_ZNK4bloc5Value8typeNameB5cxx11Ev']
    COLL_ERASE = '_ZN4bloc10Collection5eraseEN9__gnu_cxx17__normal_iteratorIPKNS_5ValueESt6vectorIS3_SaIS3_EEEE'
    for n, c, props in (('member_put', 'MemberPUTExpression', ['C01', 'C02', 'C05', 'C09', 'C10', 'C14', 'C17']), ('member_delete', 'MemberDELETEExpression', ['C01', 'C02', 'C05', 'C09', 'C14']), ('member_at', 'MemberATExpression', ['C01', 'C02', 'C05', 'C09', 'C10'])):
        mg = '_ZNK4bloc%d%s5valueERNS_7ContextE' % (len(c), c)
        J.append(dict(id=n, src='blocc/member/%s.cpp' % n, contract='%s.c' % n, enforce=mg, roots=[mg], replace=list(MEMB_REPLACE), cut=list(MEMB_CUT) + [COLL_ERASE],
                      props=props, pretty='bloc::%s::value' % c, canaries=['normal', 'exceptional'], unwind=2,
                      unwind_why='Value::deref_value() pointer chase; tables hold no pointers (precondition), so one test of the loop condition is complete',
                      structs=DEFAULT_STRUCTS + [STD_STRING, VEC_CHAR, 'bloc::Collection', 'bloc::Tuple', 'bloc::Context']))
    mg = '_ZNK4bloc19MemberSETExpression5valueERNS_7ContextE'
    J.append(dict(id='member_set', src='blocc/member/member_set.cpp', contract='member_set.c', enforce=mg, roots=[mg], replace=list(MEMB_REPLACE), cut=list(MEMB_CUT) + ['_ZNK4bloc4Type8typeNameB5cxx11Ev'],
                  props=['C01', 'C02', 'C03', 'C05', 'C09'], pretty='bloc::MemberSETExpression::value', canaries=['normal', 'exceptional'], unwind=2,
                  unwind_why='Value::deref_value() pointer chase; tuples hold no pointers (precondition), so one test of the loop condition is complete',
                  structs=DEFAULT_STRUCTS + [STD_STRING, VEC_CHAR, 'bloc::Collection', 'bloc::Tuple', 'bloc::Context', 'bloc::MemberSETExpression']))
    mg = '_ZNK4bloc14ItemExpression5valueERNS_7ContextE'
    J.append(dict(id='item_at', src='blocc/expression_item.cpp', contract='item_at.c', enforce=mg, roots=[mg], replace=list(MEMB_REPLACE), cut=list(MEMB_CUT),
                  props=['C01', 'C02', 'C05', 'C09'], pretty='bloc::ItemExpression::value', canaries=['normal', 'exceptional'], unwind=2,
                  unwind_why='Value::deref_value() pointer chase; tuples hold no pointers (precondition), so one test of the loop condition is complete',
                  structs=DEFAULT_STRUCTS + [STD_STRING, VEC_CHAR, 'bloc::Tuple', 'bloc::Context', 'bloc::ItemExpression']))
    mg = '_ZNK4bloc21MemberCOUNTExpression5valueERNS_7ContextE'
    J.append(dict(id='member_count', src='blocc/member/member_count.cpp', contract='member_count.c', enforce=mg, roots=[mg], replace=list(MEMB_REPLACE), cut=list(MEMB_CUT),
                  props=['C01', 'C02', 'C04', 'C05', 'C09', 'C10'], pretty='bloc::MemberCOUNTExpression::value', canaries=['normal', 'exceptional'], unwind=2,
                  unwind_why='Value::deref_value() pointer chase (complete)',
                  structs=DEFAULT_STRUCTS + [STD_STRING, VEC_CHAR, 'bloc::Collection', 'bloc::Tuple', 'bloc::Context', 'bloc::MemberCOUNTExpression']))
    mg = '_ZNK4bloc18MemberATExpression4typeERNS_7ContextE'
    J.append(dict(id='member_at_type', src='blocc/member/member_at.cpp', contract='member_at_type.c', enforce=mg, roots=[mg], replace=['VCALL_Expression_type'], cut=['VCALL_Expression_type', RTE_CTOR, RTE_CTOR_S],
                  props=['C01', 'C02'], pretty='bloc::MemberATExpression::type', canaries=['normal'],
                  structs=DEFAULT_STRUCTS + [STD_STRING, VEC_CHAR, 'bloc::Context', 'bloc::MemberATExpression']))
    mg = '_ZNK4bloc22MemberINSERTExpression5valueERNS_7ContextE'
    J.append(dict(id='member_insert', src='blocc/member/member_insert.cpp', contract='member_insert.c', enforce=mg, roots=[mg], replace=list(MEMB_REPLACE), cut=list(MEMB_CUT),
                  props=['C01', 'C02', 'C05', 'C09', 'C10', 'C14'], pretty='bloc::MemberINSERTExpression::value', canaries=['normal', 'exceptional'], unwind=2,
                  unwind_why='Value::deref_value() pointer chase; the element loops of table-into-table insertion are outside the contract domain (operand assumption)',
                  structs=DEFAULT_STRUCTS + [STD_STRING, VEC_CHAR, 'bloc::Collection', 'bloc::Tuple', 'bloc::Context']))
    mg = '_ZNK4bloc22MemberCONCATExpression5valueERNS_7ContextE'
    J.append(dict(id='member_concat', src='blocc/member/member_concat.cpp', contract='member_concat.c', enforce=mg, roots=[mg],
                  replace=list(MEMB_REPLACE) + ['_ZN4bloc7Context9getSymbolEj', '_ZN4bloc7Context13storeVariableEjONS_5ValueE'], cut=list(MEMB_CUT) + ['_ZN4bloc7Context9getSymbolEj', '_ZN4bloc7Context13storeVariableEjONS_5ValueE'],
                  props=['C01', 'C02', 'C05', 'C09', 'C14'], pretty='bloc::MemberCONCATExpression::value', canaries=['normal', 'exceptional'], unwind=2,
                  unwind_why='Value::deref_value() pointer chase; the element loops of table-to-table concatenation are outside the contract domain (operand assumption)',
                  structs=DEFAULT_STRUCTS + [STD_STRING, VEC_CHAR, 'bloc::Collection', 'bloc::Tuple', 'bloc::Context', 'bloc::Symbol']))
    HASHFN = '_ZN4blocL17bloc_builtin_hashEjPKcj'
    J.append(dict(id='builtin_hash_loop', src='blocc/builtin/builtin_hash.cpp', contract='builtin_hash.c', enforce=HASHFN, roots=[HASHFN], replace=[], cut=[RTE_CTOR, RTE_CTOR_S],
                  props=['C01', 'C10'], pretty='bloc::bloc_builtin_hash', canaries=['normal'], defines=['HASH_LOOP_JOB', 'HASH_LEN_MAX=6'], unwind=8, bounded_inputs=True,
                  thorough=dict(defines=['HASH_LOOP_JOB', 'HASH_LEN_MAX=12'], unwind=14, unwind_why='DJB hash loop over the buffer: bounded to buffers of at most 12 bytes (thorough tier)'),
                  unwind_why='DJB hash loop over the buffer: bounded to buffers of at most 6 bytes', structs=DEFAULT_STRUCTS + [STD_STRING, VEC_CHAR, 'bloc::Expression', 'bloc::Context']))
    for n, c, props in (('builtin_chr', 'CHRExpression', ['C01', 'C02', 'C05', 'C10']), ('builtin_hash', 'HASHExpression', ['C01', 'C02', 'C05', 'C10'])):
        mg = '_ZNK4bloc%d%s5valueERNS_7ContextE' % (len(c), c)
        J.append(dict(id=n, src='blocc/builtin/%s.cpp' % n, contract='%s.c' % n, enforce=mg, roots=[mg], replace=list(MEMB_REPLACE) + ([HASHFN] if n == 'builtin_hash' else []), cut=list(MEMB_CUT) + ([HASHFN] if n == 'builtin_hash' else []),
                      props=props, pretty='bloc::%s::value' % c, canaries=['normal', 'exceptional'],
                      structs=DEFAULT_STRUCTS + [STD_STRING, VEC_CHAR, 'bloc::Context']))
    mg = '_ZNK4bloc12FORStatement4doitERNS_7ContextE'
    CTX_STUBS = ['_ZN4bloc7Context10topControlEv', '_ZN4bloc7Context14topControlDataEv', '_ZN4bloc7Context12stackControlEPKNS_10ControllerEPv',
                 '_ZN4bloc7Context14unstackControlEv', '_ZN4bloc7Context9getSymbolEj', '_ZN4bloc7Context13storeVariableEjONS_5ValueE',
                 '_ZN4bloc10Executable3runERNS_7ContextERKNSt7__cxx114listIPKNS_9StatementESaIS7_EEE']
    J.append(dict(id='stmt_for_doit', src='blocc/statement_for.cpp', contract='stmt_for.c', enforce=mg, roots=[mg], replace=[VCALL_VALUE] + CTX_STUBS,
                  cut=[VCALL_VALUE, RTE_CTOR, RTE_CTOR_S] + CTX_STUBS, props=['C01', 'C06'], pretty='bloc::FORStatement::doit', canaries=['normal', 'exceptional'],
                  structs=DEFAULT_STRUCTS + ['bloc::Symbol', 'bloc::Context', 'bloc::Executable']))
    mg = '_ZNK4bloc15FORALLStatement4doitERNS_7ContextE'
    FA_STUBS = [s for s in CTX_STUBS if 'getSymbol' not in s and 'storeVariable' not in s]
    J.append(dict(id='stmt_forall_doit', src='blocc/statement_forall.cpp', contract='stmt_forall_doit.c', enforce=mg, roots=[mg], replace=[VCALL_VALUE, V_MOVE_ASSIGN, V_MOVE_CTOR, V_CLEAR] + FA_STUBS,
                  cut=[VCALL_VALUE, RTE_CTOR, RTE_CTOR_S, V_MOVE_ASSIGN, V_MOVE_CTOR, V_CLEAR, '_ZN4bloc7Context9getSymbolEj'] + FA_STUBS, props=['C01', 'C06', 'C08'], pretty='bloc::FORALLStatement::doit', canaries=['normal', 'exceptional'],
                  unwind=2, unwind_why='no loop of its own; Value accessors only',
                  structs=DEFAULT_STRUCTS + [STD_STRING, 'bloc::Symbol', 'bloc::Context', 'bloc::Executable', 'bloc::FORALLStatement', 'bloc::FORALLStatement::RT', 'bloc::Context::MemorySlot', 'bloc::VariableExpression', 'bloc::Expression', 'bloc::Collection']))
    mg = '_ZNK4bloc14WHILEStatement4doitERNS_7ContextE'
    J.append(dict(id='stmt_while_doit', src='blocc/statement_while.cpp', contract='stmt_while.c', enforce=mg, roots=[mg], replace=[VCALL_VALUE] + CTX_STUBS,
                  cut=[VCALL_VALUE, RTE_CTOR, RTE_CTOR_S] + CTX_STUBS, props=['C01', 'C04', 'C05', 'C06'], pretty='bloc::WHILEStatement::doit', canaries=['normal', 'exceptional'],
                  structs=DEFAULT_STRUCTS + ['bloc::Symbol', 'bloc::Context', 'bloc::Executable']))
    mg = '_ZNK4bloc11IFStatement4doitERNS_7ContextE'
    RUN = '_ZN4bloc10Executable3runERNS_7ContextERKNSt7__cxx114listIPKNS_9StatementESaIS7_EEE'
    J.append(dict(id='stmt_if_doit', src='blocc/statement_if.cpp', contract='stmt_if.c', enforce=mg, roots=[mg], replace=[VCALL_VALUE, RUN],
                  cut=[VCALL_VALUE, RTE_CTOR, RTE_CTOR_S, RUN], props=['C01', 'C04', 'C06'], pretty='bloc::IFStatement::doit', canaries=['normal', 'exceptional'],
                  unwind=5, unwind_why='iteration over the rule list, modelled by an array of at most 3 rules (if / elsif / else chains of at most 3 rules)', bounded_inputs=True,
                  transparent=['std::pair<bloc::Expression*, bloc::Executable*>'],
                  structs=DEFAULT_STRUCTS + ['bloc::Symbol', 'bloc::Context', 'bloc::Executable']))
    # ---- C07: begin blocks and the catchable set ----
    PAIR_SE = 'std::pair<' + STD_STRING + ', bloc::Executable*>'
    FINDT = '_ZN4bloc12RuntimeError13findThrowableERKNSt7__cxx1112basic_stringIcSt11char_traitsIcESaIcEEE'
    THRW = '_ZN4bloc12RuntimeError9throwableENS_6EXC_RTE'
    for fn, mg, uw in (('docatch', '_ZNK4bloc14BEGINStatement7docatchERKNS_12RuntimeErrorERNS_7ContextE', 18), ('doit', '_ZNK4bloc14BEGINStatement4doitERNS_7ContextE', 18)):
        J.append(dict(id='stmt_begin_' + fn, src='blocc/statement_begin.cpp', contract='stmt_begin.c', enforce=mg, roots=[mg], replace=[FINDT, THRW],
                      cut=[RUN, FINDT, THRW], props=['C01', 'C07', 'C06'], pretty='bloc::BEGINStatement::' + fn, canaries=['normal', 'exceptional'], defines=['JOB_' + fn.upper()],
                      unwind=uw, unwind_why='iteration over the handler list, modelled by an array of at most 3 `when` clauses; comparison of constant C strings of at most 15 characters (complete)', bounded_inputs=True,
                      transparent=[PAIR_SE], structs=DEFAULT_STRUCTS + [STD_STRING, VEC_CHAR, 'bloc::Expression', 'bloc::Context', 'bloc::Executable', 'bloc::BEGINStatement']))
    for fn, mg in (('throwable', THRW), ('findThrowable', FINDT)):
        J.append(dict(id='rt_' + fn, src='blocc/exception_runtime.cpp', contract='rt_throwable.c', enforce=mg, roots=[mg], replace=[], cut=[],
                      props=['C07'], pretty='bloc::RuntimeError::' + fn, canaries=['normal'], globals=['bloc::RuntimeError::THROWABLES'],
                      unwind=18, unwind_why='loop over the 3 rows of the constant table RuntimeError::THROWABLES; comparison of constant C strings of at most 15 characters (both complete)',
                      enums=['bloc::EXC_RT'], structs=['bloc::RuntimeError', STD_STRING, 'bloc::RuntimeError::THROWABLE']))
    mg = '_ZN4bloc7Context14onRuntimeErrorEv'
    J.append(dict(id='ctx_onRuntimeError', src='blocc/context.cpp', contract='ctx_error.c', enforce=mg, roots=[mg], replace=[], cut=['_ZN4bloc7Context4Pool5purgeEv'],
                  props=['C07'], pretty='bloc::Context::onRuntimeError', canaries=['normal'], unwind=6, bounded_inputs=True,
                  unwind_why='purge loop over the control stack, modelled by an array of at most 4 open loops',
                  structs=DEFAULT_STRUCTS + ['bloc::Context', 'bloc::Context::Control', 'bloc::Controller']))
    mg = '_ZNK4bloc14RAISEStatement4doitERNS_7ContextE'
    J.append(dict(id='stmt_raise_doit', src='blocc/statement_raise.cpp', contract='stmt_raise.c', enforce=mg, roots=[mg], replace=[FINDT], cut=[FINDT, RTE_CTOR, RTE_CTOR_S],
                  props=['C01', 'C07'], pretty='bloc::RAISEStatement::doit', canaries=['exceptional'], unwind=18,
                  unwind_why='comparison of constant C strings of at most 15 characters (complete)',
                  structs=DEFAULT_STRUCTS + [STD_STRING, VEC_CHAR, 'bloc::Expression', 'bloc::Context', 'bloc::RAISEStatement']))
    mg = '_ZNK4bloc9Statement7executeERNS_7ContextE'
    J.append(dict(id='stmt_execute', src='blocc/statement.cpp', contract='stmt_execute.c', enforce=mg, roots=[mg], replace=[],
                  cut=['_ZNK4bloc9Statement9trace_preERNS_7ContextE', '_ZNK4bloc9Statement10trace_postERNS_7ContextE', '_ZN4bloc7Context4Pool5clearEv'],
                  props=['C07'], pretty='bloc::Statement::execute', canaries=['normal', 'exceptional'],
                  structs=DEFAULT_STRUCTS + ['bloc::Context', 'bloc::Statement']))
    J.append(dict(id='exec_run', src='blocc/executable.cpp', contract='exec_run.c', enforce=RUN, roots=[RUN], replace=[], cut=['_ZN4bloc7Context14onRuntimeErrorEv', mg],
                  props=['C06', 'C07'], pretty='bloc::Executable::run', canaries=['normal', 'exceptional'], unwind=10, bounded_inputs=True,
                  unwind_why='statement list modelled by an array of at most 2 statements; at most 3 statement steps per run',
                  structs=DEFAULT_STRUCTS + ['bloc::Context', 'bloc::Statement', 'bloc::Executable']))
    # ---- C16: plugin permissions ----
    BANNED = '_ZN4bloc13PluginManager12bannedPluginERKNSt7__cxx1112basic_stringIcSt11char_traitsIcESaIcEEE'
    UNBAN = '_ZN4bloc13PluginManager11unbanPluginERKNSt7__cxx1112basic_stringIcSt11char_traitsIcESaIcEEE'
    for fn, mg in (('bannedPlugin', BANNED), ('unbanPlugin', UNBAN)):
        J.append(dict(id='pm_' + fn, src='blocc/plugin_manager.cpp', contract='plugin_perm.c', enforce=mg, roots=[mg], replace=[], cut=[],
                      props=['C16'], pretty='bloc::PluginManager::' + fn, canaries=['normal'], unwind=6, bounded_inputs=True,
                      unwind_why='search loop over the list of granted names, modelled by an array of at most 3 names',
                      enums=['bloc::EXC_RT'], structs=['bloc::RuntimeError', STD_STRING, 'bloc::PluginManager']))
    mg = '_ZN4bloc21ComplexCTORExpression5parseERNS_6ParserERNS_7ContextEj'
    J.append(dict(id='ctor_parse', src='blocc/expression_complex_ctor.cpp', contract='ctor_parse.c', enforce=mg, roots=[mg], replace=[], cut=[BANNED],
                  props=['C16'], pretty='bloc::ComplexCTORExpression::parse', canaries=['normal', 'exceptional'], unwind=8, bounded_inputs=True,
                  unwind_why='argument list of at most 2 expressions (stub of Parser::pop yields at most 5 tokens), one candidate constructor',
                  structs=DEFAULT_STRUCTS + [STD_STRING, 'bloc::Context', 'bloc::ComplexCTORExpression', 'bloc::PLUGGED_MODULE', 'bloc::Token', 'bloc::ParseError', 'bloc::PluginManager', 'PLUGIN_CTOR', 'PLUGIN_INTERFACE', 'PLUGIN_TYPE']))
    mg = '_ZNK4bloc16INCLUDEStatement4doitERNS_7ContextE'
    J.append(dict(id='include_doit', src='blocc/statement_include.cpp', contract='include_doit.c', enforce=mg, roots=[mg], replace=[],
                  cut=['_ZN4bloc10Executable3runERNS_7ContextERKNSt7__cxx114listIPKNS_9StatementESaIS7_EEE', '_ZN4bloc10Executable3runEv', RTE_CTOR, RTE_CTOR_S],
                  props=['C01', 'C07', 'C14'], pretty='bloc::INCLUDEStatement::doit', canaries=['normal', 'exceptional'],
                  structs=DEFAULT_STRUCTS + [STD_STRING, 'bloc::Context', 'bloc::INCLUDEStatement', 'bloc::Executable', 'bloc::Statement']))
    mg = '_ZN4bloc16INCLUDEStatement10loadSourceERNS_6ParserERNS_7ContextE'
    J.append(dict(id='include_loadSource', src='blocc/statement_include.cpp', contract='include_load.c', enforce=mg, roots=[mg], replace=[VCALL_VALUE], cut=[VCALL_VALUE, RTE_CTOR, RTE_CTOR_S],
                  props=['C16'], pretty='bloc::INCLUDEStatement::loadSource', canaries=['exceptional'], unwind=3,
                  unwind_why='the statement loop of an included file is unreachable under the precondition (untrusted context)',
                  structs=DEFAULT_STRUCTS + [STD_STRING, 'bloc::Context', 'bloc::INCLUDEStatement', 'bloc::Parser', 'bloc::ParseError', 'bloc::Token']))
    mg = '_ZN4bloc15IMPORTStatement5parseERNS_6ParserERNS_7ContextE'
    J.append(dict(id='import_parse', src='blocc/statement_import.cpp', contract='import_parse.c', enforce=mg, roots=[mg], replace=[], cut=['_ZN4bloc9StatementD2Ev'],
                  props=['C16'], pretty='bloc::IMPORTStatement::parse', canaries=['normal', 'exceptional'],
                  structs=DEFAULT_STRUCTS + [STD_STRING, 'bloc::Context', 'bloc::IMPORTStatement', 'bloc::Token', 'bloc::ParseError', 'bloc::Expression']))
    mg = '_ZNK4bloc7Context16createChildShellERS0_'
    J.append(dict(id='ctx_createChildShell', src='blocc/context.cpp', contract='ctx_child.c', enforce=mg, roots=[mg], replace=[], cut=[],
                  props=['C16'], pretty='bloc::Context::createChildShell', canaries=['normal'],
                  structs=DEFAULT_STRUCTS + [STD_STRING, 'bloc::Context']))
    mg = '_ZNK4bloc7Context18createChildRuntimeERS0_h'
    J.append(dict(id='ctx_createChildRuntime', src='blocc/context.cpp', contract='ctx_child.c', enforce=mg, roots=[mg], replace=[], cut=[], defines=['JOB_RUNTIME'],
                  props=['C01', 'C08', 'C14'], pretty='bloc::Context::createChildRuntime', canaries=['normal'], unwind=4, bounded_inputs=True,
                  unwind_why='declared symbol table of at most 2 slots',
                  structs=DEFAULT_STRUCTS + [STD_STRING, 'bloc::Context', 'bloc::Symbol', 'bloc::Context::MemorySlot']))
    # ---- C08: function environments ----
    mg = '_ZNK4bloc7Context17resetChildRuntimeERS0_'
    J.append(dict(id='ctx_resetChildRuntime', src='blocc/context.cpp', contract='ctx_reset.c', enforce=mg, roots=[mg], replace=[V_MOVE_ASSIGN, V_CLEAR], cut=[V_MOVE_ASSIGN, V_CLEAR],
                  props=['C01', 'C08'], pretty='bloc::Context::resetChildRuntime', canaries=['normal'], unwind=6, bounded_inputs=True,
                  unwind_why='declared symbol table of at most 2 slots, runtime table of at most 3',
                  structs=DEFAULT_STRUCTS + [STD_STRING, 'bloc::Context', 'bloc::Symbol', 'bloc::Context::MemorySlot']))
    mg = '_ZN4bloc14FunctorManager9createEnvERNS_7ContextEjRKSt6vectorIPNS_10ExpressionESaIS5_EE'
    STORE = '_ZNK4bloc18VariableExpression5storeERNS_7ContextES2_PNS_10ExpressionE'
    J.append(dict(id='fm_createEnv', src='blocc/functor_manager.cpp', contract='fn_env.c', enforce=mg, roots=[mg], replace=[], cut=[STORE, RTE_CTOR, RTE_CTOR_S],
                  props=['C01', 'C07', 'C08', 'C17'], pretty='bloc::FunctorManager::createEnv', canaries=['normal', 'exceptional'], unwind=5, bounded_inputs=True,
                  unwind_why='parameter list of at most 2 symbols',
                  structs=DEFAULT_STRUCTS + [STD_STRING, 'bloc::FunctorManager', 'bloc::FunctorManager::Entry', 'bloc::FunctorManager::Env', 'bloc::Functor', 'bloc::Context', 'bloc::VariableExpression', 'bloc::Symbol']))
    J.append(dict(id='fm_createEnv_noparams', src='blocc/functor_manager.cpp', contract='fn_env.c', enforce=mg, roots=[mg], replace=[], cut=[STORE, RTE_CTOR, RTE_CTOR_S],
                  props=['C01', 'C07', 'C08', 'C17'], pretty='bloc::FunctorManager::createEnv (functions without parameters)', canaries=['normal', 'exceptional'], unwind=2, defines=['JOB_NO_PARAMS'],
                  unwind_why='the binding loop runs over an empty parameter list (precondition): one test of its condition is complete',
                  structs=DEFAULT_STRUCTS + [STD_STRING, 'bloc::FunctorManager', 'bloc::FunctorManager::Entry', 'bloc::FunctorManager::Env', 'bloc::Functor', 'bloc::Context', 'bloc::VariableExpression', 'bloc::Symbol']))
    # ---- C11: rollback of a rejected text ----
    mg = '_ZN4bloc7Context10parsingEndEv'
    J.append(dict(id='ctx_parsingEnd', src='blocc/context.cpp', contract='ctx_parsing.c', enforce=mg, roots=[mg], replace=[], cut=[],
                  props=['C01', 'C02', 'C11', 'C15'], pretty='bloc::Context::parsingEnd', canaries=['normal'], unwind=6, bounded_inputs=True,
                  unwind_why='backup list of at most 3 entries over a table of 2 symbols',
                  structs=DEFAULT_STRUCTS + [STD_STRING, 'bloc::Context', 'bloc::Symbol', 'bloc::Context::MemorySlot',
                                             '__gnu_cxx::__normal_iterator<bloc::Symbol const*, std::vector<bloc::Symbol, std::allocator<bloc::Symbol> > >',
                                             '__gnu_cxx::__normal_iterator<bloc::Symbol*, std::vector<bloc::Symbol, std::allocator<bloc::Symbol> > >']))
    for fn, mg in (('rollback', '_ZN4bloc14FunctorManager8rollbackEv'),
                   ('createOrReplace', '_ZN4bloc14FunctorManager15createOrReplaceERKNSt7__cxx1112basic_stringIcSt11char_traitsIcESaIcEEERKSt6vectorINS_6SymbolESaISA_EE')):
        J.append(dict(id='fm_' + fn, src='blocc/functor_manager.cpp', contract='fm_rollback.c', enforce=mg, roots=[mg], replace=[], cut=[],
                      props=['C01', 'C11', 'C15'], pretty='bloc::FunctorManager::' + fn, canaries=['normal'], unwind=6, bounded_inputs=True, defines=['JOB_' + fn.upper()],
                      unwind_why='declaration list of at most 3 functions',
                      structs=DEFAULT_STRUCTS + [STD_STRING, 'bloc::FunctorManager', 'bloc::FunctorManager::Entry', 'bloc::Functor', 'bloc::Context', 'bloc::Symbol']))
    mg = '_ZNK4bloc22MemberMETHODExpression5valueERNS_7ContextE'
    J.append(dict(id='member_method', src='blocc/member/member_complex.cpp', contract='member_method.c', enforce=mg, roots=[mg], replace=[VCALL_VALUE, V_CLEAR, CTX_ALLOCATE],
                  cut=[VCALL_VALUE, V_CLEAR, CTX_ALLOCATE, V_MOVE_ASSIGN, RTE_CTOR, RTE_CTOR_S], props=['C01', 'C04', 'C17'], pretty='bloc::MemberMETHODExpression::value', canaries=['normal', 'exceptional'],
                  structs=DEFAULT_STRUCTS + ['bloc::Context', 'bloc::Complex', 'bloc::MemberMETHODExpression', 'bloc::PLUGGED_MODULE', 'bloc::PluginManager', 'PLUGIN_METHOD', 'bloc::plugin::PluginBase', 'bloc::Expression']))
    # ---- C18: the UTF-8 decoder of the utf8 module ----
    U8 = {'P0': '_ZN10utf8helperL3_p0EPNS_6ParserEh', 'P1U2': '_ZN10utf8helperL6_p1_u2EPNS_6ParserEh', 'P1U3': '_ZN10utf8helperL6_p1_u3EPNS_6ParserEh', 'P2U3': '_ZN10utf8helperL6_p2_u3EPNS_6ParserEh',
          'P1U4': '_ZN10utf8helperL6_p1_u4EPNS_6ParserEh', 'P2U4': '_ZN10utf8helperL6_p2_u4EPNS_6ParserEh', 'P3U4': '_ZN10utf8helperL6_p3_u4EPNS_6ParserEh'}
    for k, mg in U8.items():
        J.append(dict(id='utf8_' + k.lower(), src='modules/utf8/utf8helper.cpp', contract='utf8_parser.c', enforce=mg, roots=sorted(U8.values()), replace=[], cut=[],
                      props=['C01', 'C18'], pretty='utf8helper::_' + k.lower().replace('u', '_u', 1) if k != 'P0' else 'utf8helper::_p0', canaries=['normal'], defines=['JOB_' + k],
                      render_ns=['utf8helper'], globals_src='modules/utf8/utf8helper_charmap.cpp', enums=[],
                      globals=['extent:utf8helper::charmap_us7ascii', 'utf8helper::pagemap_16', 'utf8helper::pagemap_24_e1', 'utf8helper::pagemap_24_e2', 'utf8helper::pagemap_32_f0_90', 'utf8helper::pagemap_32_f0_9e'],
                      structs=['utf8helper::Parser', 'utf8helper::character']))
    mg = '_ZNK4bloc15FORALLStatement15finalizeControlERNS_7ContextEPv'
    J.append(dict(id='stmt_forall_finalize', src='blocc/statement_forall.cpp', contract='stmt_forall.c', enforce=mg, roots=[mg], replace=[V_CLEAR], cut=[V_CLEAR, '_ZN4bloc7Context9getSymbolEj'],
                  props=['C01', 'C06', 'C07', 'C17'], pretty='bloc::FORALLStatement::finalizeControl', canaries=['normal'],
                  structs=DEFAULT_STRUCTS + ['bloc::FORALLStatement', 'bloc::FORALLStatement::RT', 'bloc::Context', 'bloc::Symbol', 'bloc::Context::MemorySlot', 'bloc::VariableExpression', 'bloc::Expression']))
    EXEC_CTORS = ['_ZN4bloc10ExecutableC1ERNS_7ContextERKNSt7__cxx114listIPKNS_9StatementESaIS7_EEE', '_ZN4bloc10ExecutableC2ERNS_7ContextERKNSt7__cxx114listIPKNS_9StatementESaIS7_EEE']
    for jid, mg, df, src, cls in (('stmt_forall_parse_clause', '_ZN4bloc15FORALLStatement12parse_clauseERNS_6ParserERNS_7ContextEPS0_', 'JOB_FORALL', 'blocc/statement_forall.cpp', 'FORALLStatement'),
                                  ('stmt_for_parse_clause', '_ZN4bloc12FORStatement12parse_clauseERNS_6ParserERNS_7ContextEPS0_', 'JOB_FOR', 'blocc/statement_for.cpp', 'FORStatement'),
                                  ('stmt_if_parse_clause', '_ZN4bloc11IFStatement12parse_clauseERNS_6ParserERNS_7ContextEPS0_', 'JOB_IF', 'blocc/statement_if.cpp', 'IFStatement'),
                                  ('stmt_while_parse_clause', '_ZN4bloc14WHILEStatement12parse_clauseERNS_6ParserERNS_7ContextEPNS_9StatementE', 'JOB_WHILE', 'blocc/statement_while.cpp', 'WHILEStatement')):
        J.append(dict(id=jid, src=src, contract='stmt_forall_parse.c', enforce=mg, roots=[mg], replace=[], defines=[df],
                      cut=['_ZN4bloc7Context9getSymbolEj', '_ZN4bloc7Context9execBeginEPKNS_9StatementE', '_ZN4bloc7Context7execEndEv'] + EXEC_CTORS,
                      props=['C01', 'C11'] + (['C09', 'C17'] if df == 'JOB_FORALL' else []), pretty='bloc::%s::parse_clause' % cls, canaries=['normal', 'exceptional'], unwind=12, bounded_inputs=True,
                      unwind_why='body of at most 2 statements (stub of Parser::pop yields at most 5 tokens)',
                      structs=DEFAULT_STRUCTS + [STD_STRING, 'bloc::' + cls, 'bloc::Context', 'bloc::Symbol', 'bloc::VariableExpression', 'bloc::Expression', 'bloc::Statement', 'bloc::Executable', 'bloc::Parser', 'bloc::ParseError', 'bloc::Token']))
    J.append(dict(id='tokenizer_buf', src='blocc/lex._tokenizer.c', contract='tokenizer_buf.c', enforce='tokenizer_buf', roots=['tokenizer_buf'], replace=[], cut=[], c_source=True,
                  props=['C01', 'C13'], pretty='tokenizer_buf (tokenizer.lex)', canaries=['normal'], unwind=8, bounded_inputs=True,
                  unwind_why='chunks of at most 3 bytes from the reader stub (flex copies them byte by byte)', enums=[], structs=[]))
    # ---- C01: the binary-operator levels of the expression parser (ownership of operands on the error paths) ----
    PE = '_ZN4bloc15ParseExpression%sEv'
    # (relation and logic compare token spellings and build MATCH nodes: their rendering reaches the exception-model limit of the harness; not under contract)
    for lvl, sub in (('4term', '7primary'), ('3sum', '4term'), ('8bitshift', '3sum'), ('8bitlogic', '8bitshift')):
        mg = PE % lvl
        J.append(dict(id='parse_' + lvl[1:], src='blocc/parse_expression.cpp', contract='parse_binop.c', enforce=mg, roots=[mg], replace=[], cut=[PE % sub, RTE_CTOR, RTE_CTOR_S, '_ZNK4bloc4Type8typeNameB5cxx11Ev'],
                      defines=['PARSE_FN=' + mg, 'SUB_FN=' + (PE % sub)], props=['C01'], pretty='bloc::ParseExpression::%s()' % lvl[1:], canaries=['normal', 'exceptional'], unwind=8, bounded_inputs=True,
                      unwind_why='at most 5 tokens from the stub of Parser::pop (two operators in a row), operands from the level below',
                      structs=DEFAULT_STRUCTS + [STD_STRING, 'bloc::Context', 'bloc::ParseExpression', 'bloc::Parser', 'bloc::ParseError', 'bloc::Token']))
    # (a variant with a full 1023-byte first chunk -- the path that joins the chunks of a long line -- exists in contracts/tokenizer_buf.c under
    #  TOK_LONG_LINE; CBMC does not finish it within 900 s (flex copies 1026 bytes one by one, memcpy of 1023 bytes): not registered, see DESIGN 0.5)
    # ---- C13: stream readers ----
    mg = '_ZN4bloc12StringReader4readEPNS_6ParserEPci'
    J.append(dict(id='reader_string', src='blocc/string_reader.cpp', contract='reader_string.c', enforce=mg, roots=[mg], replace=[], cut=[],
                  props=['C13'], pretty='bloc::StringReader::read', canaries=['normal'], unwind=9, bounded_inputs=True,
                  unwind_why='texts of at most 6 bytes (every content, position and buffer size)', enums=[],
                  structs=['bloc::StringReader', STD_STRING,
                           '__gnu_cxx::__normal_iterator<char*, std::__cxx11::basic_string<char, std::char_traits<char>, std::allocator<char> > >']))
    mg = '_ZN8ReadFile4readEPN4bloc6ParserEPci'
    J.append(dict(id='reader_file', src='apps/read_file.cpp', contract='reader_file.c', enforce=mg, roots=[mg], replace=[], cut=[],
                  props=['C13'], pretty='ReadFile::read', canaries=['normal'], unwind=9, bounded_inputs=True,
                  unwind_why='files of at most 6 bytes (every content, position and buffer size)', enums=[], structs=['ReadFile']))
    # ---- Value::clone: the copy primitive behind assignment, argument binding and Context::clone (C05, C14) ----
    mg = '_ZNK4bloc5Value5cloneEv'
    J.append(dict(id='value_clone', src='blocc/value.cpp', contract='value_clone.c', enforce=mg, roots=[mg], replace=[V_CLEAR, V_MOVE_ASSIGN], cut=[V_CLEAR, V_MOVE_ASSIGN],
                  props=['C01', 'C05', 'C14', 'C17'], pretty='bloc::Value::clone', canaries=['normal'], unwind=3,
                  unwind_why='Value::deref_value() pointer chase and the recursive clone of a pointee: pointer values are outside the domain (precondition), so neither is entered',
                  structs=DEFAULT_STRUCTS + [STD_STRING, VEC_CHAR, 'bloc::Imaginary']))
    mg = '_ZN4bloc14FunctorManager5resetERKS0_'
    J.append(dict(id='fm_reset', src='blocc/functor_manager.cpp', contract='fm_reset.c', enforce=mg, roots=[mg], replace=[], cut=[],
                  props=['C01', 'C14'], pretty='bloc::FunctorManager::reset', canaries=['normal'], unwind=5, bounded_inputs=True,
                  unwind_why='source declaration list of at most 2 functions',
                  structs=DEFAULT_STRUCTS + [STD_STRING, 'bloc::FunctorManager', 'bloc::FunctorManager::Entry', 'bloc::Functor', 'bloc::Context']))
    mg = '_ZNK4bloc7Context5cloneEv'
    J.append(dict(id='ctx_clone', src='blocc/context.cpp', contract='ctx_clone.c', enforce=mg, roots=[mg], replace=[], cut=['_ZN4bloc7ContextC1Eii', '_ZN4bloc7ContextC2Eii'],
                  props=['C01', 'C14', 'C16'], pretty='bloc::Context::clone', canaries=['normal'], unwind=5, bounded_inputs=True, defines=['JOB_CLONE'],
                  unwind_why='symbol table of at most 2 slots',
                  structs=DEFAULT_STRUCTS + [STD_STRING, 'bloc::Context', 'bloc::Context::MemorySlot', 'bloc::Symbol']))
    mg = '_ZN4bloc7Context10MemorySlotC2ERKS1_'
    J.append(dict(id='ctx_memoryslot_copy', src='blocc/context.cpp', contract='ctx_clone.c', enforce=mg, roots=[mg], replace=[V_CLONE, V_MOVE_CTOR, V_CLEAR], cut=[V_CLONE, V_MOVE_CTOR, V_CLEAR],
                  props=['C01', 'C05', 'C14'], pretty='bloc::Context::MemorySlot::MemorySlot(const MemorySlot&)', canaries=['normal'], defines=['JOB_SLOT'],
                  structs=DEFAULT_STRUCTS + [STD_STRING, 'bloc::Context', 'bloc::Context::MemorySlot', 'bloc::Symbol']))
    mg = '_ZN4bloc5Value6_clearEv'
    J.append(dict(id='value_clear', src='blocc/value.cpp', contract='value_clear.c', enforce=mg, roots=[mg], replace=[], cut=[],
                  props=['C01', 'C17'], pretty='bloc::Value::_clear', canaries=['normal'], structs=DEFAULT_STRUCTS + [STD_STRING, VEC_CHAR]))
    for jid, mg, df in (('value_move_assign', '_ZN4bloc5ValueaSEOS0_', 'JOB_MOVE_ASSIGN'), ('value_swap_rv', '_ZN4bloc5Value4swapEOS0_', 'JOB_SWAP_RV'),
                        ('value_move_ctor', '_ZN4bloc5ValueC2EOS0_', 'JOB_MOVE_CTOR'), ('value_swap_lv', '_ZN4bloc5Value4swapERS0_', 'JOB_SWAP_LV')):
        J.append(dict(id=jid, src='blocc/value.cpp', contract='value_core.c', enforce=mg, roots=[mg], replace=[], cut=['_ZN4bloc5Value6_clearEv'], defines=[df],
                      props=['C01', 'C05', 'C17'], pretty=jid.replace('value_', 'bloc::Value ') , canaries=['normal'], structs=DEFAULT_STRUCTS))
    mg = '_ZN4bloc7Context4Pool4keepEONS_5ValueE'
    J.append(dict(id='ctx_pool_keep', src='blocc/builtin/builtin_abs.cpp', contract='ctx_pool.c', enforce=mg, roots=[mg], replace=[], cut=['_ZN4bloc5Value4swapEOS0_', V_MOVE_CTOR],
                  props=['C01', 'C05', 'C17'], pretty='bloc::Context::Pool::keep (Context::allocate)', canaries=['normal'], bounded_inputs=True, unwind=2, defines=['ENFORCING_VALUE_CORE'],
                  unwind_why='no loop; the pool is modelled by an array of at most 3 slots', structs=DEFAULT_STRUCTS + ['bloc::Context::Pool']))
    mg = '_ZN4bloc7Context13storeVariableEjONS_5ValueE'
    J.append(dict(id='ctx_storeVariable', src='blocc/context.cpp', contract='ctx_store.c', enforce=mg, roots=[mg], replace=['_ZN4bloc5Value4swapEOS0_', V_CLEAR],
                  cut=['_ZN4bloc5Value4swapEOS0_', V_CLONE, V_CLEAR, RTE_CTOR, RTE_CTOR_S, '_ZNK4bloc5Value8typeNameB5cxx11Ev'], defines=['ENFORCING_VALUE_CLONE'],
                  props=['C01', 'C02', 'C05', 'C08'], pretty='bloc::Context::storeVariable', canaries=['normal', 'exceptional'],
                  structs=DEFAULT_STRUCTS + [STD_STRING, 'bloc::Context', 'bloc::Symbol', 'bloc::Context::MemorySlot', 'bloc::Collection', 'bloc::Tuple']))
    for jid, mg, df in (('symbol_check_safety', '_ZNK4bloc6Symbol12check_safetyERKNS_4TypeE', 'JOB_CHECK'), ('symbol_upgrade', '_ZN4bloc6Symbol7upgradeERKNS_4TypeE', 'JOB_UPGRADE')):
        J.append(dict(id=jid, src='blocc/symbol.cpp', contract='symbol.c', enforce=mg, roots=[mg], replace=[], cut=[], defines=[df],
                      props=['C01', 'C02'], pretty='bloc::Symbol::' + ('check_safety' if df == 'JOB_CHECK' else 'upgrade(const Type&)'), canaries=['normal'], enums=[],
                      structs=[STD_STRING, 'bloc::Type', 'bloc::Symbol']))
    mg = '_ZNK4bloc18VariableExpression4typeERNS_7ContextE'
    J.append(dict(id='var_type', src='blocc/expression_variable.cpp', contract='var_type.c', enforce=mg, roots=[mg], replace=[], cut=['_ZN4bloc7Context9getSymbolEj', RTE_CTOR, RTE_CTOR_S],
                  props=['C01', 'C02'], pretty='bloc::VariableExpression::type', canaries=['normal'], unwind=3, unwind_why='Value::deref_value() pointer chase (complete: an iterator points to an element, never to a pointer)',
                  structs=DEFAULT_STRUCTS + [STD_STRING, 'bloc::Context', 'bloc::Symbol', 'bloc::Context::MemorySlot', 'bloc::VariableExpression']))
    mg = '_ZN4bloc7Context14registerSymbolERKNSt7__cxx1112basic_stringIcSt11char_traitsIcESaIcEEERKNS_4TypeE'
    J.append(dict(id='ctx_registerSymbol', src='blocc/context.cpp', contract='ctx_register.c', enforce=mg, roots=[mg], replace=[],
                  cut=['_ZN4bloc7Context10findSymbolERKNSt7__cxx1112basic_stringIcSt11char_traitsIcESaIcEEE', '_ZNK4bloc6Symbol12check_safetyERKNS_4TypeE', '_ZN4bloc6Symbol7upgradeERKNS_4TypeE',
                       '_ZN4bloc6SymbolC1EjRKNSt7__cxx1112basic_stringIcSt11char_traitsIcESaIcEEERKNS_4TypeE', '_ZN4bloc6SymbolC2EjRKNSt7__cxx1112basic_stringIcSt11char_traitsIcESaIcEEERKNS_4TypeE',
                       '_ZN4bloc7Context10MemorySlotC1EONS_6SymbolE', '_ZN4bloc7Context10MemorySlotC2EONS_6SymbolE', '_ZN4bloc7Context10MemorySlotD1Ev', '_ZN4bloc7Context10MemorySlotD2Ev', '_ZN4bloc6SymbolD1Ev', '_ZN4bloc6SymbolD2Ev'],
                  props=['C01', 'C02', 'C11'], pretty='bloc::Context::registerSymbol(name, type)', canaries=['normal', 'exceptional'],
                  structs=DEFAULT_STRUCTS + [STD_STRING, 'bloc::Context', 'bloc::Symbol', 'bloc::Context::MemorySlot', 'bloc::ParseError']))
    for jid, mg, df, src, cls in (('collection_copy', '_ZN4bloc10CollectionC2ERKS0_', 'JOB_COLLECTION', 'blocc/collection.cpp', 'Collection'), ('tuple_copy', '_ZN4bloc5TupleC2ERKS0_', 'JOB_TUPLE', 'blocc/tuple.cpp', 'Tuple')):
        J.append(dict(id=jid, src=src, contract='coll_copy.c', enforce=mg, roots=[mg], replace=[], cut=[V_CLONE], defines=[df],
                      props=['C01', 'C14', 'C17'], pretty='bloc::%s::%s(const %s&)' % (cls, cls, cls), canaries=['normal'], unwind=5, bounded_inputs=True,
                      unwind_why='tables / tuples of at most 2 elements (every element tag)',
                      enums=['bloc::Type::TypeMajor'],
                      structs=['bloc::Value', 'bloc::Type', STD_STRING, 'bloc::Collection', 'bloc::Tuple']))
    mg = '_ZNK4bloc12LETStatement4doitERNS_7ContextE'
    VSTORE = '_ZNK4bloc18VariableExpression5storeERNS_7ContextES2_PNS_10ExpressionE'
    J.append(dict(id='stmt_let_doit', src='blocc/statement_let.cpp', contract='stmt_let.c', enforce=mg, roots=[mg], replace=[VCALL_VALUE, '_ZN4bloc5Value4swapEOS0_', V_CLEAR, V_MOVE_CTOR],
                  cut=[VCALL_VALUE, '_ZN4bloc5Value4swapEOS0_', V_CLEAR, V_MOVE_CTOR, V_CLONE, VSTORE, '_ZN4bloc7Context9getSymbolEj', RTE_CTOR, RTE_CTOR_S, '_ZNK4bloc5Value8typeNameB5cxx11Ev'],
                  props=['C01', 'C02', 'C05', 'C09', 'C17'], pretty='bloc::LETStatement::doit', canaries=['normal', 'exceptional'], unwind=3,
                  unwind_why='Value::deref_value() pointer chase (complete: an iterator points to an element, never to a pointer)',
                  structs=DEFAULT_STRUCTS + [STD_STRING, 'bloc::Context', 'bloc::Symbol', 'bloc::Context::MemorySlot', 'bloc::VariableExpression', 'bloc::LETStatement', 'bloc::Statement']))
    J.append(dict(id='ctx_saveReturned', src='blocc/context.cpp', contract='ctx_returned.c', enforce='_ZN4bloc7Context12saveReturnedERNS_5ValueE', roots=['_ZN4bloc7Context12saveReturnedERNS_5ValueE'],
                  replace=[V_MOVE_CTOR], cut=['_ZN4bloc5Value4swapERS0_', V_MOVE_CTOR, V_CLEAR, V_CLONE, RTE_CTOR, RTE_CTOR_S], defines=['JOB_SAVE'],
                  props=['C01', 'C05', 'C08', 'C15', 'C17'], pretty='bloc::Context::saveReturned', canaries=['normal'], structs=DEFAULT_STRUCTS + [STD_STRING, 'bloc::Context']))
    J.append(dict(id='stmt_return_doit', src='blocc/statement_return.cpp', contract='ctx_returned.c', enforce='_ZNK4bloc15RETURNStatement4doitERNS_7ContextE', roots=['_ZNK4bloc15RETURNStatement4doitERNS_7ContextE'],
                  replace=[VCALL_VALUE], cut=[VCALL_VALUE, '_ZN4bloc7Context12saveReturnedERNS_5ValueE', RTE_CTOR, RTE_CTOR_S], defines=['JOB_RETURN'],
                  props=['C01', 'C07', 'C08'], pretty='bloc::RETURNStatement::doit', canaries=['normal', 'exceptional'], structs=DEFAULT_STRUCTS + [STD_STRING, 'bloc::Context', 'bloc::RETURNStatement', 'bloc::Statement']))
    J.append(dict(id='ctx_unstackControl', src='blocc/context.cpp', contract='ctx_unstack.c', enforce='_ZN4bloc7Context14unstackControlEv', roots=['_ZN4bloc7Context14unstackControlEv'],
                  replace=[], cut=[RTE_CTOR, RTE_CTOR_S], props=['C01', 'C06', 'C07'], pretty='bloc::Context::unstackControl', canaries=['normal'],
                  structs=DEFAULT_STRUCTS + [STD_STRING, 'bloc::Context', 'bloc::Context::Control', 'bloc::Controller']))
    for jid, mg, df, cls in (('stmt_break_doit', '_ZNK4bloc14BREAKStatement4doitERNS_7ContextE', 'JOB_BREAK', 'BREAKStatement'), ('stmt_continue_doit', '_ZNK4bloc17CONTINUEStatement4doitERNS_7ContextE', 'JOB_CONTINUE', 'CONTINUEStatement')):
        J.append(dict(id=jid, src='blocc/parse_statement.cpp', contract='stmt_break.c', enforce=mg, roots=[mg], replace=['_ZN4bloc7Context10topControlEv'], defines=[df],
                      cut=['_ZN4bloc7Context10topControlEv', RTE_CTOR, RTE_CTOR_S], props=['C01', 'C06'], pretty='bloc::%s::doit' % cls, canaries=['normal'],
                      structs=DEFAULT_STRUCTS + ['bloc::Symbol', 'bloc::Context', 'bloc::Executable', 'bloc::' + cls, 'bloc::Statement', 'bloc::Controller']))
    mg = '_ZNK4bloc18VariableExpression5storeERNS_7ContextES2_PNS_10ExpressionE'
    J.append(dict(id='var_store', src='blocc/statement_let.cpp', contract='var_store.c', enforce=mg, roots=[mg], replace=[VCALL_VALUE], cut=[VCALL_VALUE, '_ZN4bloc7Context13storeVariableEjONS_5ValueE', RTE_CTOR, RTE_CTOR_S],
                  props=['C01', 'C05', 'C07', 'C08'], pretty='bloc::VariableExpression::store(d_ctx, s_ctx, exp)', canaries=['normal', 'exceptional'],
                  structs=DEFAULT_STRUCTS + [STD_STRING, 'bloc::Context', 'bloc::VariableExpression']))
    J.append(dict(id='ctx_trusted', src='blocc/context.cpp', contract='ctx_child.c', enforce='_ZN4bloc7Context7trustedEb', roots=['_ZN4bloc7Context7trustedEb'], replace=[], cut=[], defines=['JOB_TRUSTED'],
                  props=['C01', 'C16'], pretty='bloc::Context::trusted(bool)', canaries=['normal'], structs=DEFAULT_STRUCTS + [STD_STRING, 'bloc::Context']))
    for b, tag in ((0, '0'), (1, '1'), (-1, 'm1'), (2, '2')):
        J.append(dict(id='op_exp_ipow_base_' + tag, src='blocc/operator/op_exp.cpp', contract='ipow.c', enforce='_ZN4blocL4ipowEll', roots=['_ZN4blocL4ipowEll'], replace=[], cut=[], defines=['IPOW_BASE=%d' % b],
                      props=['C01', 'C03'], pretty='ipow(%d, exp) (op_exp.cpp)' % b, canaries=['normal'], unwind=66, unwind_why='64 exponent bits (complete)',
                      structs=DEFAULT_STRUCTS))
    mg = '_ZN4bloc7Context5purgeEv'
    PURGE_CUT = [V_CLEAR, '_ZN4bloc14FunctorManagerC1ERNS_7ContextE', '_ZN4bloc14FunctorManagerD1Ev', '_ZN4bloc14FunctorManagerC2ERNS_7ContextE', '_ZN4bloc14FunctorManagerD2Ev', '_ZN4bloc7Context4Pool5purgeEv']
    J.append(dict(id='ctx_purge', src='blocc/context.cpp', contract='ctx_purge.c', enforce=mg, roots=[mg], replace=[], cut=PURGE_CUT,
                  props=['C01', 'C14', 'C17'], pretty='bloc::Context::purge', canaries=['normal'],
                  structs=DEFAULT_STRUCTS + ['bloc::Context', 'bloc::FunctorManager']))
    mg = '_ZNK4bloc17FunctorExpression5valueERNS_7ContextE'
    CREATEENV = '_ZN4bloc14FunctorManager9createEnvERNS_7ContextEjRKSt6vectorIPNS_10ExpressionESaIS5_EE'
    J.append(dict(id='fn_call', src='blocc/expression_functor.cpp', contract='fn_call.c', enforce=mg, roots=[mg], replace=[CTX_ALLOCATE, V_CLEAR], cut=[CREATEENV, CTX_ALLOCATE, V_CLEAR],
                  props=['C01', 'C05', 'C07', 'C08', 'C17'], pretty='bloc::FunctorExpression::value', canaries=['normal', 'exceptional'],
                  structs=DEFAULT_STRUCTS + ['bloc::Context', 'bloc::FunctorExpression', 'bloc::FunctorManager', 'bloc::FunctorManager::Entry', 'bloc::FunctorManager::Env', 'bloc::Functor', 'bloc::Statement']))
    for jid, mg, df in (('utf8_tostdstring', '_ZNK10utf8helper10UTF8String11ToStdStringB5cxx11Ev', 'JOB_TOSTD'), ('utf8_remove', '_ZN10utf8helper10UTF8String6RemoveEmm', 'JOB_REMOVE')):
        J.append(dict(id=jid, src='modules/utf8/utf8helper.cpp', contract='utf8_string.c', enforce=mg, roots=[mg], replace=[], cut=[], defines=[df],
                      props=['C01', 'C18'], pretty='utf8helper::UTF8String::' + ('ToStdString' if df == 'JOB_TOSTD' else 'Remove'), canaries=['normal'], unwind=6, bounded_inputs=True,
                      unwind_why='strings of at most 3 code points (every code point value)', render_ns=['utf8helper'], enums=[],
                      structs=['utf8helper::UTF8String', 'utf8helper::Parser', STD_STRING, 'std::vector<unsigned int, std::allocator<unsigned int> >']))
    mg = '_ZN10utf8helper10UTF8String6InsertEmRKSt6vectorIjSaIjEEPFjPKNS_9characterEiE'
    J.append(dict(id='utf8_insert_vector', src='modules/utf8/utf8helper.cpp', contract='utf8_insert.c', enforce=mg, roots=[mg], replace=[], cut=['_ZN10utf8helper10UTF8String6InsertEmjPFjPKNS_9characterEiE'],
                  props=['C01', 'C18'], pretty='utf8helper::UTF8String::Insert(pos, code points)', canaries=['normal'], unwind=6, bounded_inputs=True,
                  unwind_why='a store of at most 2 and an argument of at most 2 code points (every value; the argument may be the store itself)', render_ns=['utf8helper'], enums=[],
                  structs=['utf8helper::UTF8String', 'utf8helper::Parser', STD_STRING, 'std::vector<unsigned int, std::allocator<unsigned int> >']))
    mg = '_ZNK4bloc18TOKENIZEExpression8tokenizeERKNSt7__cxx1112basic_stringIcSt11char_traitsIcESaIcEEES8_b'
    J.append(dict(id='builtin_tokenize_split', src='blocc/builtin/builtin_tokenize.cpp', contract='tokenize.c', enforce=mg, roots=[mg], replace=[],
                  cut=['_ZN4bloc10CollectionC1ERKNS_4TypeE', '_ZN4bloc10CollectionC2ERKNS_4TypeE', '_ZN4bloc5ValueC1EPNSt7__cxx1112basic_stringIcSt11char_traitsIcESaIcEEE', V_CLEAR],
                  props=['C01', 'C05', 'C10'], pretty='bloc::TOKENIZEExpression::tokenize', canaries=['normal'], unwind=6, bounded_inputs=True,
                  unwind_why='subject of at most 3 bytes, separator of at most 2 bytes (every content)', enums=['bloc::Type::TypeMajor'],
                  structs=['bloc::Value', 'bloc::Type', STD_STRING, 'bloc::Collection', 'bloc::TOKENIZEExpression']))
    mg = '_ZN9CSVParser9serializeERNSt7__cxx1112basic_stringIcSt11char_traitsIcESaIcEEERKSt6vectorIS5_SaIS5_EE'
    J.append(dict(id='csv_serialize', src='modules/csv/csvparser.cpp', contract='csv_serialize.c', enforce=mg, roots=[mg], replace=[], cut=[],
                  props=['C01', 'C18'], pretty='CSVParser::serialize', canaries=['normal'], unwind=8, bounded_inputs=True,
                  unwind_why='rows of at most 2 fields of at most 2 bytes (every content, separator and quote character)', enums=[],
                  structs=['CSVParser', STD_STRING]))
    mg = '_ZNK4bloc13TABExpression5valueERNS_7ContextE'
    J.append(dict(id='builtin_tab', src='blocc/builtin/builtin_tab.cpp', contract='builtin_tab.c', enforce=mg, roots=[mg], replace=list(MEMB_REPLACE),
                  cut=list(MEMB_CUT) + ['_ZN4bloc10CollectionC1ERKNS_4TypeE', '_ZN4bloc10CollectionC2ERKNS_4TypeE', '_ZN4bloc10CollectionC1ERKNS_9TupleDecl4DeclEh', '_ZN4bloc10CollectionC2ERKNS_9TupleDecl4DeclEh', '_ZN4bloc10CollectionD1Ev', '_ZN4bloc10CollectionD2Ev'],
                  props=['C01', 'C02', 'C05', 'C09', 'C17'], pretty='bloc::TABExpression::value', canaries=['normal', 'exceptional'], unwind=4, bounded_inputs=True,
                  unwind_why='a count of at most 2 elements (operand bound)',
                  structs=DEFAULT_STRUCTS + [STD_STRING, VEC_CHAR, 'bloc::Collection', 'bloc::Tuple', 'bloc::Context', 'bloc::TABExpression']))
    mg = '_ZN4bloc17BuiltinExpression8handbackERNS_7ContextERNS_5ValueE'
    J.append(dict(id='builtin_handback', src='blocc/expression_builtin.cpp', contract='builtin_handback.c', enforce=mg, roots=[mg], replace=[CTX_ALLOCATE, V_CLONE, V_MOVE_CTOR, V_CLEAR], cut=[CTX_ALLOCATE, V_CLONE, V_MOVE_CTOR, V_CLEAR, RTE_CTOR, RTE_CTOR_S],
                  props=['C01', 'C05'], pretty='bloc::BuiltinExpression::handback', canaries=['normal'], structs=DEFAULT_STRUCTS + [STD_STRING, 'bloc::Context']))
    for jid, mg, df in (('base64_decode', '_ZN4bloc9b64decodeEPKvmRSt6vectorIcSaIcEE', 'JOB_DEC'), ('base64_encode', '_ZN4bloc9b64encodeEPKvmRNSt7__cxx1112basic_stringIcSt11char_traitsIcESaIcEEE', 'JOB_ENC')):
        J.append(dict(id=jid, src='blocc/builtin/base64.cpp', contract='base64.c', enforce=mg, roots=[mg], replace=[], cut=[], defines=[df],
                      props=['C01', 'C10'], pretty='bloc::' + ('b64decode' if df == 'JOB_DEC' else 'b64encode'), canaries=['normal'], unwind=14, bounded_inputs=True,
                      unwind_why='inputs of at most 6 bytes (every content and length)', enums=[], structs=[STD_STRING, VEC_CHAR], globals=['bloc::B64index=_ZN4blocL8B64indexE', 'bloc::B64chars=_ZN4blocL8B64charsE'],
                      enforce_alt=([('_ZN4bloc9b64decodeEPKcmRSt6vectorIcSaIcEE', ['B64_CHAR_SIGNATURE'])] if df == 'JOB_DEC' else [])))
    # ---- generic builtin contracts (C01, C05): one job per builtin listed here ----
    for ent in BUILTINS_GENERIC:
        name, cls, nargs = ent[0], ent[1], ent[2]
        uw, uw_why = (ent[3], ent[4]) if len(ent) > 3 else (2, 'Value::deref_value() pointer chase (complete: operands hold no pointers to pointers)')
        strmax = ent[5] if len(ent) > 5 else None
        mg = '_ZNK4bloc%d%s5valueERNS_7ContextE' % (len(cls), cls)
        if any(j['id'] == 'bi_' + name for j in J):
            continue
        ftype = BUILTIN_FIXED_TYPE.get(name)
        follows = name in BUILTIN_FOLLOWS_COMPLEX
        tyform = 'BUILTIN_TYPE_SAME_AS_ARG1' if name in BUILTIN_SAME_AS_ARG1 else ('BUILTIN_TYPE_ARITH2' if name in BUILTIN_ARITH2 else ('BUILTIN_TYPE_POW' if name == 'pow' else None))
        J.append(dict(id='bi_' + name, src='blocc/builtin/builtin_%s.cpp' % name, contract='builtin_generic.c', enforce=mg, roots=[mg], replace=list(MEMB_REPLACE) + [V_CTOR_IMAG], cut=list(MEMB_CUT) + [V_CTOR_IMAG],
                      props=['C01', 'C05'] + (['C02'] if (ftype or follows or tyform) else []) + (['C03', 'C04', 'C10'] if name in ('int', 'num') else []) + (['C10'] if name == 'isnum' else []) + (['C03'] if name == 'mod' else []), pretty='bloc::%s::value' % cls, canaries=['normal', 'exceptional'], unwind=uw,
                      unwind_why=uw_why,
                      defines=['BUILTIN_FN=' + mg, 'BUILTIN_CLASS=' + cls, 'BUILTIN_NARGS=%d' % nargs] + (['BUILTIN_STR_MAX=%d' % strmax] if strmax else []) + (['BUILTIN_TYPE=' + ftype] if ftype else []) + (['BUILTIN_TYPE_FOLLOWS_COMPLEX'] if follows else []) + ([tyform] if tyform else []) + (['BUILTIN_RESULT_IS_CONTAINER'] if ftype in ('LITERAL', 'TABCHAR') else []) + (['BUILTIN_ABS'] if name == 'abs' else []) + (['BUILTIN_IS_INT'] if name == 'int' else []) + (['BUILTIN_IS_NUM'] if name == 'num' else []) + (['BUILTIN_IS_ISNUM'] if name == 'isnum' else []) + (['BUILTIN_IS_MOD'] if name == 'mod' else []) + (['FIND_SCAN_VARIANT', 'BUILTIN_IS_REPLACE'] if name == 'replace' else []),
                      replay=dict(kind='evalnode', headers=['blocc/builtin/builtin_%s.h' % name], mirror_class=cls, children=nargs,
                                  construct='new bloc::%s(std::vector<bloc::Expression*>{%s})' % (cls, ', '.join('kids[%d]' % i for i in range(nargs))),
                                  script='%s(%s)' % (name, ', '.join('{%d}' % i for i in range(nargs)))),
                      **({'bounded_inputs': True, 'thorough': dict(unwind=uw + 6, unwind_why=uw_why.replace('at most 2', 'at most 4') + ' (thorough tier)',
                                                                     defines=['BUILTIN_FN=' + mg, 'BUILTIN_CLASS=' + cls, 'BUILTIN_NARGS=%d' % nargs, 'BUILTIN_STR_MAX=%d' % (strmax + 2)] + (['BUILTIN_TYPE=' + ftype] if ftype else []) + (['BUILTIN_TYPE_FOLLOWS_COMPLEX'] if follows else []) + ([tyform] if tyform else []) + (['BUILTIN_RESULT_IS_CONTAINER'] if ftype in ('LITERAL', 'TABCHAR') else []) + (['BUILTIN_ABS'] if name == 'abs' else []) + (['BUILTIN_IS_INT'] if name == 'int' else []) + (['BUILTIN_IS_NUM'] if name == 'num' else []) + (['BUILTIN_IS_ISNUM'] if name == 'isnum' else []))} if strmax else {}),
                      structs=DEFAULT_STRUCTS + [STD_STRING, VEC_CHAR, 'bloc::Imaginary', 'std::complex<double>', 'bloc::Context', 'bloc::' + cls]))
        if name in C10_BUILTINS:
            # C10 names these builtins: "never read outside the data, and leave their arguments unchanged" -- the safety obligations and
            # the operand frame clauses of the job belong to C10 as well as to C01 / C05
            J[-1]['defines'] = J[-1]['defines'] + ['BUILTIN_C10']
            if 'thorough' in J[-1] and 'defines' in J[-1]['thorough']:
                J[-1]['thorough']['defines'] = J[-1]['thorough']['defines'] + ['BUILTIN_C10']
            J[-1]['safety_props'] = ['C10']
            if 'C10' not in J[-1]['props']:
                J[-1]['props'] = J[-1]['props'] + ['C10']
        if name == 'mod':
            J[-1]['uf'] = True   # the clause about the value of % is decided with % uninterpreted (as for the operator)
        if ftype or follows or tyform:
            # the static half: type() of the same node
            tmg = '_ZNK4bloc%d%s4typeERNS_7ContextE' % (len(cls), cls)
            J.append(dict(id='bt_' + name, src='blocc/builtin/builtin_%s.cpp' % name, contract='builtin_type_generic.c', enforce=tmg, roots=[tmg], replace=['VCALL_Expression_type'],
                          cut=['VCALL_Expression_type', RTE_CTOR, RTE_CTOR_S], props=['C01', 'C02'], pretty='bloc::%s::type' % cls, canaries=['normal'],
                          defines=['BUILTIN_TYPE_FN=' + tmg, 'BUILTIN_CLASS=' + cls] + (['BUILTIN_TYPE=' + ftype] if ftype else ([tyform] + (['BUILTIN_ABS'] if name == 'abs' else []) if tyform else ['BUILTIN_TYPE_FOLLOWS_COMPLEX'])),
                          structs=DEFAULT_STRUCTS + [STD_STRING, VEC_CHAR, 'bloc::Context', 'bloc::' + cls]))
    # C10 ("return the documented value or raise a BLOC error, never read outside the data"): in the jobs over the builtins that
    # property names, a failed safety obligation (pointer, bounds, container precondition, undefined arithmetic) is a C10 violation too
    for j in J:
        if 'C10' in j['props'] and j['src'].startswith('blocc/builtin/') and 'C10' not in j.get('safety_props', []):
            j['safety_props'] = j.get('safety_props', []) + ['C10']
    return J

C10_BUILTINS = set('substr lsubstr rsubstr subraw strpos replace trim ltrim rtrim upper lower tokenize strlen hex hash chr raw str num int isnum b64enc b64dec'.split())
# builtins under the generic contract (name, class, number of arguments); see tools/try_builtins.sh for how the list was grown
# compiled type of the builtins whose type() is a constant (blocc/builtin/builtin_<name>.h / .cpp): checked as C02
BUILTIN_FIXED_TYPE = dict(atan2='NUMERIC', random='NUMERIC',
                          imag='NUMERIC', iphase='NUMERIC', iconj='IMAGINARY', bool='BOOLEAN', isnull='BOOLEAN', strlen='INTEGER', strpos='INTEGER', typeof='LITERAL', str='LITERAL', b64enc='LITERAL', b64dec='TABCHAR', int='INTEGER', num='NUMERIC', isnum='BOOLEAN', getenv='LITERAL', lower='LITERAL', upper='LITERAL',
                          lsubstr='LITERAL', rsubstr='LITERAL', substr='LITERAL', replace='LITERAL', trim='LITERAL', ltrim='LITERAL', rtrim='LITERAL', hex='LITERAL', subraw='TABCHAR', raw='TABCHAR')
# builtins whose type() is complex for a complex first argument and decimal otherwise
BUILTIN_FOLLOWS_COMPLEX = {'cos', 'exp', 'log', 'sin', 'sqrt', 'tan', 'ceil', 'floor', 'round', 'acos', 'asin', 'atan', 'cosh', 'sinh', 'tanh', 'log10'}
# builtins typed like their first argument / like an arithmetic operator on two numbers
BUILTIN_SAME_AS_ARG1 = {'abs', 'sign', 'clamp'}
BUILTIN_ARITH2 = {'max', 'min', 'mod'}
BUILTINS_GENERIC = [
    ('abs', 'ABSExpression', 1), ('acos', 'ACOSExpression', 1), ('asin', 'ASINExpression', 1), ('atan', 'ATANExpression', 1), ('atan2', 'ATAN2Expression', 2),
    ('bool', 'BOOLExpression', 1), ('ceil', 'CEILExpression', 1), ('clamp', 'CLAMPExpression', 3), ('cos', 'COSExpression', 1), ('cosh', 'COSHExpression', 1),
    ('exp', 'EXPExpression', 1), ('floor', 'FLOORExpression', 1), ('iconj', 'ICONJExpression', 1), ('imag', 'IMAGExpression', 1), ('iphase', 'IPHASEExpression', 1),
    ('isnull', 'ISNULLExpression', 1), ('log', 'LOGExpression', 1), ('log10', 'LOG10Expression', 1), ('max', 'MAXExpression', 2), ('min', 'MINExpression', 2),
    ('mod', 'MODExpression', 2), ('pow', 'POWExpression', 2), ('round', 'ROUNDExpression', 2), ('sign', 'SIGNExpression', 1), ('sin', 'SINExpression', 1),
    ('sinh', 'SINHExpression', 1), ('sqrt', 'SQRTExpression', 1), ('strlen', 'STRLENExpression', 1), ('tan', 'TANExpression', 1), ('tanh', 'TANHExpression', 1),
    ('typeof', 'TYPEOFExpression', 1), ('lower', 'LOWERExpression', 1), ('upper', 'UPPERExpression', 1), ('lsubstr', 'LSUBSTRExpression', 2), ('rsubstr', 'RSUBSTRExpression', 2),
    ('substr', 'SUBSTRExpression', 3), ('strpos', 'STRPOSExpression', 3), ('subraw', 'SUBRAWExpression', 3), ('raw', 'RAWExpression', 2),
    ('num', 'NUMExpression', 1, 8, 'std::stod on a string of at most 2 characters (operand bound)', 2), ('isnum', 'ISNUMExpression', 1, 8, 'character loop over a string of at most 2 characters (operand bound)', 2), ('getenv', 'GETENVExpression', 1),
    ('str', 'STRExpression', 1),
    ('b64enc', 'B64ENCExpression', 1, 8, 'string / bytes operand of at most 2 characters (operand bound)', 2), ('b64dec', 'B64DECExpression', 1, 8, 'string / bytes operand of at most 2 characters (operand bound)', 2),
    ('int', 'INTExpression', 1, 8, 'sign / blank skipping loop over a string of at most 2 characters (operand bound)', 2),
    ('trim', 'TRIMExpression', 1, 8, 'character loops over a string of at most 2 characters (operand bound)', 2),
    ('ltrim', 'LTRIMExpression', 1, 8, 'character loops over a string of at most 2 characters (operand bound)', 2),
    ('rtrim', 'RTRIMExpression', 1, 8, 'character loops over a string of at most 2 characters (operand bound)', 2),
    ('replace', 'REPLACEExpression', 3, 8, 'search loop over a subject of at most 2 characters (operand bound): at most 3 searches', 2),
    ('random', 'RANDOMExpression', 1),
    ('hex', 'HEXExpression', 2, 17, 'HEXExpression::hex writes the 16 hexadecimal digits of a 64-bit value: 15 iterations, complete'),
]
if os.environ.get('VERIF_BUILTINS'):   # experiments only (tools/try_builtins.sh): name:Class:nargs,...
    BUILTINS_GENERIC = BUILTINS_GENERIC + [tuple([a.split(':')[0], a.split(':')[1], int(a.split(':')[2])] + ([int(a.split(':')[3]), 'experiment', int(a.split(':')[4])] if len(a.split(':')) > 4 else [])) for a in os.environ['VERIF_BUILTINS'].split(',')]

def known_findings():
    p = os.path.join(VERIF, 'known_findings.json')
    if not os.path.exists(p):
        return []
    return json.load(open(p)).get('findings', [])

def match_safety_finding(known, prop, job, ob):
    for k in known:
        if k.get('job') != job['id'] or k.get('clause'):
            continue
        if prop not in k.get('properties', [k.get('property')]):
            continue
        if re.search(k['match'], ob['name'] + ' ' + ob['desc']):
            return k
    return None

TRUSTED_BASE = [
  'g++ 12.2 -O0 lowering of C++ to GIMPLE (the verified text is GCC\'s own intermediate form of /repo\'s working tree)',
  'tools/g2c.py: generic GIMPLE->C renderer (aborts on unknown forms)',
  'tools/gdb_types.py: struct layouts read from the DWARF of the same compile; checked by _Static_assert in the generated header',
  'tools/c2h.py: contract clauses -> assume/assert harness and callee stubs (Mode B)',
  'CBMC 6.11.0 and its SAT back end; bit-vector machine arithmetic, IEEE-754 doubles',
  'contracts of callees outside the cut (listed per function under callee_contracts; libstdc++/libc API contracts are assumed)',
]
DROPPED = [
  '__cxa_atexit registrations of function-local statics (the destructor run at process exit is outside every contract); the guard variable of such a static is a plain zero-initialised long (single thread)',
  'CLOBBER lifetime markers, branch-probability notes, debug statements',
  'optimisation: verified text is the -O0 lowering, the shipped library is -O2',
  'bodies of functions outside the cut are replaced by their contracts',
  'exception objects: only {static type, RuntimeError::no} is kept, message strings are not',
  'operator new never fails',
  'vtables: virtual calls are resolved to VCALL_<Class>_<method> contract stubs; vptr stores dropped',
  'destructor pointer argument of __cxa_throw',
]
ASSUMPTIONS = [
  'clauses marked uf=true (exact results of 64-bit and double *, /, %) are discharged with the machine operation abstracted as an uninterpreted function shared by rendered code and spec: they show that the code applies the operation to exactly the operand values; that the C operator on uint64_t/int64_t/double is multiplication modulo 2^64 / truncating division / IEEE-754 is the C semantics, assumed',
  'Mode B: the assigns clause of the function under contract is not machine-checked; frame facts that matter are explicit ensures over ghost snapshots',
  'children of an expression node obey the interface contract VCALL_Expression_value (contracts/iface.h): valid tag/flags, only RuntimeError thrown, each evaluation returns a distinct object',
  'heap exhaustion and stack overflow do not occur',
  'callee contracts used as stubs (contracts/value_api.h): Value::_clear, Value::clone, Value(Value&&), operator=(Value&&), swap(Value&&), swap(Value&) and Context::allocate (Pool::keep, bounded) are ALSO proved on their real bodies by the jobs value_clear, value_clone, value_move_*, value_swap_*, ctx_pool_keep; the remaining stubs (Value constructors from payloads, Context::storeVariable / getSymbol / control stack, libstdc++ containers, libm) are assumed',
  'std::string / std::vector / std::list are modelled at API level (contracts/containers.h, strid.h and per-job ghost arrays): sizes and, where a clause needs it, content identity; iterator and index preconditions of the library are asserted, contents are not modelled unless the job says so',
  'std::regex (operator MATCHES, job op_match) is outside the cut: its constructor, assign, destructor and std::regex_match are a ghost model in contracts/op_match.c that answers arbitrarily (any boolean, or std::regex_error) and records which string a pattern object was compiled from and which pattern a match ran against; libstdc++\'s compiler and matcher themselves are trusted',
  'Context::random (std::minstd_rand seeded with the process id; called by random(), job bi_random) is outside the cut: assumed to return some double and to touch nothing the contracts speak about; Context::createChildRuntime is an assumed stub in the createEnv jobs and proved on its real body by ctx_createChildRuntime (bounded: <= 2 declared slots)',
  'the exception class hierarchy used by the rendered catch dispatch (contracts/bloc_exc.h) is written by hand from blocc/exception.h and the C++ standard',
  'integer-to-integer conversions are modulo 2^N as GCC defines them (CBMC conversion-check results for them are ignored; float-to-integer conversions are checked)',
  'the structural induction over the expression tree that carries per-node contracts to whole programs is argued in DESIGN.md, not mechanised',
]
PROP_ASSUMPTIONS = {}
PROP_NOTES = {}
